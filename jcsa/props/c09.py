"""C09 basic_json behaves as a value-semantic JSON container - union typestate, exhaustiveness, lifecycle dispatch."""
from .. import guards as G, peval as P, frontend as F, ast as A, cfg as C, util as U, kinds as K

EXPLANATION = ('Tagged-union typestate for basic_json (kind-set dataflow over every member function of every instantiation): '
               '(R09.1) every cast<S_storage>() is executed only when the object can hold exactly the storage kind of S; '
               '(R09.2) every __builtin_unreachable default of a switch over storage_kind() is unreachable for every kind the object '
               'can have there; further rules under coverage.rules.')
NOT_DECIDED = ('agreement with a reference model over operation sequences; as<T>() exactness; equality versus printing; '
               'only the listed structural clauses are decided')

# layout-identical reads confirmed by reading (behaviour-neutral): (function, storage read, actual kinds) -> reason
# helpers whose kind precondition is established by their callers: name -> [(template arg index, object)], object = 'this' | parameter index
KIND_HELPERS = {
    'swap_l_r': [(0, 'this'), (1, -1)],   # -1 = the last parameter/argument (`other`)
    'swap_l': [(0, 'this')],
}

def _tests_kind_of(fn, spec):
    want = 'this' if spec == 'this' else ('v', fn['params'][spec]['id'], fn['params'][spec]['n'])
    for y in A.walk_no_lambda(fn['body']):
        if A.is_call(y) and A.callee_name(y) == 'storage_kind' and K.obj_key(y.get('obj')) == want: return True
    return False

_HELPER_MAPS = {}
_FACTS = [None]
def helper_map(fn, depth=0):
    """Kind preconditions of a helper template, derived from the helper itself: [(template argument index, 'this' | parameter position)] for
    every object on which the body calls cast<T>() with T one of the function's own template arguments (`swap_l_r<TypeL,TypeR>` reads
    `cast<TypeL>()` of one object and `cast<TypeR>()` of the other, whether they are `*this` and a parameter or two parameters).  The
    callers owe the helper that the object holds the kind of that storage type (checked at every call), the helper may assume it."""
    key = (fn['_unit'], fn['id'])
    if key in _HELPER_MAPS: return _HELPER_MAPS[key]
    out = []
    ta = fn.get('ta') or []
    if ta and fn['n'] not in ('cast', 'construct') and fn.get('body') is not None:
        stor = [A.strip_targs(t).rsplit('::', 1)[-1] for t in ta]
        for c in A.walk_no_lambda(fn['body']):
            if c.get('k') != 'CXXMemberCallExpr' or A.callee_name(c) != 'cast' or not c.get('ta'): continue
            t = A.strip_targs(c['ta'][0]).rsplit('::', 1)[-1]
            if t not in stor or not t.endswith('_storage'): continue
            k = K.obj_key(c.get('obj'))
            if k == 'this': spec = 'this'
            elif isinstance(k, tuple) and any(p_['id'] == k[1] for p_ in fn['params']): spec = [i for i, p_ in enumerate(fn['params']) if p_['id'] == k[1]][0]
            else: continue
            if (stor.index(t), spec) not in out: out.append((stor.index(t), spec))
        # preconditions of the helpers this one hands its own objects to (swap_l<TypeL> -> swap_l_r<TypeL,X>): inherited when the
        # callee's storage type is one of this function's template arguments
        if depth < 3 and _FACTS[0] is not None:
            for c in A.walk_no_lambda(fn['body']):
                if not A.is_call(c): continue
                cal = _FACTS[0].callee(fn, c)
                if cal is None or cal is fn or cal.get('dep') or not cal.get('ta') or cal.get('body') is None or cal['n'] in ('cast', 'construct'): continue
                for cidx, cobj in helper_map(cal, depth + 1):
                    t = A.strip_targs(cal['ta'][cidx]).rsplit('::', 1)[-1]
                    if t not in stor: continue
                    e = c.get('obj') if cobj == 'this' else ((c.get('args') or [])[cobj] if cobj < len(c.get('args') or []) else None)
                    if cobj == 'this' and c.get('k') != 'CXXMemberCallExpr': continue
                    k = K.obj_key(e) if e is not None else None
                    if k == 'this': spec = 'this'
                    elif isinstance(k, tuple) and any(p_['id'] == k[1] for p_ in fn['params']): spec = [i for i, p_ in enumerate(fn['params']) if p_['id'] == k[1]][0]
                    else: continue
                    if (stor.index(t), spec) not in out and spec not in [o for _, o in out]: out.append((stor.index(t), spec))
        # one template argument per object: an object read under two different template arguments is not a precondition pattern
        objs = [o for _, o in out]
        if len(objs) != len(set(objs)): out = []
        # the helper must not establish the kind itself (a function that tests storage_kind() is not a precondition helper)
        if out and any(A.is_call(y) and A.callee_name(y) == 'storage_kind' for y in A.walk_no_lambda(fn['body'])): out = [(i, o) for i, o in out if o == 'this' and False] or [(i, o) for i, o in out if not _tests_kind_of(fn, o)]
    _HELPER_MAPS[key] = out
    return out

def pun_exempt(model, fn, call, simple, actual_names, fn_body):
    """Layout-identical, behaviour-neutral reads (reason) or None.
    (1) a reference kind read through const_json_ref_storage: both reference storages hold one pointer and the const view
        only narrows access;  (2) const_json_ref read through json_ref_storage inside a const member function (the result is
        const-qualified);  (3) uint64 read as int64 whose value is immediately converted back with static_cast<uint64_t>."""
    if simple == 'const_json_ref_storage' and set(actual_names) <= {'json_ref'}:
        return 'json_ref read through const_json_ref_storage (same layout, const view)'
    if simple == 'json_ref_storage' and set(actual_names) <= {'const_json_ref'} and fn.get('const'):
        return 'const_json_ref read through json_ref_storage in a const member function (same layout, result is const)'
    if simple == 'int64_storage' and set(actual_names) <= {'uint64'}:
        # the read must be value() wrapped directly in a cast to an unsigned 64-bit type
        for x in A.walk(fn_body):
            if x.get('k') in A.EXPLICIT_CASTS:
                inner = A.strip(x.get('sub'), casts=False)
                # (the plugin writes the object expression twice: as `obj` and as the base of the callee member expression;
                #  tree walks go through the callee copy)
                if inner is not None and inner.get('k') == 'CXXMemberCallExpr' and A.callee_name(inner) == 'value' and \
                   (A.strip(inner.get('obj'), casts=False) is call or
                    A.strip((A.strip(inner.get('callee')) or {}).get('base'), casts=False) is call):
                    t = fn['_types'][x['t'] - 1] if x.get('t') else ''
                    if t in ('unsigned long', 'unsigned long long'):
                        return 'uint64 read as int64 and immediately converted back with static_cast<uint64_t> (same bits)'
    return None

def in_placement_new(fn_body, call):
    """cast<S>() whose address is the placement argument of a new-expression (construct<S>), or a cast(identity<S>) wrapper."""
    for x in A.walk(fn_body):
        if x.get('k') == 'CXXNewExpr' and x.get('placement'):
            for y in A.walk(x):
                if y is call: return True
    return False

def r09_1_2(chk, facts, model):
    chk.rule('R09.1', 'union typestate: at every x.cast<S_storage>() the kind set of x (from dominating storage_kind tests, switch labels '
                      'and predicate truth tables) is a subset of the kind(s) S_storage is constructed with', floor=500)
    chk.rule('R09.2', 'exhaustiveness: at every __builtin_unreachable() under a switch over x.storage_kind() the kind set of x is empty', floor=20)
    fns = [f for f in facts.functions if not f.get('dep') and f.get('body') is not None and
           A.strip_targs(f.get('cls') or '') == 'jsoncons::basic_json' and f['file'].endswith('basic_json.hpp')]
    chk.require(len(fns) > 500, 'basic_json member functions not found (%d)' % len(fns))
    n_unreach = 0
    skipped = 0
    _FACTS[0] = facts; _HELPER_MAPS.clear()
    for fn in fns:
        casts = [c for c in A.walk_no_lambda(fn['body']) if c.get('k') == 'CXXMemberCallExpr' and A.callee_name(c) == 'cast' and c.get('ta')]
        unre = [c for c in A.walk_no_lambda(fn['body']) if c.get('k') == 'CallExpr' and A.callee_name(c) == '__builtin_unreachable']
        if not casts and not unre: continue
        if fn['n'] in ('cast', 'construct'): continue
        chk.analysed(fn)
        entry = {}
        for idx, obj in helper_map(fn):
            ks = model.storage_kind_of.get(A.strip_targs(fn['ta'][idx]).rsplit('::', 1)[-1])
            if ks:
                key = 'this' if obj == 'this' else ('v', fn['params'][obj]['id'], fn['params'][obj]['n'])
                entry[key] = frozenset(ks)
        flow = K.KindFlow(model, fn, entry)
        inst = fn['q']
        # call-site obligations of the kind-precondition helpers
        for hc in [c for c in A.walk_no_lambda(fn['body']) if A.is_call(c)]:
            callee = facts.callee(fn, hc)
            if callee is None or callee.get('dep') or not callee.get('ta') or callee is fn: continue
            for idx, obj in helper_map(callee):
                if idx >= len(callee['ta']): continue
                sname = A.strip_targs(callee['ta'][idx]).rsplit('::', 1)[-1]
                want = model.storage_kind_of.get(sname)
                if obj == 'this':
                    if hc.get('k') != 'CXXMemberCallExpr': continue
                    key = K.obj_key(hc.get('obj'))
                else:
                    key = K.obj_key((hc.get('args') or [])[obj]) if obj < len(hc.get('args') or []) else None
                if not want or key is None: continue
                kinds = flow.kinds_at(hc, key)
                if kinds is None: continue
                objn = 'this' if key == 'this' else key[2]
                site = U.site(fn, 'call %s<%s> needs %s=%s' % (A.callee_name(hc), sname, objn, sname))
                if kinds <= frozenset(want): chk.ok('R09.1', site, None, nontrivial=len(kinds) > 0)
                else:
                    chk.fail('R09.1', site, fn['file'], hc.get('l'), '%s<%s> is called when %s may hold %s' % (
                        A.callee_name(hc), sname, objn, ', '.join(sorted(model.kinds[k] for k in kinds - frozenset(want)))), None, inst)
        for i, c in enumerate(casts):
            simple = A.strip_targs(c['ta'][0]).rsplit('::', 1)[-1]
            if simple == 'common_storage': continue
            want = model.storage_kind_of.get(simple)
            if not want:
                chk.broken('R09.1: storage struct %s has no known kind' % simple)
            key = K.obj_key(c.get('obj'))
            if key is None:
                skipped += 1; continue
            if in_placement_new(fn['body'], c): continue
            kinds = flow.kinds_at(c, key)
            if kinds is None:
                skipped += 1; continue
            objn = 'this' if key == 'this' else key[2]
            site = U.site(fn, 'cast<%s> on %s #%d' % (simple, objn, i + 1))
            names = tuple(sorted(model.kinds[k] for k in kinds - frozenset(want)))
            facts_ = {'function': inst, 'line': c.get('l'), 'object': objn, 'storage': simple,
                      'kinds_possible': sorted(model.kinds[k] for k in kinds), 'kinds_required': sorted(model.kinds[k] for k in want)}
            if kinds <= frozenset(want):
                chk.ok('R09.1', site, facts_ if len(kinds) else None, nontrivial=len(kinds) > 0)
            elif pun_exempt(model, fn, c, simple, names, fn['body']):
                chk.ok('R09.1', site, dict(facts_, exempt=pun_exempt(model, fn, c, simple, names, fn['body'])))
            else:
                chk.fail('R09.1', U.site(fn, 'cast<%s> on %s with %s' % (simple, objn, ','.join(names)[:80])), fn['file'], c.get('l'),
                         '%s.cast<%s>() in %s is reached when %s may hold %s' % (objn, simple, fn['n'], objn, ', '.join(names)[:120]), facts_, inst)
        for u in unre:
            n = flow.g.node_of(u)
            if n is None: continue
            # find the governing switch over x.storage_kind()
            sw = None
            for d in flow.g.dominators(n):
                if d.kind == 'edge' and d.src is not None and d.src.kind == 'switch':
                    key = flow.kind_call_obj(d.src.ast)
                    if key is not None: sw = (d, key)
                    break
            if sw is None: continue
            n_unreach += 1
            d, key = sw
            kinds = flow.kinds_at(u, key)
            objn = 'this' if key == 'this' else key[2]
            site = U.site(fn, 'unreachable default over %s.storage_kind() @switch%d' % (objn, [x.get('l') for x in A.walk(fn['body']) if x.get('k') == 'SwitchStmt'].index(d.src.ast.get('l')) if False else 0))
            site = U.site(fn, 'unreachable under switch(%s.storage_kind())' % objn)
            facts_ = {'function': inst, 'line': u.get('l'), 'object': objn, 'kinds_reaching_default': sorted(model.kinds[k] for k in (kinds or ()))}
            if not kinds:
                chk.ok('R09.2', site, facts_)
            else:
                chk.fail('R09.2', site + ' ' + ','.join(sorted(model.kinds[k] for k in kinds))[:60], fn['file'], u.get('l'),
                         '__builtin_unreachable() in %s is reachable when %s holds %s' % (fn['n'], objn, ', '.join(sorted(model.kinds[k] for k in kinds))), facts_, inst)
    chk.note('R09.1: %d cast sites on untracked objects (temporaries, nested references) not analysed' % skipped)
    chk.require(n_unreach >= 10, 'R09.2: only %d unreachable defaults under kind switches found' % n_unreach)

def r09_4(chk, facts):
    chk.rule('R09.4', 'sorted_json_object: every std::unique de-duplication of data_ is dominated by std::stable_sort in the same function '
                      '(so the first of equal keys survives), and an unstable std::sort is used only with a comparator that breaks ties by '
                      'arrival index', floor=4)
    fns = [f for f in facts.functions if f['file'].endswith('sorted_json_object.hpp') and f.get('body') is not None]
    seen = set()
    n = 0
    for fn in fns:
        k = (fn['l'], fn['n'], bool(fn.get('dep')))
        if k in seen: continue
        seen.add(k)
        calls = [c for c in A.walk_no_lambda(fn['body']) if c.get('k') in A.CALLS and A.callee_name(c) in ('unique', 'sort', 'stable_sort')]
        if not calls: continue
        chk.analysed(fn)
        g = C.CFG(fn['body'])
        for c in calls:
            name = A.callee_name(c)
            node = g.node_of(c)
            if node is None: continue
            if name == 'unique':
                n += 1
                doms = [d for d in [node] + g.dominators(node) if d.kind == 'stmt']
                stable = any(any(A.callee_name(x) == 'stable_sort' for x in A.calls_in(d.ast)) for d in doms if d is not node) or \
                         any(A.callee_name(x) == 'stable_sort' for x in A.calls_in(node.ast) if x is not c)
                unstable = any(any(A.callee_name(x) == 'sort' for x in A.calls_in(d.ast)) for d in doms)
                site = U.site(fn, 'unique@%s' % ('pattern' if fn.get('dep') else 'inst'))
                site = U.site(fn, 'unique nparams=%d' % len(fn['params']))
                if stable and not unstable:
                    chk.ok('R09.4', site, {'function': fn['q'], 'line': c.get('l'), 'dominated_by': 'stable_sort'})
                else:
                    chk.fail('R09.4', site, fn['file'], c.get('l'), 'std::unique in %s is not preceded by std::stable_sort (%s): which of two equal keys survives is unspecified' % (
                        fn['n'], 'std::sort found' if unstable else 'no sort found'), {'function': fn['q']}, fn['q'])
            elif name == 'sort':
                n += 1
                args = c.get('args') or []
                tie = False
                if len(args) >= 3:
                    cmp_ref = A.strip(args[2], casts=True)
                    cname = A.ref_name(cmp_ref)
                    for f2 in facts.functions:
                        if f2['n'] == cname and f2['file'] == fn['file'] and f2.get('body') is not None:
                            if any(x.get('n') == 'index' for x in A.walk(f2['body'])): tie = True
                    if cmp_ref is not None and cmp_ref.get('k') == 'LambdaExpr':
                        tie = any(x.get('n') == 'index' for x in A.walk(cmp_ref))
                site = U.site(fn, 'sort nparams=%d' % len(fn['params']))
                if tie: chk.ok('R09.4', site, {'function': fn['q'], 'line': c.get('l'), 'comparator_breaks_ties_by': 'index'})
                else:
                    chk.fail('R09.4', site, fn['file'], c.get('l'), 'unstable std::sort in %s with a comparator that does not break ties by arrival index' % fn['n'],
                             {'function': fn['q']}, fn['q'])
    chk.require(n >= 4, 'R09.4: only %d sort/unique sites found in sorted_json_object.hpp' % n)

def r09_5(chk, facts, model):
    from .. import peval as P
    chk.rule('R09.5', 'compare() pair matrix is symmetric: for every ordered pair of storage kinds (A,B) and every number-tag assignment, '
                      'the cell (A,B) compares values iff the mirrored cell (B,A) does (a value comparison on one side and a '
                      'storage-kind difference on the other makes == and < depend on operand order)', floor=80)
    fns = [f for f in facts.functions if f['n'] == 'compare' and not f.get('dep') and f.get('body') is not None and
           A.strip_targs(f.get('cls') or '') == 'jsoncons::basic_json' and len(f['params']) == 1]
    chk.require(fns, 'basic_json::compare not found')
    refs = {model.byname['const_json_ref'], model.byname['json_ref'], model.byname['half_float']}
    for fn in fns[:1] if len(fns) > 0 else []:
        chk.analysed(fn)
        rhs_id = fn['params'][0]['id']
        table = {}
        def classify(ret_ast):
            s0 = A.strip(ret_ast, casts=True)
            if s0 is None: return 'value'
            if s0.get('k') == 'BinaryOperator' and s0.get('op') == '-':
                if all(any(x.get('k') == 'CXXMemberCallExpr' and A.callee_name(x) == 'storage_kind' for x in A.walk(side))
                       for side in (s0.get('lhs'), s0.get('rhs'))):
                    return 'kinddiff'
            for x in A.walk(s0):
                if x.get('k') == 'CXXMemberCallExpr' and A.callee_name(x) == 'compare' and A.strip_targs(x.get('cq', '')).endswith('basic_json::compare'):
                    o = A.strip(x.get('obj'), casts=True)
                    a0 = A.strip((x.get('args') or [None])[0], casts=True)
                    if o is not None and o.get('k') == 'DeclRefExpr' and o.get('id') == rhs_id and K.obj_key(a0) == 'this':
                        return 'mirror'      # rhs.compare(*this): the cell is defined as the negation of its mirror
                    return 'delegate'
            return 'value'
        for k1 in sorted(model.ALL):
            for k2 in sorted(model.ALL):
                for a in (0, 1):
                    for b in (0, 1):
                        class PE(P.PEval):
                            def ev(self2, e, env, depth=0):
                                if e is not None and e.get('k') == 'CXXMemberCallExpr' and A.callee_name(e) == 'storage_kind':
                                    o = A.strip(e.get('obj'), casts=True)
                                    if o is not None and o.get('k') == 'CXXThisExpr': return k1
                                    if o is not None and o.get('k') == 'DeclRefExpr' and o.get('id') == rhs_id: return k2
                                if e is not None and e.get('k') == 'CallExpr' and A.callee_name(e) == 'is_number_tag':
                                    arg = A.strip((e.get('args') or [None])[0], casts=True)
                                    if arg is not None and arg.get('k') == 'CXXMemberCallExpr' and A.callee_name(arg) == 'tag':
                                        o = A.strip(arg.get('obj'), casts=True)
                                        if o is not None and o.get('k') == 'CXXThisExpr': return a
                                        if o is not None and o.get('k') == 'DeclRefExpr' and o.get('id') == rhs_id: return b
                                return P.PEval.ev(self2, e, env, depth)
                        pe = PE(facts, fn, max_depth=1, pure=lambda c, call: c['n'] in ('is_string_storage', 'is_primitive_storage', 'is_trivial_storage'))
                        try:
                            pe.exec_body(fn, {})
                        except P.Stop:
                            chk.broken('R09.5: effect budget exhausted')
                        rets = [e for e in pe.effects if e.kind == 'return' and e.depth == 0]
                        # the `this == &rhs` early return is not part of the matrix
                        rets = [e for e in rets if not any('this ==' in g for g in e.guards)]
                        table[(k1, k2, a, b)] = frozenset(classify(e.extra.get('ast')) for e in rets)
        strk = {model.byname['short_str'], model.byname['long_str']}
        for (k1, k2, a, b), cls in sorted(table.items()):
            if k1 in refs or k2 in refs: continue
            if k1 > k2 or (k1 == k2 and a > b): continue
            if (k1 not in strk and a) or (k2 not in strk and b): continue     # the number tag only matters for strings
            m = table[(k2, k1, b, a)]
            n1, n2 = model.kinds[k1], model.kinds[k2]
            tagtxt = ''
            if k1 in strk: tagtxt += ' %s%s' % (n1, '[number tag]' if a else '[plain]')
            if k2 in strk: tagtxt += ' %s%s' % (n2, '[number tag]' if b else '[plain]')
            site = U.site(fn, 'cell %s x %s%s' % (n1, n2, tagtxt))
            ok = (('value' in cls) == ('value' in m)) and (('kinddiff' in cls) == ('kinddiff' in m))
            if cls == {'mirror'} and m != {'mirror'}: ok = True
            if m == {'mirror'} and cls != {'mirror'}: ok = True
            facts_ = {'cell': [n1, n2], 'lhs_number_tag': bool(a), 'rhs_number_tag': bool(b), 'class': sorted(cls), 'mirror_class': sorted(m)}
            if ok: chk.ok('R09.5', site, facts_ if 'value' in cls and k1 != k2 else None, nontrivial=(k1 != k2))
            else:
                chk.fail('R09.5', site, fn['file'], fn['l'], 'compare(): cell (%s, %s)%s is %s but the mirrored cell is %s' % (
                    n1, n2, tagtxt, '/'.join(sorted(cls)), '/'.join(sorted(m))), facts_, fn['q'])

def r09_6(chk, facts):
    """Duplicate-key filter of order_preserving_json_object: the Bloom filter must know every key that was appended unchecked."""
    chk.rule('R09.6', 'bloom filter soundness: where a key that the filter reports as new is appended to data_ without a duplicate search, the '
                      'filter is updated with that key on every path to the next key (bloom_set must-pass), and a key the filter may already '
                      'contain goes through a duplicate-checking insert', floor=3)
    n = 0; seen = set()
    for fn in facts.functions:
        if fn.get('dep') or fn.get('body') is None or not fn['file'].endswith('ordered_json_object.hpp') or (fn['file'], fn['l']) in seen: continue
        tests = [c for c in A.calls_in(fn['body'], no_lambda=True) if A.callee_name(c) == 'bloom_may_contain']
        if not tests: continue
        seen.add((fn['file'], fn['l']))
        chk.analysed(fn)
        g = C.CFG(fn['body'])
        sets = [nd for nd in g.rpo if nd.kind in ('stmt', 'cond') and isinstance(nd.ast, dict) and any(A.callee_name(c) == 'bloom_set' for c in A.calls_in(nd.ast))]
        heads = [nd for nd in g.rpo if nd.kind == 'join' and any(g.dominates(nd, p_) for p_ in nd.pred)] + [g.exit_return]
        from .. import guards as G
        for i, t in enumerate(tests):
            nd = g.node_of(t)
            if nd is None or nd.kind != 'cond': continue
            n += 1
            site = U.site(fn, 'bloom test#%d' % (i + 1))
            neg = [e for e in nd.succ if e.label is False]; pos = [e for e in nd.succ if e.label is True]
            bad = None
            for e in neg:
                for m in G.region_of_edge(g, e):
                    if m.kind == 'stmt' and isinstance(m.ast, dict):
                        for c in A.calls_in(m.ast):
                            if A.callee_name(c) in ('emplace_back', 'push_back', 'emplace', 'insert') and A.ref_name(c.get('obj')) == 'data_':
                                if m not in sets and any(g.can_reach(s2, heads, avoid=sets) for s2 in m.succ):
                                    bad = (c.get('l'), 'a key the filter reports as new is appended at line %s and the next key is reached without bloom_set(): a later duplicate of it is appended again' % c.get('l'))
            for e in pos:
                for m in G.region_of_edge(g, e):
                    if m.kind == 'stmt' and isinstance(m.ast, dict):
                        for c in A.calls_in(m.ast):
                            if A.callee_name(c) in ('emplace_back', 'push_back') and A.ref_name(c.get('obj')) == 'data_':
                                bad = (c.get('l'), 'a key the filter may already contain is appended at line %s without a duplicate search' % c.get('l'))
            if bad is None: chk.ok('R09.6', site, {'function': fn['n'], 'line': t.get('l')})
            else: chk.fail('R09.6', site, fn['file'], bad[0], '%s: %s' % (fn['n'], bad[1]), None, fn['q'])
    chk.require(n >= 3, 'R09.6: only %d bloom filter tests found' % n)

def r09_7(chk, facts):
    """The two deep-copy routines of basic_json copy the same attributes of every heap storage kind."""
    chk.rule('R09.7', 'copy siblings: for every case of the storage-kind switch, uninitialized_copy and uninitialized_copy_a pass the same '
                      'attributes of the source storage to the same create_* function (data, length, ext_tag, value ...) and construct the '
                      'storage with the source tag; an attribute replaced by a constant in one of them makes that copy route lossy', floor=4)
    ks = dict((v, k) for k, v in U.enum_by_suffix(facts, '::json_storage_kind')['values'])
    def table(fn):
        out = {}
        for sw in A.walk_no_lambda(fn['body']):
            if sw.get('k') != 'SwitchStmt': continue
            cur = None
            for labels, st in P.PEval.switch_items(sw.get('body')):
                if labels: cur = tuple(sorted(ks.get(lo, str(lo)) for lo, hi in labels if lo != 'default')) or ('default',)
                if st is None or cur is None: continue
                for c in A.calls_in(st, no_lambda=True):
                    nm = A.callee_name(c)
                    if not (nm.startswith('create_') or nm == 'construct'): continue
                    args = c.get('args') or []
                    sig = []
                    for a in (args[1:] if nm.startswith('create_') else args[1:]):
                        calls = [A.callee_name(y) for y in A.calls_in(a) if A.callee_name(y) not in ('cast', 'operator*', 'move', 'forward')]
                        v = A.const(a)
                        sig.append(tuple(calls) if calls else ('const %s' % v if v is not None else A.ref_name(a) or '?'))
                    out.setdefault(cur, []).append((nm, tuple(sig)))
        return out
    groups = {}
    for f in facts.functions:
        if f['n'] in ('uninitialized_copy', 'uninitialized_copy_a') and f.get('body') is not None and not f.get('dep') and 'basic_json' in (f.get('cls') or ''):
            groups.setdefault(f['cls'], {}).setdefault(f['n'], f)
    n = 0
    for cls, d in sorted(groups.items()):
        if len(d) != 2: continue
        a, b = d['uninitialized_copy'], d['uninitialized_copy_a']
        ta, tb = table(a), table(b)
        if not ta or not tb: continue
        chk.analysed(a); chk.analysed(b)
        for case in sorted(set(ta) | set(tb)):
            if case == ('default',): continue
            n += 1
            site = U.site(b, 'copy of %s' % '/'.join(case))
            if ta.get(case) == tb.get(case): chk.ok('R09.7', site, {'attributes': [list(x[1]) for x in ta.get(case, [])]})
            else:
                chk.fail('R09.7', site, b['file'], b['l'], 'copying a %s value: uninitialized_copy passes %s, uninitialized_copy_a passes %s' % (
                    '/'.join(case), ta.get(case), tb.get(case)), None, b['q'])
        if n >= 8: break     # two instantiations are enough (json, ojson)
    chk.require(n >= 4, 'R09.7: only %d storage-kind cases found in the copy routines' % n)

def r09_8(chk, facts):
    """lower_bound finds a position, not a match."""
    chk.rule('R09.8', 'sorted object look-ups: wherever sorted_json_object treats the position returned by std::lower_bound as the member with the '
                      'searched key (it assigns through it: pos->value(x), or returns it as "found"), that use is reached only after the key at '
                      'the position was compared equal with the searched key (besides the end() test); lower_bound alone gives the first '
                      'member that is not less, which is a different member whenever the key is absent', floor=4)
    n = 0; seen = set()
    for fn in facts.functions:
        if fn.get('body') is None or fn.get('dep') or not fn['file'].endswith('sorted_json_object.hpp') or (fn['file'], fn['l']) in seen: continue
        pos = {}
        for x in A.walk_no_lambda(fn['body']):
            e = None; vid = None
            if x.get('k') == 'VarDecl' and x.get('init') is not None: e, vid = x['init'], x.get('id')
            if x.get('k') == 'BinaryOperator' and x.get('op') == '=' and (A.strip(x.get('lhs'), casts=True) or {}).get('k') == 'DeclRefExpr': e, vid = x.get('rhs'), A.strip(x['lhs'], casts=True).get('id')
            if x.get('k') == 'CXXOperatorCallExpr' and x.get('oop') == '=' and len(x.get('args') or []) == 2 and (A.strip(x['args'][0], casts=True) or {}).get('k') == 'DeclRefExpr': e, vid = x['args'][1], A.strip(x['args'][0], casts=True).get('id')
            if e is not None and any(A.callee_name(c) == 'lower_bound' for c in A.calls_in(e)): pos[vid] = True
        if not pos: continue
        g = C.CFG(fn['body'])
        seen.add((fn['file'], fn['l']))
        def of_pos(e):
            return any(y.get('k') == 'DeclRefExpr' and y.get('id') in pos for y in A.walk(e))
        for nd in g.rpo:
            if nd.kind not in ('stmt', 'return') or not isinstance(nd.ast, dict): continue
            uses = [c for c in A.calls_in(nd.ast) if c.get('k') == 'CXXMemberCallExpr' and A.callee_name(c) == 'value' and c.get('args') and of_pos(c.get('obj'))]
            if not uses: continue
            n += 1
            chk.analysed(fn)
            ok = False
            for a, lab, e in g.guards(nd):
                for y in A.walk(a):
                    cm = G.comparison(y) if y.get('k') in ('BinaryOperator', 'CXXOperatorCallExpr') else None
                    if not cm or cm[0] not in ('==', '!='): continue
                    if not any(A.callee_name(c) == 'key' and of_pos(c.get('obj')) for z in (cm[1], cm[2]) for c in A.calls_in(z)): continue
                    if (cm[0] == '==') == bool(lab): ok = True
            site = U.site(fn, 'assignment through lower_bound position, line %s' % uses[0].get('l'))
            if ok: chk.ok('R09.8', site, None)
            else:
                chk.fail('R09.8', site, fn['file'], uses[0].get('l'), '%s assigns through the lower_bound position at line %s without having compared its key with the searched key: '
                         'when the key is absent the value of the next greater member is overwritten and the new member is lost' % (fn['n'], uses[0].get('l')), None, fn['q'])
    chk.require(n >= 4, 'R09.8: only %d assignments through lower_bound positions found' % n)

def r09_9(chk, facts):
    """Two doubles are compared, not subtracted."""
    chk.rule('R09.9', 'ordering of doubles: compare() never decides the order of two values that can both be infinite from the sign of their '
                      'difference (`r = a - b; r == 0 ? ...`): inf - inf is NaN, so two equal infinities would compare as different; a '
                      'difference is accepted when one operand is an integer converted to double (always finite) or when the equality of the '
                      'two operands was tested first', floor=4)
    n = 0; seen = set()
    for fn in U.one_per_inst([f for f in facts.functions if f['n'] == 'compare' and A.strip_targs(f.get('cls') or '').endswith('basic_json') and f['file'].endswith('basic_json.hpp') and f.get('body') is not None and not f.get('dep')])[:2]:
        chk.analysed(fn)
        g = C.CFG(fn['body'])
        al = A.pure_aliases(fn['body'])
        def finite(e):
            # a value converted from an integer type
            s_ = A.strip(e)
            while s_ is not None and s_.get('k') in A.EXPLICIT_CASTS + ('ImplicitCastExpr', 'ParenExpr'):
                sub = s_.get('sub')
                st = fn['_types'][sub['t'] - 1] if sub is not None and sub.get('t') else ''
                if s_.get('ck') in ('IntegralToFloating',) or (st and not any(w in st for w in ('double', 'float'))): return True
                s_ = sub
            return False
        for d in A.walk_no_lambda(fn['body']):
            if d.get('k') != 'VarDecl' or d.get('init') is None: continue
            i = A.strip(d['init'], casts=False)
            if i is None or i.get('k') != 'BinaryOperator' or i.get('op') != '-': continue
            tn = fn['_types'][d['t'] - 1] if d.get('t') else ''
            if 'double' not in tn and 'float' not in tn: continue
            n += 1
            site = U.site(fn, 'difference at line %s' % d.get('l'))
            if finite(i.get('lhs')) or finite(i.get('rhs')):
                chk.ok('R09.9', site, {'one_operand': 'integer converted to double'}); continue
            ca, cb = A.canon(i.get('lhs'), al), A.canon(i.get('rhs'), al)
            dn = g.node_of(d)
            tested = False
            for a, lab, e in (g.guards(dn) if dn is not None else []):
                cm = G.comparison(a)
                if cm and cm[0] in ('==', '!=') and {A.canon(cm[1], al), A.canon(cm[2], al)} == {ca, cb} and ((cm[0] == '==') != bool(lab)): tested = True
            if tested: chk.ok('R09.9', site, {'equality_tested_first': True})
            else:
                chk.fail('R09.9', site, fn['file'], d.get('l'), 'compare() orders `%s` and `%s` by the sign of their difference: for two infinities of the same sign the difference is NaN and '
                         'equal values compare as different' % (ca[:40], cb[:40]), None, fn['q'])
    chk.require(n >= 4, 'R09.9: only %d floating differences found in compare()' % n)

def r09_10(chk, facts):
    """The order the members are searched by is the order they were sorted by."""
    chk.rule('R09.10', 'one key ordering: every comparator of the sorted object (the `Comp` handed to std::lower_bound / binary search, the `compare` '
                       'used by std::sort / stable_sort, operator< of key_value) orders keys with the key type\'s own comparison '
                       '(basic_string / basic_string_view operator<, compare()), i.e. by char_traits; no comparator uses another primitive '
                       '(std::lexicographical_compare on the characters, strcmp, memcmp): for `char` those compare signed where char_traits '
                       'compares unsigned, so non-ASCII keys are sorted one way and searched the other', floor=3)
    n = 0; seen = set()
    FOREIGN = ('lexicographical_compare', 'strcmp', 'strncmp', 'wcscmp', 'memcmp', 'lexicographical_compare_three_way')
    for fn in sorted(facts.functions, key=lambda f: bool(f.get('dep'))):
        if fn.get('body') is None or not fn['file'].endswith(('sorted_json_object.hpp', 'key_value.hpp')): continue
        is_cmp = (fn['n'] in ('operator()', 'compare', 'operator<', 'operator<=', 'operator>', 'operator>=')) or fn['n'].startswith('compare')
        if not is_cmp or (fn['file'], fn['l']) in seen: continue
        seen.add((fn['file'], fn['l'])); n += 1
        chk.analysed(fn)
        bad = [c for c in A.calls_in(fn['body']) if A.callee_name(c) in FOREIGN]
        site = U.site(fn, 'comparator at line %s' % fn['l'])
        if not bad: chk.ok('R09.10', site, None)
        else: chk.fail('R09.10', site, fn['file'], bad[0].get('l'), 'the comparator %s (line %s) orders keys with %s instead of the key type\'s comparison: lookups and the sort disagree on '
                       'keys with bytes above 0x7F' % (fn['n'], fn['l'], A.callee_name(bad[0])), None, fn['q'])
    chk.require(n >= 3, 'R09.10: only %d comparators found in the sorted object' % n)

def value_semantics(chk, tier):
    """The basic_json value operations that the patch algorithms are written in terms of: kind-safe storage access in every member function
    (R09.1/R09.2), the comparison matrix (R09.5), the copy siblings (R09.7) and whole-character copies/compares (R05.12)."""
    facts = F.load(['core'], tier)
    if 'core' not in chk.units: chk.units.append('core')
    model = K.KindModel(facts, chk)
    r09_1_2(chk, facts, model)
    r09_5(chk, facts, model)
    r09_7(chk, facts)
    r09_8(chk, facts)
    r09_10(chk, facts)
    from . import c05
    c05.r05_12(chk, tier, units=('core', 'patch'))

def run(chk, tier, only_rule=None):
    chk.explanation = EXPLANATION
    chk.not_decided = NOT_DECIDED
    facts = F.load(['core'], tier)
    chk.units = facts.units
    model = K.KindModel(facts, chk)
    r09_1_2(chk, facts, model)
    r09_4(chk, facts)
    r09_6(chk, facts)
    r09_5(chk, facts, model)
    r09_7(chk, facts)
    r09_8(chk, facts)
    r09_9(chk, facts)
    r09_10(chk, facts)
    from . import c05
    c05.r05_12(chk, tier, units=('core', 'patch'))     # object keys of wide-character documents are compared whole
