"""C12 JSONPath queries select exactly the addressed nodes - path/value pairing, shared compile route, slice bounds."""
from .. import frontend as F, ast as A, cfg as C, util as U, guards as G, inline as I
from . import c05
from .. import linear as L

EXPLANATION = ('(R12.1) in every selector, the path node handed to tail_select/evaluate_tail is generated from the same index or name that is '
               'used to fetch the child value passed with it (current[i] / current.at(i) / find(name) / member.key() with member.value()), '
               'which is the clause "each returned path addresses the value returned with it"; (R12.2) json_query and json_replace are '
               'implemented by compiling with make_expression and evaluating, so compiled and one-shot queries share one implementation; '
               '(R05.5) slice loops clamp the step (shared with C05).')
NOT_DECIDED = 'that the selected node list is the one the selector semantics define; only the listed structural clauses are decided'

def clamp_facts(cond, label, box):
    """Narrow the box by the outcome of a comparison `var REL const`."""
    c = G.comparison(cond)
    if not c: return
    op, l, r = c
    if label is False: op = {'<': '>=', '>=': '<', '>': '<=', '<=': '>', '==': '!=', '!=': '=='}[op]
    v = A.ref_name(l); k = A.const(r)
    if v is None or k is None:
        v = A.ref_name(r); k = A.const(l); op = G.FLIP.get(op, op)
    if v is None or k is None: return
    lo, hi = box.get(v, (-L.INF, L.INF))
    if op == '>': lo = max(lo, k + 1)
    elif op == '>=': lo = max(lo, k)
    elif op == '<': hi = min(hi, k - 1)
    elif op == '<=': hi = min(hi, k)
    box[v] = (lo, hi)

def conjuncts(e):
    s = A.strip(e)
    if s is not None and s.get('k') == 'BinaryOperator' and s.get('op') == '&&':
        return conjuncts(s['lhs']) + conjuncts(s['rhs'])
    return [s] if s is not None else []

def r12_3(chk, tier, units=('jsonpath',)):
    """Slice loops `for (i = start; i REL end; i += step)` whose run-time step is clamped first."""
    from . import c05
    chk.rule('R12.3', 'slice step clamp preserves the selection: for `if (step CMP B) step = B2` before `for (i = start; i REL end; i += step)`, every '
                      'clamped step and the replacement both leave the range after the first element (backward: start + B <= 0 and start + B2 <= -1; '
                      'forward: start + B + 1 >= end and start + B2 >= end), decided on the linear forms over the value ranges the preceding clamps establish', floor=len(units) * 2)
    table = {'jsonpath': ('jsonpath_selector.hpp',), 'jmespath': ('jmespath.hpp',)}
    n = 0
    for unit in units:
        facts = F.load([unit], tier)
        if unit not in chk.units: chk.units.append(unit)
        seen = set()
        for fn in facts.functions:
            if fn.get('dep') or fn.get('body') is None or not fn['file'].endswith(table[unit]) or (fn['file'], fn['l']) in seen: continue
            loops = []
            for x in A.walk_no_lambda(fn['body']):
                if x.get('k') == 'ForStmt' and x.get('inc') is not None:
                    inc = A.strip(x['inc'])
                    if inc is not None and inc.get('k') == 'CompoundAssignOperator' and inc.get('op') == '+=' and A.const(inc.get('rhs')) is None and A.ref_name(inc.get('rhs')):
                        loops.append(x)
            if not loops: continue
            seen.add((fn['file'], fn['l']))
            chk.analysed(fn)
            pm = c05.parent_map(fn['body'])
            for lp in loops:
                inc = A.strip(lp['inc']); ivar = A.ref_name(inc.get('lhs')); step = A.ref_name(inc.get('rhs'))
                cmp_ = G.comparison(lp.get('cond'))
                init = lp.get('init') or {}
                decls = init.get('decls') or []
                if not cmp_ or A.ref_name(cmp_[1]) != ivar or not decls or decls[0].get('init') is None: continue
                start = A.ref_name(decls[0]['init']); end = A.ref_name(cmp_[2])
                if start is None or end is None or cmp_[0] not in ('<', '>'): continue
                forward = cmp_[0] == '<'
                blk = pm.get(id(lp))
                if blk is None or blk.get('k') != 'CompoundStmt': continue
                sibs = blk.get('c') or []
                before = sibs[:next(i for i, y in enumerate(sibs) if y is lp)]
                box = {}
                # the enclosing `if (step > 0)` / `else if (step < 0)` bounds the sign of the step
                clamp = None
                for st in before:
                    if st.get('k') != 'IfStmt' or st.get('else') is not None: continue
                    body = st.get('then') or {}
                    stmts = body.get('c') if body.get('k') == 'CompoundStmt' else [body]
                    if len(stmts or []) != 1: continue
                    am = U.assigned_member(stmts[0])
                    if not am: continue
                    if am[0] == step: clamp = (st, am[1]); continue
                    # `if (v < K) v = K` / `if (v > K) v = K` with a constant K establishes a bound on v for what follows
                    cc = G.comparison(st.get('cond'))
                    if cc and A.ref_name(cc[1]) == am[0] and A.const(cc[2]) is not None and A.const(am[1]) == A.const(cc[2]):
                        lo, hi = box.get(am[0], (-L.INF, L.INF))
                        if cc[0] in ('<', '<='): lo = max(lo, A.const(cc[2]))
                        if cc[0] in ('>', '>='): hi = min(hi, A.const(cc[2]))
                        box[am[0]] = (lo, hi)
                if clamp is None: continue
                n += 1
                st, repl = clamp
                cj = conjuncts(st.get('cond'))
                main = None
                b2 = dict(box)
                for c in cj:
                    cc = G.comparison(c)
                    if cc and A.ref_name(cc[1]) == step and cc[0] in (('>', '>=') if forward else ('<', '<=')): main = cc
                    else: clamp_facts(c, True, b2)
                site = U.site(fn, '%s slice clamp' % ('forward' if forward else 'backward'))
                chk.require(main is not None, 'R12.3: clamp condition on %s not recognised at %s:%s' % (step, fn['file'], st.get('l')))
                B = L.lin(main[2])
                chk.require(B is not None, 'R12.3: clamp bound %s is not linear at %s:%s' % (A.text(main[2]), fn['file'], st.get('l')))
                if main[0] in ('>=', '<='): B = L.add(B, {1: -1 if forward else 1})   # step >= B  ==  step > B-1
                arms = []
                r = A.strip(repl, casts=True)
                if r is not None and r.get('k') == 'ConditionalOperator':
                    for lab, arm in ((True, r.get('then')), (False, r.get('else'))):
                        bx = dict(b2)
                        for c in conjuncts(r.get('cond')) if lab else [A.strip(r.get('cond'))]: clamp_facts(c, lab, bx)
                        arms.append((L.lin(arm), bx, A.text(arm)))
                else:
                    arms.append((L.lin(repl), b2, A.text(repl)))
                chk.require(all(a[0] is not None for a in arms), 'R12.3: replacement step %s is not linear at %s:%s' % (A.text(repl), fn['file'], st.get('l')))
                S = {start: 1}; E = {end: 1}
                problems = []
                if forward:
                    f1 = L.add(L.add(L.add(S, B), {1: 1}), E, -1)          # start + B + 1 - end >= 0
                    if L.minimum(f1, b2) < 0: problems.append('a clamped step (> %s) need not leave the range: %s >= 0 is not implied' % (A.text(main[2]), L.show(f1)))
                    for form, bx, txt in arms:
                        f2 = L.add(L.add(S, form), E, -1)                   # start + B2 - end >= 0
                        if L.minimum(f2, bx) < 0: problems.append('the replacement step %s can stay inside the range: %s >= 0 is not implied' % (txt, L.show(f2)))
                else:
                    f1 = {v: -c for v, c in L.add(S, B).items()}            # -(start + B) >= 0
                    if L.minimum(f1, b2) < 0: problems.append('a clamped step (< %s) need not leave the range: %s >= 0 is not implied' % (A.text(main[2]), L.show(f1)))
                    for form, bx, txt in arms:
                        f2 = L.add({v: -c for v, c in L.add(S, form).items()}, {1: -1})   # -(start + B2) - 1 >= 0
                        if L.minimum(f2, bx) < 0: problems.append('the replacement step %s lands on an index >= 0 again: %s >= 0 is not implied' % (txt, L.show(f2)))
                fx = {'loop_line': lp.get('l'), 'clamp_line': st.get('l'), 'bound': A.text(main[2]), 'replacement': A.text(repl),
                      'ranges': {k: [str(v[0]), str(v[1])] for k, v in b2.items()}}
                if not problems: chk.ok('R12.3', site, fx)
                else: chk.fail('R12.3', site, fn['file'], st.get('l'), '%s: %s' % (fn['n'], '; '.join(problems)), fx, fn['q'])
    chk.require(n >= len(units) * 2, 'R12.3: only %d clamped slice loops found' % n)

def r12_4(chk, facts):
    """Sibling agreement: every json_replace overload evaluates with the same result options."""
    chk.rule('R12.4', 'json_replace overloads agree: each evaluates the compiled expression with the same result_options set, which contains '
                      'nodups (a node is replaced once) and path (replacement is by location)', floor=4)
    fns = {}
    for f in facts.functions:
        if f['n'] == 'json_replace' and f['file'].endswith('json_query.hpp') and f.get('body') is not None and not f.get('dep'):
            fns.setdefault((f['file'], f['l']), f)
    chk.require(len(fns) >= 4, 'R12.4: only %d json_replace overloads instantiated' % len(fns))
    sets = {}
    for key, fn in sorted(fns.items()):
        chk.analysed(fn)
        opts = None
        for c in A.calls_in(fn['body'], no_lambda=True):
            if A.callee_name(c) == 'evaluate' and c.get('args'):
                last = A.strip(c['args'][-1], casts=True)
                src = last
                if last is not None and last.get('k') == 'DeclRefExpr':
                    for d in A.walk_no_lambda(fn['body']):
                        if d.get('k') == 'VarDecl' and d.get('id') == last.get('id') and d.get('init') is not None: src = d['init']
                opts = frozenset(y.get('n') for y in A.walk(src) if y.get('k') == 'DeclRefExpr' and y.get('dk') == 'EnumConstant')
        if opts is None: continue      # an overload that forwards to another one
        sets[key] = (fn, opts)
    chk.require(len(sets) >= 4, 'R12.4: evaluate() call with result options found in only %d json_replace overloads' % len(sets))
    from collections import Counter
    ref = Counter(o for _, o in sets.values()).most_common(1)[0][0]
    for key, (fn, opts) in sorted(sets.items()):
        site = U.site(fn, 'json_replace@%d options' % (sorted(sets).index(key) + 1))
        if opts == ref and {'nodups', 'path'} <= opts: chk.ok('R12.4', site, {'options': sorted(opts)})
        else:
            chk.fail('R12.4', site, fn['file'], fn['l'], 'this json_replace overload evaluates with options {%s}; its siblings use {%s}%s' % (
                ', '.join(sorted(opts)), ', '.join(sorted(ref)), '' if {'nodups', 'path'} <= opts else ' (nodups and path are required: without nodups a node selected twice is replaced twice)'),
                {'options': sorted(opts), 'siblings': sorted(ref)}, fn['q'])

def r12_5(chk, tier, units=('jsonpath',)):
    """Accumulator reset: the slice accumulator of the expression compilers is re-initialised after each use."""
    chk.rule('R12.5', 'slice accumulator: after the compiler hands the accumulated slice to a selector/projection, every path back to the main '
                      'loop re-initialises the accumulator (otherwise the next slice of the same expression inherits start/stop/step)', floor=2 * len(units))
    table = {'jsonpath': ('jsonpath_parser.hpp', 'compile'), 'jmespath': ('jmespath.hpp', 'compile')}
    n = 0
    for unit in units:
        facts = F.load([unit], tier)
        if unit not in chk.units: chk.units.append(unit)
        hdr, fname = table[unit]
        fns = {}
        for f in facts.functions:
            if f['file'].endswith(hdr) and f['n'] == fname and f.get('body') is not None and not f.get('dep'): fns.setdefault((f['file'], f['l']), f)
        for fn in fns.values():
            # the accumulator: a local of class type `slice`
            acc = [x for x in A.walk_no_lambda(fn['body']) if x.get('k') == 'VarDecl' and fn['_types'][x['t'] - 1].split('::')[-1] == 'slice']
            if not acc: continue
            chk.analysed(fn)
            aid = acc[0].get('id'); an = acc[0].get('n')
            g = C.CFG(fn['body'])
            def is_acc(e):
                s2 = A.strip(e, casts=True)
                return s2 is not None and s2.get('k') == 'DeclRefExpr' and s2.get('id') == aid
            resets = []; uses = []
            for nd in g.rpo:
                if nd.kind not in ('stmt', 'cond', 'return') or not isinstance(nd.ast, dict): continue
                for x in A.walk_no_lambda(nd.ast):
                    if x.get('k') in A.CALLS and x.get('oop') == '=' and x.get('args') and is_acc(x['args'][0]): resets.append(nd)
                    elif x.get('k') == 'BinaryOperator' and x.get('op') == '=' and is_acc(x.get('lhs')): resets.append(nd)
                    elif x.get('k') in ('CXXConstructExpr', 'CXXTemporaryObjectExpr', 'CXXFunctionalCastExpr') or x.get('k') in A.CALLS:
                        if x.get('oop') == '=': continue
                        if any(is_acc(a) for a in x.get('args') or []) and not (x.get('k') == 'CXXConstructExpr' and 'slice' == fn['_types'][x['t'] - 1].split('::')[-1]):
                            if nd not in uses: uses.append(nd)
            # loop heads: join nodes with a back edge = the cond of the main while loop
            heads = [nd for nd in g.rpo if nd.kind == 'join' and any(g.dominates(nd, p) for p in nd.pred)]
            chk.require(heads, 'R12.5: main loop of %s not found' % fn['q'])
            for i, u in enumerate(sorted(uses, key=lambda x: x.line)):
                n += 1
                site = U.site(fn, '%s consumed #%d' % (an, i + 1))
                bad = any(g.can_reach(s2, heads, avoid=resets) for s2 in u.succ) if u not in resets else False
                if not bad: chk.ok('R12.5', site, {'line': u.line, 'resets': sorted(r.line for r in resets)})
                else: chk.fail('R12.5', site, fn['file'], u.line, '%s: `%s` is handed on at line %s and the main loop is reached again without `%s = slice{}`: the next slice of the expression starts from the old values' % (
                    fn['n'], an, u.line, an), {'resets': sorted(r.line for r in resets)}, fn['q'])
    chk.require(n >= 2 * len(units), 'R12.5: only %d consumptions of a slice accumulator found' % n)

JP_CMP = {'eq_operator': '==', 'ne_operator': '!=', 'lt_operator': '<', 'lte_operator': '<=', 'gt_operator': '>', 'gte_operator': '>='}
JP_ARITH = {'plus_operator': '+', 'minus_operator': '-', 'mult_operator': '*', 'div_operator': '/'}
# binding strength, weakest first (JSONPath filter grammar / ECMAScript): a lower number binds tighter in this implementation
JP_PREC_ORDER = [('or_operator',), ('and_operator',), ('eq_operator', 'ne_operator'), ('lt_operator', 'lte_operator', 'gt_operator', 'gte_operator'),
                 ('plus_operator', 'minus_operator'), ('mult_operator', 'div_operator', 'modulus_operator')]

def r12_6(chk, facts):
    """Filter operator table of token_evaluator.hpp: class name vs operator applied, operand order, type guards, precedence order."""
    chk.rule('R12.6', 'filter operators: each comparison class applies the operator of its name to (lhs, rhs) in that order with true/false in the '
                      'right arms; ordering comparisons are reached only with both operands numbers or both strings; arithmetic classes apply '
                      'their own operator; precedence levels are ordered or < and < equality < relational < additive < multiplicative', floor=14)
    classes = {}
    for f in facts.functions:
        if f.get('dep') or not f['file'].endswith('token_evaluator.hpp') or not f.get('cls'): continue
        short = A.strip_targs(f['cls']).split('::')[-1]
        if short in JP_CMP or short in JP_ARITH or any(short in t for t in JP_PREC_ORDER):
            classes.setdefault(short, {}).setdefault(f['n'] if f.get('fk') != 'CXXConstructor' else '<ctor>', f)
    chk.require(len(classes) >= 12, 'R12.6: only %d operator classes instantiated' % len(classes))
    for short, fns in sorted(classes.items()):
        ev = fns.get('evaluate')
        if ev is None or ev.get('body') is None: continue
        chk.analysed(ev)
        pn = [p_['n'] for p_ in ev['params'][:2]]
        # the body may be shared between the operator classes through a helper that receives the comparison (E11)
        ev = I.expand(facts, ev, depth=2)
        g = C.CFG(ev['body'])
        site = U.site(ev, 'operator')
        problems = []
        if short in JP_CMP:
            want = JP_CMP[short]; found = 0
            for nd in g.rpo:
                if nd.kind != 'return': continue
                for v in A.walk_no_lambda(nd.ast.get('val')):
                    if v.get('k') != 'ConditionalOperator': continue
                    c = G.comparison(v.get('cond'))
                    if not c: continue
                    found += 1
                    op, l, r = c
                    if op != want: problems.append('applies `%s` (line %s), the class is %s' % (op, v.get('l'), short))
                    if [A.ref_name(l), A.ref_name(r)] != pn: problems.append('operands (%s, %s) at line %s are not (lhs, rhs)' % (A.ref_name(l), A.ref_name(r), v.get('l')))
                    tv = [A.const(y) for y in A.walk(v.get('then')) if y.get('k') == 'CXXBoolLiteralExpr']; fv = [A.const(y) for y in A.walk(v.get('else')) if y.get('k') == 'CXXBoolLiteralExpr']
                    if tv[:1] != [1] or fv[:1] != [0]: problems.append('true/false arms swapped at line %s' % v.get('l'))
                    if want in ('<', '<=', '>', '>='):
                        kinds = {}
                        for a, lab, e in g.guards(nd):
                            s2 = A.strip(a, casts=True)
                            if s2 is not None and s2.get('k') in A.CALLS and A.callee_name(s2) in ('is_number', 'is_string') and lab is True:
                                kinds.setdefault(A.callee_name(s2), set()).add(A.ref_name(s2.get('obj')))
                        if not any(set(pn) <= v2 for v2 in kinds.values()):
                            problems.append('the comparison at line %s is reached without both operands being numbers or both strings' % v.get('l'))
            if not found: problems.append('no `lhs %s rhs ? true : false` return' % want)
        if short in JP_ARITH:
            want = JP_ARITH[short]; ops = set()
            for x in A.walk_no_lambda(ev['body']):
                if x.get('k') == 'BinaryOperator' and x.get('op') in ('+', '-', '*', '/', '%') and any(A.ref_name(y.get('obj')) in pn for y in A.calls_in(x)):
                    ops.add(x['op'])
            if ops != {want}: problems.append('applies %s, the class is %s' % (sorted(ops), short))
        if problems: chk.fail('R12.6', site, ev['file'], ev['l'], '%s: %s' % (short, '; '.join(problems[:3])), None, ev['q'])
        else: chk.ok('R12.6', site, {'class': short})
    # precedence
    prec = {}
    for short, fns in classes.items():
        ct = fns.get('<ctor>')
        if ct is None: continue
        for ini in ct.get('inits') or []:
            for y in A.walk(ini.get('init')):
                if y.get('k') in ('CXXConstructExpr',) and 'binary_operator' in (y.get('cq') or '') and y.get('args'):
                    v = A.const(y['args'][0])
                    if v is not None: prec[short] = v
    chk.require(len(prec) >= 12, 'R12.6: precedence levels found for %d classes only' % len(prec))
    levels = []
    for tier_ in JP_PREC_ORDER:
        vals = {prec[c] for c in tier_ if c in prec}
        site = 'include/jsoncons_ext/jsonpath/token_evaluator.hpp precedence %s' % '/'.join(tier_)
        if len(vals) != 1:
            chk.fail('R12.6', site, 'include/jsoncons_ext/jsonpath/token_evaluator.hpp', 0, 'operators of one precedence class have levels %s' % sorted(vals), None); levels.append(None); continue
        levels.append(vals.pop())
        chk.ok('R12.6', site, {'level': levels[-1]})
    clean = [v for v in levels if v is not None]
    if clean != sorted(clean, reverse=True) or len(set(clean)) != len(clean):
        chk.fail('R12.6', 'include/jsoncons_ext/jsonpath/token_evaluator.hpp precedence order', 'include/jsoncons_ext/jsonpath/token_evaluator.hpp', 0,
                 'precedence levels %s are not strictly ordered or > and > equality > relational > additive > multiplicative (a lower level binds tighter)' % dict(zip(['/'.join(t) for t in JP_PREC_ORDER], levels)), None)
    else: chk.ok('R12.6', 'include/jsoncons_ext/jsonpath/token_evaluator.hpp precedence order', {'levels': clean})

def guarded_effects(fn):
    """{(sorted canonical guards, canonical statement)} for every return / assignment / declaration of a small pure function.
    Canonical = A.canon: pure local aliases inlined (their declarations disappear), comparisons oriented, negations pushed in."""
    g = C.CFG(fn['body'])
    al = A.pure_aliases(fn['body'])
    out = set()
    for nd in g.rpo:
        if nd.kind not in ('stmt', 'return') or not isinstance(nd.ast, dict): continue
        if A.is_alias_decl(nd.ast, al): continue
        gs = tuple(sorted(set(A.canon(a, al, neg=not lab) for a, lab, e in g.guards(nd) if lab in (True, False))))
        if nd.kind == 'return': out.add((gs, 'return ' + A.canon(nd.ast.get('val'), al)))
        else: out.add((gs, A.canon(nd.ast, al) if nd.ast.get('k') != 'DeclStmt' else A.text(nd.ast)))
    return out

def r12_8(chk, tier):
    """Sibling agreement: the JSONPath and the JMESPath slice structs normalise start/stop identically."""
    chk.rule('R12.8', 'slice bounds siblings: slice::get_start, get_stop and step of jsonpath and of jmespath have the same guarded effects (same '
                      'returns and assignments under the same conditions); both implement the same Python-style bound normalisation', floor=3)
    fj = F.load(['jsonpath'], tier); fm = F.load(['jmespath'], tier)
    for u in ('jsonpath', 'jmespath'):
        if u not in chk.units: chk.units.append(u)
    def pick(facts, name, hdr):
        fns = [f for f in facts.functions if f['n'] == name and f['file'].endswith(hdr) and A.strip_targs(f.get('cls') or '').endswith('::slice') and f.get('body') is not None and not f.get('dep')]
        return fns[0] if fns else None
    for name in ('get_start', 'get_stop', 'step'):
        a = pick(fj, name, 'jsonpath_selector.hpp'); b = pick(fm, name, 'jmespath.hpp')
        chk.require(a is not None and b is not None, 'R12.8: slice::%s not found in one of the two libraries' % name)
        chk.analysed(a); chk.analysed(b)
        # one library may keep the normalisation in a private helper shared by get_start and get_stop (E11)
        a = I.expand(fj, a, depth=2); b = I.expand(fm, b, depth=2)
        # path summaries (locals substituted, conditional expressions split into paths) when both functions are in the fragment,
        # else the statement-level guarded effects
        pa, pb = A.path_summaries(C.CFG(a['body']), a['body']), A.path_summaries(C.CFG(b['body']), b['body'])
        if pa is not None and pb is not None:
            ea = set((x[0], ' ; '.join(x[1] + (x[2],))) for x in pa); eb = set((x[0], ' ; '.join(x[1] + (x[2],))) for x in pb)
        else:
            ea, eb = guarded_effects(a), guarded_effects(b)
        site = 'include/jsoncons_ext slice::%s jsonpath vs jmespath' % name
        if ea == eb: chk.ok('R12.8', site, {'effects': len(ea)})
        else:
            da = sorted(ea - eb); db = sorted(eb - ea)
            def show(x): return '%s%s' % (x[1][:60], (' under ' + ' & '.join(x[0])) if x[0] else '')
            chk.fail('R12.8', site, (b if db else a)['file'], (b if db else a)['l'], 'slice::%s differs between the two libraries: only jsonpath: [%s]; only jmespath: [%s]' % (
                name, '; '.join(show(x) for x in da[:3]), '; '.join(show(x) for x in db[:3])), {'only_jsonpath': [show(x) for x in da], 'only_jmespath': [show(x) for x in db]}, a['q'])

def r12_13(chk, tier, units=('jsonpath',), rid='R12.13'):
    """Per-element error state in the selectors."""
    chk.rule(rid, 'per-element error state: where a loop over elements calls an evaluation with a local std::error_code, tests it and goes on with the '
                  'next element when it is set (an element for which the filter cannot be evaluated is just not selected), that error_code is '
                  'fresh in every iteration - declared in the loop body or cleared before the call; declared once outside the loop, the first '
                  'element that fails would deselect all the elements after it', floor=2)
    table = {'jsonpath': ('jsonpath_selector.hpp', 'token_evaluator.hpp', 'jsonpath_expression.hpp', 'jsonpath_parser.hpp'), 'jmespath': ('jmespath.hpp',)}
    n = 0
    for unit in units:
        facts = F.load([unit], tier)
        if unit not in chk.units: chk.units.append(unit)
        for fn in U.one_per_inst([f for f in facts.functions if f.get('body') is not None and not f.get('dep') and f['file'].endswith(table[unit])]):
            loops = [x for x in A.walk_no_lambda(fn['body']) if x.get('k') in ('ForStmt', 'WhileStmt', 'CXXForRangeStmt', 'DoStmt') and x.get('body') is not None]
            if not loops: continue
            ecs = {d['id']: d for d in A.walk_no_lambda(fn['body']) if d.get('k') == 'VarDecl' and F.tname(fn, d.get('t')).replace('const ', '').strip() in ('std::error_code', 'error_code')}
            if not ecs: continue
            g = None
            for lp in loops:
                body = lp['body']
                inside = set(d.get('id') for d in A.walk_no_lambda(body) if d.get('k') == 'VarDecl')
                used = set()
                for c in A.calls_in(body, no_lambda=True):
                    for a in c.get('args') or []:
                        sa = A.strip(a, casts=True)
                        if sa is not None and sa.get('k') == 'DeclRefExpr' and sa.get('id') in ecs: used.add(sa['id'])
                for eid in used:
                    # innermost loop only: an error_code declared in an enclosing loop's body is judged against that loop
                    if any(l2 is not lp and any(y is l2 for y in A.walk_no_lambda(body)) and eid in set(d.get('id') for d in A.walk_no_lambda(l2['body']) if d.get('k') == 'VarDecl') for l2 in loops): continue
                    if g is None: g = C.CFG(fn['body'])
                    # tests of the error_code inside the loop whose true edge stays in the loop
                    stays = False; tested = False
                    for nd in g.rpo:
                        if nd.kind != 'cond' or not isinstance(nd.ast, dict): continue
                        if not any(y is nd.ast or any(z is nd.ast for z in A.walk(y)) for y in [body]): continue
                        t = A.strip(nd.ast, casts=True)
                        refs = [y for y in A.walk(nd.ast) if y.get('k') == 'DeclRefExpr' and y.get('id') == eid]
                        if not refs or G.comparison(nd.ast): continue
                        tested = True
                        te = [e for e in nd.succ if e.kind == 'edge' and e.label is True]
                        if te and not any(x.kind in ('return',) or (x.kind == 'stmt' and any(s2 is g.exit_throw for s2 in x.succ)) or x.kind == 'break' for x in G.block_after(te[0])):
                            # no return/throw directly in the error branch: does the branch leave the loop at all?
                            reach = g.reachable_from(te[0])
                            head = g.node_of(lp.get('cond')) if lp.get('cond') is not None else None
                            if head is None or head.id in reach: stays = True
                    # `bool t = ec ? false : ...` - the test is a conditional expression inside a statement
                    for y in A.walk_no_lambda(body):
                        if y.get('k') == 'ConditionalOperator' and any(z.get('k') == 'DeclRefExpr' and z.get('id') == eid for z in A.walk(y.get('cond'))):
                            tested = True; stays = True
                    if not tested or not stays: continue
                    n += 1
                    chk.analysed(fn)
                    site = U.site(fn, 'loop@%d error_code %s' % (lp.get('l', 0) - fn['l'], ecs[eid].get('n')))
                    cleared = any((A.is_call(y) and A.callee_name(y) == 'clear' and (A.strip(y.get('obj'), casts=True) or {}).get('id') == eid) or
                                  (y.get('k') == 'CXXOperatorCallExpr' and y.get('oop') == '=' and (A.strip((y.get('args') or [None])[0], casts=True) or {}).get('id') == eid)
                                  for y in A.walk_no_lambda(body))
                    if eid in inside or cleared: chk.ok(rid, site, {'function': fn['q'], 'line': lp.get('l'), 'fresh': 'declared in the loop body' if eid in inside else 'cleared in the loop body'})
                    else:
                        chk.fail(rid, site, fn['file'], ecs[eid].get('l'), '%s: the error_code `%s` (line %s) is declared outside the loop at line %s, which tests it and goes on with the next element: '
                                 'after the first element whose evaluation fails it stays set and every later element is treated as failing' % (
                                     fn['n'], ecs[eid].get('n'), ecs[eid].get('l'), lp.get('l')), None, fn['q'])
    chk.require(n >= 2, '%s: only %d loops with a per-element error_code found' % (rid, n))

def r12_12(chk, facts):
    """Normalised paths exist whenever something is going to be done with them."""
    chk.rule('R12.12', 'path generation mask: both overloads of path_generator::generate (array index, member name) build a path node under the '
                       'same option mask, and that mask contains result_options::path and every option whose post-processing in '
                       'path_expression::evaluate orders or de-duplicates the selected nodes by their paths (the options of its '
                       '`require_more` mask: nodups, sort, sort_descending); with an option missing the nodes all carry the path of the '
                       'root and the sort or the de-duplication has nothing to work on', floor=3)
    def enum_set(e):
        return frozenset(y.get('n') for y in A.walk(e) if y.get('k') == 'DeclRefExpr' and y.get('dk') == 'EnumConstant')
    def masks(fn):
        out = []
        for d in A.walk_no_lambda(fn['body']):
            if d.get('k') == 'VarDecl' and d.get('init') is not None and 'result_options' in fn['_types'][d['t'] - 1] and len(enum_set(d['init'])) >= 2:
                out.append((d, enum_set(d['init'])))
        return out
    gens = {}
    for f in facts.functions:
        if f['n'] == 'generate' and 'path_generator' in (f.get('cls') or '') and f.get('body') is not None and not f.get('dep'):
            gens.setdefault((f['file'], f['l']), f)
    chk.require(len(gens) >= 2, 'R12.12: path_generator::generate overloads not found')
    need = set()
    for f in facts.functions:
        if f['n'] == 'evaluate' and 'path_expression' in (f.get('cls') or '') and f.get('body') is not None and not f.get('dep'):
            for d, es in masks(f):
                # the mask that decides whether the nodes are collected for post-processing
                if any(A.callee_name(c) in ('sort', 'unique') for c in A.calls_in(f['body'])): need |= es
            if need: chk.analysed(f); break
    chk.require(need, 'R12.12: post-processing mask of path_expression::evaluate not found')
    need = frozenset(need | {'path'})
    gm = {}
    for key, f in sorted(gens.items()):
        chk.analysed(f)
        ms = masks(f)
        chk.require(ms, 'R12.12: %s at line %s has no option mask' % (f['q'], f['l']))
        gm[key] = (f, ms[0][1], ms[0][0])
        site = U.site(f, 'generate@%s mask' % f['l'])
        if need <= ms[0][1]: chk.ok('R12.12', site, {'mask': sorted(ms[0][1]), 'needed': sorted(need)})
        else:
            chk.fail('R12.12', site, f['file'], ms[0][0].get('l'), 'path_generator::generate builds path nodes only under {%s}; evaluate() post-processes by path under {%s}: with '
                     '%s alone the nodes have no paths to order or compare' % (', '.join(sorted(ms[0][1])), ', '.join(sorted(need)), ', '.join(sorted(need - ms[0][1]))), None, f['q'])
    vals = set(v[1] for v in gm.values())
    site = 'include/jsoncons_ext/jsonpath/jsonpath_selector.hpp path_generator::generate overloads agree'
    if len(vals) == 1: chk.ok('R12.12', site, None)
    else: chk.fail('R12.12', site, list(gm.values())[0][0]['file'], list(gm.values())[0][2].get('l'), 'the index and the name overload of path_generator::generate use different option masks: %s' % (
        [sorted(v) for v in vals]), None, list(gm.values())[0][0]['q'])

def r12_9(chk, facts):
    """A callback that runs once per selected node must not consume what it captured."""
    chk.rule('R12.9', 'per-node callbacks: inside the lambdas that json_replace / json_query hand to evaluate() (invoked once per selected node) no '
                      'variable declared outside the lambda is passed through std::move / std::forward; otherwise the second and later nodes '
                      'receive a moved-from value', floor=4)
    n = 0; seen = set()
    for fn in facts.functions:
        if fn.get('dep') or fn.get('body') is None or not fn['file'].endswith('json_query.hpp') or (fn['file'], fn['l']) in seen: continue
        lambdas = [x for x in A.walk(fn['body']) if x.get('k') == 'LambdaExpr' and x.get('body') is not None]
        if not lambdas: continue
        seen.add((fn['file'], fn['l']))
        chk.analysed(fn)
        for i, lam in enumerate(lambdas):
            n += 1
            inner = set(y.get('id') for y in A.walk(lam['body']) if y.get('k') in ('VarDecl', 'ParmVarDecl'))
            bad = None
            for c in A.calls_in(lam['body']):
                if A.callee_name(c) in ('move', 'forward') and (c.get('cq') or '').startswith('std::'):
                    for a in c.get('args') or []:
                        r = A.strip(a, casts=True)
                        if r is not None and r.get('k') == 'DeclRefExpr' and r.get('dk') in ('Var', 'ParmVar') and r.get('id') not in inner: bad = (c, r.get('n'))
            site = U.site(fn, 'callback#%d@%d' % (i + 1, lam.get('l', 0) - fn['l']))
            if bad is None: chk.ok('R12.9', site, {'line': lam.get('l')})
            else: chk.fail('R12.9', site, fn['file'], bad[0].get('l'), '%s: the per-node callback passes the captured `%s` through std::%s: the first selected node takes the value, every further node gets what is left of it' % (fn['n'], bad[1], A.callee_name(bad[0])), None, fn['q'])
    chk.require(n >= 4, 'R12.9: only %d callbacks found in json_query.hpp' % n)

def r12_10(chk, facts):
    """Normalized paths: what escape_string writes for a member name, json_location::parse reads back."""
    from .. import peval as P
    from .c18 import writer_table
    chk.rule('R12.10', 'normalized-path escapes: for each of the 256 characters, jsonpath::escape_string writes it raw or as backslash + letter, and '
                       'the quoted_string_escape_char state of json_location_parser::parse maps that letter back to the same character (a name '
                       'containing a quote or a backslash must resolve to the same member)', floor=256)
    ws = [f for f in facts.functions if f['n'] == 'escape_string' and f['file'].endswith('jsonpath_utilities.hpp') and f.get('body') is not None and not f.get('dep')]
    ps = [f for f in facts.functions if f['n'] == 'parse' and f['file'].endswith('json_location.hpp') and 'json_location_parser' in (f.get('cls') or '') and f.get('body') is not None and not f.get('dep')]
    chk.require(ws and ps, 'R12.10: escape_string / json_location_parser::parse not found')
    en = U.enum_value_names(U.enum_by_suffix(facts, 'json_location_state'))
    inv = {v: k for k, v in en.items()}
    sw = None; pfn = ps[0]
    for cand in ps:
        for x in A.walk_no_lambda(cand['body']):
            if x.get('k') == 'SwitchStmt' and A.ref_name(x.get('cond')) == 'state': sw = x; pfn = cand; break
        if sw is not None: break
    chk.analysed(pfn)
    chk.require(sw is not None and 'quoted_string_escape_char' in inv, 'R12.10: state switch of json_location_parser::parse not found')
    items = P.PEval.switch_items(sw['body'])
    start = None
    for i, (labels, st) in enumerate(items):
        if any(lo != 'default' and lo <= inv['quoted_string_escape_char'] <= hi for lo, hi in labels): start = i
    chk.require(start is not None, 'R12.10: no case for quoted_string_escape_char')
    state_id = next((x.get('id') for x in A.walk(pfn['body']) if x.get('k') == 'VarDecl' and x.get('n') == 'state'), None)
    rtable = {}
    for c in range(256):
        pe = P.PEval(facts, pfn, max_depth=1)
        env = {('deref', 'p_'): c, state_id: inv['quoted_string_escape_char']}
        pe.run_items(items, start, env, (), 0)
        pushes = [e.args[0] & 0xff for e in pe.effects if e.kind == 'call' and e.name == 'buffer.push_back' and not e.guards and e.args and isinstance(e.args[0], int)]
        errs = [e for e in pe.effects if e.kind == 'set' and e.name == 'ec' and not e.guards]
        if pushes and not errs: rtable[c] = pushes[0]
    chk.require(rtable.get(0x5c) == 0x5c, 'R12.10: the location parser does not map an escaped backslash to a backslash: %s' % rtable)
    for fn in U.one_per_inst(ws)[:1]:
        chk.analysed(fn)
        wt = writer_table(chk, facts, fn, {})
        for c in range(256):
            ung, seq, line = wt[c]
            cv = c if c < 128 else c - 256
            chs = repr(chr(c)) if 32 <= c < 127 else '0x%02x' % c
            site = U.site(fn, 'char=%s' % chs)
            if ung == [cv] and len(seq) == 1 and c not in (0x27, 0x5c): chk.ok('R12.10', site, None)
            elif len(ung) == 2 and len(seq) == 2 and ung[0] == 0x5c and rtable.get(ung[1] & 0xff) == c: chk.ok('R12.10', site, {'char': chs, 'written': '\\' + chr(ung[1]), 'read_back': chs})
            else:
                shown = ''.join(chr(x & 0xff) if 32 <= (x & 0xff) < 127 else '\\x%02x' % (x & 0xff) for x in seq[:4] if isinstance(x, int))
                back = rtable.get(seq[1] & 0xff) if len(seq) >= 2 and isinstance(seq[1], int) else None
                chk.fail('R12.10', site, fn['file'], line, 'a member name character %s is written into a normalized path as "%s", json_location::parse reads that back as %s' % (
                    chs, shown, ('0x%02x' % back) if back is not None else 'an error / something else'), {'reader_table': {chr(k): v for k, v in sorted(rtable.items())}}, fn['q'])

def r12_11(chk, facts):
    """Shunting-yard: when a binary operator arrives, operators on the stack are emitted first iff they bind at least as tightly
    (strictly tighter for a right-associative arrival)."""
    chk.rule('R12.11', 'operator stack: the loop that emits stacked operators before pushing a binary operator pops exactly when the stacked '
                       'operator binds tighter, or equally tight and the arriving operator is left-associative (truth table of the loop condition '
                       'over precedence order x associativity); otherwise `a - b + c` groups as `a - (b + c)`', floor=6)
    fns = [f for f in facts.functions if f['n'] == 'push_token' and f['file'].endswith('jsonpath_parser.hpp') and f.get('body') is not None and not f.get('dep')]
    chk.require(fns, 'jsonpath push_token not found')
    fn = U.one_per_inst(fns)[0]
    chk.analysed(fn)
    loops = []
    for x in A.walk_no_lambda(fn['body']):
        if x.get('k') == 'WhileStmt' and 'precedence_level' in A.text(x.get('cond')) and 'is_right_associative' in A.text(x.get('cond')): loops.append(x)
    chk.require(loops, 'R12.11: operator pop loop not found in push_token')
    def ev(e, env):
        s2 = A.strip(e, casts=True)
        if s2 is None: return True
        k = s2.get('k')
        if k == 'BinaryOperator' and s2.get('op') == '&&': return ev(s2['lhs'], env) and ev(s2['rhs'], env)
        if k == 'BinaryOperator' and s2.get('op') == '||': return ev(s2['lhs'], env) or ev(s2['rhs'], env)
        if k == 'UnaryOperator' and s2.get('op') == '!': return not ev(s2['sub'], env)
        c = G.comparison(s2)
        if c and 'precedence_level' in A.text(c[1]) and 'precedence_level' in A.text(c[2]):
            def side(x): return env['tok'] if 'tok' in A.text(x) else env['top']
            a, b = side(c[1]), side(c[2])
            return {'<': a < b, '>': a > b, '<=': a <= b, '>=': a >= b, '==': a == b, '!=': a != b}[c[0]]
        if k in A.CALLS and A.callee_name(s2) == 'is_right_associative': return env['right']
        return True       # iterator / kind tests: hold while an operator is on the stack
    for i, lp in enumerate(loops):
        for tokp, topp, name in ((3, 4, 'stacked binds looser'), (4, 4, 'equal precedence'), (4, 3, 'stacked binds tighter')):
            for right in (False, True):
                got = ev(lp['cond'], {'tok': tokp, 'top': topp, 'right': right})
                want = (topp < tokp) or (topp == tokp and not right)     # a lower level binds tighter
                site = U.site(fn, 'pop loop#%d %s %s-assoc' % (i + 1, name, 'right' if right else 'left'))
                if got == want: chk.ok('R12.11', site, {'pops': got})
                else: chk.fail('R12.11', site, fn['file'], lp.get('l'), 'push_token: with %s and a %s-associative arriving operator the loop %s the stacked operator; it must %s (left-associative operators of equal precedence group left to right)' % (
                    name, 'right' if right else 'left', 'pops' if got else 'keeps', 'pop' if want else 'keep'), None, fn['q'])

def r12_7(chk, facts):
    chk.rule('R12.7', 'selector identities: every selector constructed with the running id consumes it (`selector_id++`), so two selectors of one '
                      'expression never share the slot that caches their value', floor=2)
    n = 0; seen = set()
    for fn in facts.functions:
        if fn.get('dep') or fn.get('body') is None or not fn['file'].endswith('jsonpath_parser.hpp') or (fn['file'], fn['l']) in seen: continue
        ids = [x for x in A.walk_no_lambda(fn['body']) if x.get('k') == 'VarDecl' and x.get('n') == 'selector_id']
        if not ids: continue
        seen.add((fn['file'], fn['l']))
        chk.analysed(fn)
        vid = ids[0]['id']
        from . import c05
        pm = c05.parent_map(fn['body'])
        for x in A.walk_no_lambda(fn['body']):
            if x.get('k') == 'DeclRefExpr' and x.get('id') == vid:
                par = pm.get(id(x))
                while par is not None and par.get('k') in ('ImplicitCastExpr', 'ParenExpr'): par = pm.get(id(par))
                n += 1
                site = U.site(fn, 'selector_id use#%d' % n)
                if par is not None and par.get('k') == 'UnaryOperator' and par.get('op') == '++': chk.ok('R12.7', site, {'line': x.get('l')})
                else: chk.fail('R12.7', site, fn['file'], x.get('l'), 'compile: a selector is constructed with `selector_id` without incrementing it: the next selector gets the same id and reads the other\'s cached value', None, fn['q'])
    chk.require(n >= 2, 'R12.7: only %d uses of selector_id found' % n)

def run(chk, tier, only_rule=None):
    chk.explanation = EXPLANATION
    chk.not_decided = NOT_DECIDED
    facts = F.load(['jsonpath'], tier)
    chk.units = ['jsonpath']
    chk.rule('R12.1', 'path/value pairing: generate(context, last, K, options) and the child value passed with it use the same index/name', floor=14)
    chk.rule('R12.2', 'json_query/json_replace compile with make_expression (or the evaluator compile) and evaluate the compiled expression', floor=2)
    n = 0; seen = set()
    for fn in facts.functions:
        if fn.get('dep') or fn.get('body') is None or not fn['file'].endswith('jsonpath_selector.hpp'): continue
        calls = [c for c in A.walk_no_lambda(fn['body']) if c.get('k') in A.CALLS and A.callee_name(c) in ('tail_select', 'evaluate_tail')]
        if not calls: continue
        for i, c in enumerate(calls):
            args = c.get('args') or []
            gen = None
            for a in args:
                s0 = A.strip(a, casts=True)
                for y in A.walk(s0):
                    if y.get('k') in A.CALLS and A.callee_name(y) == 'generate': gen = y; break
                if gen: break
            if gen is None: continue
            gargs = gen.get('args') or []
            if len(gargs) < 3: continue
            K = A.text(A.strip(gargs[2], casts=True))
            # the value argument follows the path argument
            vi = None
            for j, a in enumerate(args):
                if any(y is gen for y in A.walk(a)): vi = j + 1
            if vi is None or vi >= len(args): continue
            V = A.strip(args[vi], casts=True)
            site = U.site(fn, 'pair#%d K=%s' % (i + 1, K[:20]))
            if site in seen: continue
            seen.add(site)
            chk.analysed(fn)
            want = None; how = None
            if V is not None and V.get('k') == 'CXXOperatorCallExpr' and V.get('oop') == '[]':
                want = A.text(A.strip(V['args'][1], casts=True)); how = 'current[%s]' % want
            elif V is not None and V.get('k') == 'CXXMemberCallExpr' and A.callee_name(V) == 'at':
                want = A.text(A.strip((V.get('args') or [None])[0], casts=True)); how = 'at(%s)' % want
            elif V is not None and V.get('k') == 'CXXMemberCallExpr' and A.callee_name(V) == 'value':
                o = A.strip(V.get('obj'), casts=True)
                ot = A.text(o)
                base = None
                for y in A.walk(o):
                    if y.get('k') == 'DeclRefExpr' and y.get('dk') == 'Var': base = y; break
                if base is not None:
                    # iterator from find(name) or range variable
                    for d in A.walk_no_lambda(fn['body']):
                        if d.get('k') == 'VarDecl' and d.get('id') == base.get('id'):
                            ini = d.get('init')
                            fc = [z for z in A.walk(ini) if z.get('k') in A.CALLS and A.callee_name(z) == 'find'] if ini else []
                            if fc:
                                want = A.text(A.strip((fc[0].get('args') or [None])[0], casts=True)); how = 'find(%s)->value()' % want
                            else:
                                want = '%s.key()' % base.get('n'); how = '%s.value()' % base.get('n')
                    if want is None:
                        want = '%s.key()' % base.get('n'); how = '%s.value()' % base.get('n')
            if want is None:
                chk.ok('R12.1', site, {'function': fn['q'], 'line': c.get('l'), 'verdict': 'value is not a child fetched by index/name (%s)' % A.text(V)[:30]}, nontrivial=False)
                continue
            n += 1
            facts_ = {'function': fn['q'], 'line': c.get('l'), 'path_from': K, 'value_from': how}
            # normalise: conversion-operator suffixes, and locals initialised once from an expression stand for that expression
            def norm(t):
                t = t.replace(' ', '')
                for suf in ('.operatorbasic_string_view()',):
                    if t.endswith(suf): t = t[:-len(suf)]
                return t
            def resolve(t):
                for d in A.walk_no_lambda(fn['body']):
                    if d.get('k') == 'VarDecl' and d.get('n') == t and d.get('init') is not None:
                        it = A.strip(d['init'], casts=True)
                        if it is not None and it.get('k') in A.CALLS: return A.text(it)
                return t
            if norm(K) == norm(want) or norm(resolve(K)) == norm(resolve(want)):
                chk.ok('R12.1', site, facts_)
            else:
                chk.fail('R12.1', site, fn['file'], c.get('l'), 'the path node is generated from `%s` but the value passed with it is fetched with `%s`' % (K, how), facts_, fn['q'])
    chk.require(n >= 14, 'R12.1: only %d path/value pairs found' % n)
    # ---- R12.2
    m = 0
    for fn in facts.functions:
        if fn.get('dep') or fn.get('body') is None or fn['n'] not in ('json_query', 'json_replace') or not fn['file'].endswith('json_query.hpp'): continue
        names = [A.callee_name(c) for c in A.calls_in(fn['body'])]
        site = U.site(fn, 'nparams=%d' % len(fn['params']))
        m += 1
        chk.analysed(fn)
        compiles = any(x in names for x in ('make_expression', 'compile'))
        evaluates = any(x in names for x in ('evaluate', 'evaluate_with_replacement', 'select', 'update'))
        if compiles and evaluates: chk.ok('R12.2', site, {'function': fn['q'], 'calls': sorted(set(x for x in names if x in ('make_expression', 'compile', 'evaluate', 'select', 'update')))})
        else: chk.fail('R12.2', site, fn['file'], fn['l'], '%s does not go through make_expression/compile + evaluate (calls: %s)' % (fn['n'], sorted(set(names))[:8]), None, fn['q'])
    chk.require(m >= 2, 'R12.2: json_query/json_replace not found')
    c05.r05_5(chk, tier)
    r12_3(chk, tier)
    r12_4(chk, facts)
    r12_6(chk, facts)
    r12_7(chk, facts)
    r12_9(chk, facts)
    r12_10(chk, facts)
    r12_11(chk, facts)
    r12_12(chk, facts)
    r12_13(chk, tier)
    r12_8(chk, tier)
    r12_5(chk, tier)
    c05.r05_6(chk, tier, units=['jsonpath'], floor=80)
    c05.r05_7(chk, tier, units=['jsonpath'], floor=100)
    c05.r05_10(chk, tier, units=('jsonpath',))
    c05.r05_14(chk, tier)
