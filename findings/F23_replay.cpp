#include <jsoncons/json.hpp>
#include <jsoncons_ext/bson/bson.hpp>
#include <iostream>
#include <sstream>
using namespace jsoncons;
int main(){
    json j = json::parse(R"({"a":"end","b":"hello world","c":[ "x", "yz" ]})");
    std::vector<uint8_t> b; bson::encode_bson(j,b);
    int bad=0;
    for (std::size_t n=1;n<=24;++n){
        std::string s(b.begin(), b.end()); std::istringstream is(s);
        binary_stream_source src(is, n);
        json_decoder<json> d; bson::basic_bson_reader<binary_stream_source> r(std::move(src), d); 
        std::error_code ec; r.read(ec);
        if (ec || d.get_result()!=j) { std::cout << "n="<<n<<" mismatch "<< (ec?ec.message():d.get_result().to_string()) <<"\n"; bad++; }
    }
    std::cout << (bad?"FAIL":"PASS") << "\n"; return bad;
}
