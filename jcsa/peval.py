"""E1/E2: partial evaluation of one function on a bound discriminant, producing guarded effect summaries.

Nothing of jsoncons is run: the statement tree is walked with an environment that maps a few
declarations (the discriminant, values derived from it) to concrete integers; branch conditions that
fold under the environment select one side, all others are explored on both sides and recorded as
symbolic guards.  Calls to functions selected by `follow` are inlined with their parameters bound
(bounded depth).  The result is a list of Effect records in program order."""
from . import ast as A

UNK = None

INT_TYPES = {
    'bool': (1, False), 'char': (8, True), 'signed char': (8, True), 'unsigned char': (8, False),
    'short': (16, True), 'unsigned short': (16, False), 'int': (32, True), 'unsigned int': (32, False),
    'long': (64, True), 'unsigned long': (64, False), 'long long': (64, True), 'unsigned long long': (64, False),
    'wchar_t': (32, True), 'char16_t': (16, False), 'char32_t': (32, False), 'char8_t': (8, False),
}

def wrap(v, tname):
    t = INT_TYPES.get(tname.replace('const ', '').strip())
    if t is None or v is None: return v
    bits, signed = t
    if bits == 1: return 1 if v else 0
    v &= (1 << bits) - 1
    if signed and v >= (1 << (bits - 1)): v -= (1 << bits)
    return v

class Effect:
    __slots__ = ('kind', 'name', 'args', 'guards', 'line', 'extra', 'depth')
    def __init__(self, kind, name, args=(), guards=(), line=0, extra=None, depth=0):
        self.kind = kind; self.name = name; self.args = tuple(args); self.guards = tuple(guards)
        self.line = line; self.extra = extra or {}; self.depth = depth
    def key(self, with_guards=True):
        return (self.kind, self.name, self.args, self.guards if with_guards else ())
    def __repr__(self):
        g = (' if ' + ' && '.join(self.guards)) if self.guards else ''
        return '%s %s(%s)%s' % (self.kind, self.name, ', '.join(str(a) for a in self.args), g)

class Stop(Exception):
    pass

class PEval:
    def __init__(self, facts, unit_fn, follow=None, max_depth=4, types_owner=None, pure=None, max_effects=4000, bind=None):
        self.facts = facts
        self.root = unit_fn
        self.follow = follow or (lambda callee, call: False)
        self.pure = pure or (lambda callee, call: False)
        self.max_depth = max_depth
        self.effects = []
        self.max_effects = max_effects
        self.static_tables = {}
        self.bind = dict(bind or {})   # local/param name in the root function -> value (immune to kills)
        self.sticky = set()
        self.call_values = {}
        self.expr_values = {}      # id(expression node) -> value supplied by the rule (an operand it enumerates)
        self.sticky_once = None
        self.head = None   # value of the next unread source byte (head-byte abstraction of Source::peek/read)
        for v in facts.vars:
            if v.get('ints') is not None and v['_unit'] == unit_fn['_unit']:
                tab = list(v['ints'])
                # trailing elements without an explicit initializer are value-initialised (array filler)
                import re as _re
                m = _re.search(r'\[(\d+)\]$', v['_types'][v['t'] - 1]) if v.get('t') else None
                if m and int(m.group(1)) > len(tab):
                    tab += [0] * (int(m.group(1)) - len(tab))
                self.static_tables[v['id']] = tab

    # ---- expressions ----------------------------------------------------------
    def tn(self, e):
        t = e.get('t')
        return self.root['_types'][t - 1] if t else ''

    def ev(self, e, env, depth=0):
        """Concrete integer value of expression e under env, or None."""
        if e is None: return UNK
        if 'ev' in e: return e['ev']
        if self.expr_values and id(e) in self.expr_values: return self.expr_values[id(e)]
        k = e.get('k')
        if k in ('IntegerLiteral', 'CharacterLiteral', 'CXXBoolLiteralExpr'): return e.get('v')
        if k == 'ParenExpr' or k == 'CXXDefaultArgExpr': return self.ev(e.get('sub'), env, depth)
        if k == 'ImplicitCastExpr' or k in A.EXPLICIT_CASTS:
            v = self.ev(e.get('sub'), env, depth)
            ck = e.get('ck')
            if v is UNK: return UNK
            if ck in ('IntegralCast', 'IntegralToBoolean', 'NoOp', 'LValueToRValue'):
                return wrap(v, self.tn(e)) if ck != 'IntegralToBoolean' else (1 if v else 0)
            if ck == 'ConstructorConversion':
                return UNK
            if ck == 'UserDefinedConversion':
                return v
            return wrap(v, self.tn(e))
        if k == 'DeclRefExpr':
            if e.get('dk') == 'EnumConstant': return e.get('v')
            return env.get(e.get('id'), UNK)
        if k == 'MemberExpr':
            b = A.strip(e.get('base'))
            if b is not None and b.get('k') == 'DeclRefExpr' and ('peek', b.get('id')) in env:
                if e.get('n') == 'value': return env[('peek', b.get('id'))]
                if e.get('n') == 'eof': return 0
            return env.get(('m', e.get('n')), UNK)
        if k == 'UnaryOperator':
            op = e.get('op')
            if op == '*':
                t = A.strip(e.get('sub'), casts=True)
                if t is not None and t.get('k') in ('MemberExpr', 'DeclRefExpr'):
                    v = env.get(('deref', t.get('n')), UNK)
                    return env.get(('elem', t.get('n'), 0), UNK) if v is UNK else v
                return UNK
            if op in ('++', '--', '&'): return UNK
            v = self.ev(e.get('sub'), env, depth)
            if v is UNK: return UNK
            if op == '!': return 0 if v else 1
            if op == '-': return wrap(-v, self.tn(e))
            if op == '~': return wrap(~v, self.tn(e))
            if op == '+': return v
            return UNK
        if k == 'BinaryOperator':
            op = e.get('op')
            if op in ('=', ','): return UNK
            a = self.ev(e.get('lhs'), env, depth)
            if op == '&&':
                if a is not UNK and not a: return 0
                b = self.ev(e.get('rhs'), env, depth)
                if b is not UNK and not b: return 0
                if a is UNK or b is UNK: return UNK
                return 1
            if op == '||':
                if a is not UNK and a: return 1
                b = self.ev(e.get('rhs'), env, depth)
                if b is not UNK and b: return 1
                if a is UNK or b is UNK: return UNK
                return 0
            b = self.ev(e.get('rhs'), env, depth)
            if a is UNK or b is UNK: return UNK
            try:
                r = {'+': lambda: a + b, '-': lambda: a - b, '*': lambda: a * b,
                     '/': lambda: int(a / b) if b else UNK, '%': lambda: (a - b * int(a / b)) if b else UNK,
                     '&': lambda: a & b, '|': lambda: a | b, '^': lambda: a ^ b,
                     '<<': lambda: a << b if 0 <= b < 64 else UNK, '>>': lambda: a >> b if 0 <= b < 64 else UNK,
                     '<': lambda: int(a < b), '>': lambda: int(a > b), '<=': lambda: int(a <= b), '>=': lambda: int(a >= b),
                     '==': lambda: int(a == b), '!=': lambda: int(a != b)}[op]()
            except KeyError:
                return UNK
            if r is UNK: return UNK
            if op in ('<', '>', '<=', '>=', '==', '!='): return r
            return wrap(r, self.tn(e))
        if k == 'ConditionalOperator':
            c = self.ev(e.get('cond'), env, depth)
            if c is UNK: return UNK
            return self.ev(e.get('then') if c else e.get('else'), env, depth)
        if k == 'ArraySubscriptExpr':
            c = e.get('c') or []
            if len(c) == 2:
                base = A.strip(c[0], casts=True)
                idx = self.ev(c[1], env, depth)
                if base is not None and base.get('k') == 'DeclRefExpr' and idx is not UNK:
                    tab = self.static_tables.get(base.get('id'))
                    if tab is not None and 0 <= idx < len(tab): return tab[idx]
                    # element of a buffer whose content the caller supplied (`p[0]` is `*p`)
                    if ('elem', base.get('n'), idx) in env: return env[('elem', base.get('n'), idx)]
                    if idx == 0 and ('deref', base.get('n')) in env: return env[('deref', base.get('n'))]
            return UNK
        if k in ('CallExpr', 'CXXMemberCallExpr', 'CXXOperatorCallExpr'):
            if A.callee_name(e) == '__builtin_expect':
                return self.ev((e.get('args') or [None])[0], env, depth)
            if id(e) in self.call_values:
                return self.call_values[id(e)]
            if k == 'CXXMemberCallExpr' and A.callee_name(e) == 'operator bool':
                o = A.strip(e.get('obj'), casts=True)
                if o is not None and o.get('k') == 'DeclRefExpr' and ('ec', o.get('id')) in env:
                    return env[('ec', o.get('id'))]
            callee = self.facts.callee(self.root, e)
            if callee is not None and depth < 3 and self.pure(callee, e):
                return self.call_value(callee, e, env, depth + 1)
            return UNK
        if k in ('CXXConstructExpr', 'CXXTemporaryObjectExpr'):
            return UNK
        return UNK

    def call_value(self, callee, call, env, depth):
        """Value returned by a small pure function under known arguments, or None."""
        args = call.get('args') or []
        if call.get('k') == 'CXXOperatorCallExpr' and callee.get('fk') == 'CXXMethod':
            args = args[1:]
        cenv = {}
        for p, a in zip(callee['params'], args):
            v = self.ev(a, env, depth)
            if v is not UNK:
                cenv[p['id']] = wrap(v, callee['_types'][p['t'] - 1].replace('const ', ''))
        sub = PEval(self.facts, callee, pure=self.pure, max_depth=1, max_effects=400)
        try:
            sub.exec_body(callee, cenv)
        except Stop:
            return UNK
        rets = [e for e in sub.effects if e.kind == 'return']
        vals = set(e.extra.get('value') for e in rets if not e.guards)
        if len(rets) >= 1 and all(not e.guards for e in rets) and len(vals) == 1:
            v = vals.pop()
            return v
        return UNK

    # ---- rendering of arguments -----------------------------------------------------
    def render(self, e, env):
        v = self.ev(e, env)
        s = A.strip(e, casts=True)
        if s is not None and s.get('k') == 'DeclRefExpr' and s.get('dk') == 'EnumConstant':
            q = s.get('q', '')
            return '::'.join(q.split('::')[-2:])
        if v is not UNK: return v
        # enumerator nested in conversions (semantic_tag::x passed by value)
        if s is not None:
            for x in A.walk(s):
                if x.get('k') == 'DeclRefExpr' and x.get('dk') == 'EnumConstant':
                    q = x.get('q', '')
                    if s.get('k') in ('CXXConstructExpr',) or x is s:
                        return '::'.join(q.split('::')[-2:])
                    break
        return A.text(e)[:80]

    # ---- effects --------------------------------------------------------------------
    def emit(self, kind, name, args, guards, line, extra=None, depth=0):
        if len(self.effects) >= self.max_effects:
            raise Stop()
        self.effects.append(Effect(kind, name, args, guards, line, extra, depth))

    def expr_effects(self, e, env, guards, depth):
        """Record calls/assignments inside an expression (evaluation order approximated by pre-order of operands)."""
        if e is None: return
        k = e.get('k')
        if k == 'LambdaExpr': return
        if k in ('BinaryOperator', 'CompoundAssignOperator') and e.get('op', '').endswith('=') and e.get('op') not in ('==', '!=', '<=', '>='):
            self.expr_effects(e.get('rhs'), env, guards, depth)
            l = A.strip(e.get('lhs'))
            name = A.ref_name(l)
            val = self.ev(e.get('rhs'), env) if e.get('op') == '=' else UNK
            self._kill_deref(env, name)
            if l is not None and l.get('k') == 'DeclRefExpr':
                if l.get('id') in self.sticky: pass
                elif e.get('op') == '=' and val is not UNK: env[l.get('id')] = wrap(val, self.tn(l))
                else: self._kill(env, l.get('id'))
                self.emit('assign', name, (self.render(e.get('rhs'), env) if e.get('op') == '=' else e.get('op'),), guards, e.get('l', 0), depth=depth)
            else:
                if l is not None and l.get('k') == 'MemberExpr' and A.strip(l.get('base')) is not None and A.strip(l.get('base')).get('k') == 'CXXThisExpr':
                    if e.get('op') == '=' and val is not UNK: env[('m', name)] = val
                    else: env.pop(('m', name), None)
                self.expr_effects(e.get('lhs'), env, guards, depth)
                self.emit('set', A.text(l)[:60] if l is not None else '?', (self.render(e.get('rhs'), env) if e.get('op') == '=' else e.get('op') + A.text(e.get('rhs'))[:40],),
                          guards, e.get('l', 0), depth=depth)
            return
        if k == 'UnaryOperator' and e.get('op') in ('++', '--'):
            l = A.strip(e.get('sub'))
            self._kill_deref(env, A.ref_name(l))
            if l is not None and l.get('k') == 'DeclRefExpr':
                self._kill(env, l.get('id'))
            elif l is not None and l.get('k') == 'MemberExpr':
                env.pop(('m', l.get('n')), None)
            self.emit('set', A.text(l)[:60] if l is not None else '?', (e.get('op'),), guards, e.get('l', 0), depth=depth)
            return
        if k == 'CXXOperatorCallExpr' and e.get('oop') == '=' and len(e.get('args') or []) == 2:
            self.expr_effects(e['args'][1], env, guards, depth)
            tgt = A.strip(e['args'][0], casts=True)
            if tgt is not None and tgt.get('k') == 'DeclRefExpr' and 'error_code' in self.tn(tgt):
                r = self.render(e['args'][1], env)
                if isinstance(r, str) and '::' in r and not r.endswith('::success') and ' ' not in r:
                    env[('ec', tgt.get('id'))] = 1
                else:
                    env.pop(('ec', tgt.get('id')), None)
            self.emit('set', A.text(e['args'][0])[:60], (self.render(e['args'][1], env),), guards, e.get('l', 0), depth=depth)
            return
        if k in ('CallExpr', 'CXXMemberCallExpr', 'CXXOperatorCallExpr', 'CXXConstructExpr', 'CXXTemporaryObjectExpr'):
            if A.callee_name(e) == '__builtin_expect':
                self.expr_effects((e.get('args') or [None])[0], env, guards, depth); return
            for a in e.get('args') or []:
                self.expr_effects(a, env, guards, depth)
            if k == 'CXXMemberCallExpr':
                self.expr_effects(e.get('obj'), env, guards, depth)
            if k in ('CXXConstructExpr', 'CXXTemporaryObjectExpr'):
                return
            callee = self.facts.callee(self.root, e)
            name = A.callee_name(e)
            if callee is not None and depth < self.max_depth and self.follow(callee, e):
                self.inline(callee, e, env, guards, depth)
                return
            self.sticky_once = None
            if k == 'CXXMemberCallExpr': self._source_call(e, env)
            if k == 'CXXMemberCallExpr' and not e.get('cconst'):
                ob = A.strip(e.get('obj'))
                if ob is not None and ob.get('k') == 'CXXThisExpr':
                    for kk in [kk for kk in env if isinstance(kk, tuple) and kk[0] in ('deref', 'm')]: env.pop(kk, None)
            # out-parameters by address/reference of locals become unknown
            for a in e.get('args') or []:
                s = A.strip(a, casts=True)
                if s is not None and s.get('k') == 'UnaryOperator' and s.get('op') == '&':
                    t = A.strip(s.get('sub'))
                    if t is not None: self._kill_deref(env, A.ref_name(t))
                    if t is not None and t.get('k') == 'DeclRefExpr' and t.get('id') != self.sticky_once: self._kill(env, t.get('id'))
                elif s is not None and s.get('k') == 'DeclRefExpr' and s.get('lv') and s.get('dk') == 'Var':
                    # passed by (possibly non-const) reference: only kill if the parameter type is a non-const reference
                    pass
            obj = A.ref_name(e.get('obj')) if k == 'CXXMemberCallExpr' else ''
            args = [self.render(a, env) for a in (e.get('args') or [])]
            extra = {'obj': obj, 'ta': e.get('ta'), 'cq': e.get('cq', ''), 'ast': e}
            self.emit('call', (obj + '.' if obj else '') + name, args, guards, e.get('l', 0), extra, depth)
            return
        if k == 'CXXThrowExpr':
            for c in A.children(e): self.expr_effects(c, env, guards, depth)
            self.emit('throw', A.text(e.get('sub'))[:80], (), guards, e.get('l', 0), depth=depth)
            return
        if k == 'ConditionalOperator':
            c = self.ev(e.get('cond'), env)
            self.expr_effects(e.get('cond'), env, guards, depth)
            if c is UNK:
                g = A.text(e.get('cond'))[:60]
                self.expr_effects(e.get('then'), env, guards + (g,), depth)
                self.expr_effects(e.get('else'), env, guards + ('!(' + g + ')',), depth)
            else:
                self.expr_effects(e.get('then') if c else e.get('else'), env, guards, depth)
            return
        for c in A.children(e):
            self.expr_effects(c, env, guards, depth)

    def inline(self, callee, call, env, guards, depth):
        args = call.get('args') or []
        if call.get('k') == 'CXXOperatorCallExpr' and callee.get('fk') == 'CXXMethod':
            args = args[1:]
        cenv = {k: v for k, v in env.items() if isinstance(k, tuple) and k[0] not in ('peek', 'ec')}   # member/source knowledge flows in
        for p, a in zip(callee['params'], args):
            v = self.ev(a, env)
            if v is not UNK:
                cenv[p['id']] = wrap(v, callee['_types'][p['t'] - 1].replace('const ', '').replace(' &', ''))
        refmap = []
        for p, a in zip(callee['params'], args):
            pt = callee['_types'][p['t'] - 1]
            sa = A.strip(a, casts=True)
            if pt.endswith('&') and 'error_code' in pt and sa is not None and sa.get('k') == 'DeclRefExpr':
                refmap.append((p['id'], sa.get('id')))
                if ('ec', sa.get('id')) in env: cenv[('ec', p['id'])] = env[('ec', sa.get('id'))]
        self.emit('enter', callee['n'], [self.render(a, env) for a in args], guards, call.get('l', 0), {'q': callee['q']}, depth)
        saved_root = self.root
        self.root = callee
        mark = len(self.effects)
        try:
            self.exec_stmt(callee['body'], cenv, guards, depth + 1)
        finally:
            self.root = saved_root
        rets = [x for x in self.effects[mark:] if x.kind == 'return' and x.depth == depth + 1 and x.guards == tuple(guards)]
        vals = set(x.extra.get('value') for x in rets)
        if len(rets) >= 1 and len(vals) == 1 and UNK not in vals:
            self.call_values[id(call)] = vals.pop()
        else:
            self.call_values.pop(id(call), None)
        for pid, aid in refmap:
            if ('ec', pid) in cenv: env[('ec', aid)] = cenv[('ec', pid)]
            else: env.pop(('ec', aid), None)
        for k, v in list(env.items()):
            if isinstance(k, tuple) and k[0] not in ('peek', 'ec'):
                if cenv.get(k, UNK) != v: env.pop(k, None)
        for k, v in cenv.items():
            if isinstance(k, tuple) and k[0] not in ('peek', 'ec'): env[k] = v
        self.emit('leave', callee['n'], (), guards, call.get('l', 0), depth=depth)

    # ---- statements -----------------------------------------------------------------
    def exec_body(self, fn, env):
        self.root = fn
        env = dict(env)
        if self.head is not None:
            env[('src', 'head')] = self.head
        for p in fn['params']:
            if p['n'] in self.bind:
                env[p['id']] = wrap(self.bind[p['n']], fn['_types'][p['t'] - 1].replace('const ', '').replace(' &', ''))
                self.sticky.add(p['id'])
        return self.exec_stmt(fn['body'], dict(env), (), 0)

    @staticmethod
    def merge(env, a, b):
        env.clear()
        for k, v in a.items():
            if k in b and b[k] == v: env[k] = v

    def kill_assigned(self, stmt, env):
        for x in A.walk(stmt):
            k = x.get('k')
            if k in ('BinaryOperator', 'CompoundAssignOperator') and x.get('op', '').endswith('=') and x.get('op') not in ('==', '!=', '<=', '>='):
                l = A.strip(x.get('lhs'))
                self._kill_deref(env, A.ref_name(l))
                if l is not None and l.get('k') == 'DeclRefExpr': self._kill(env, l.get('id'))
                if l is not None and l.get('k') == 'MemberExpr': env.pop(('m', l.get('n')), None)
            if k == 'UnaryOperator' and x.get('op') in ('++', '--'):
                l = A.strip(x.get('sub'))
                self._kill_deref(env, A.ref_name(l))
                if l is not None and l.get('k') == 'DeclRefExpr': self._kill(env, l.get('id'))
                if l is not None and l.get('k') == 'MemberExpr': env.pop(('m', l.get('n')), None)
            if k in A.CALLS:
                # calls to member functions may change members
                if k == 'CXXMemberCallExpr' and not x.get('cconst'):
                    o = A.strip(x.get('obj'))
                    if o is not None and o.get('k') == 'CXXThisExpr':
                        for kk in [kk for kk in env if isinstance(kk, tuple)]: env.pop(kk, None)

    def exec_stmt(self, s, env, guards, depth):
        """Returns a set of outcomes: 'next', 'return', 'break', 'continue', 'throw', 'goto'."""
        if s is None: return {'next'}
        k = s.get('k')
        if k == 'NullStmt': return {'next'}
        if k == 'CompoundStmt':
            out = set()
            for c in s.get('c') or []:
                r = self.exec_stmt(c, env, guards, depth)
                out |= (r - {'next'})
                if 'next' not in r:
                    return out
                if r != {'next'}:
                    # some paths left the block: the remaining statements run under an (unrecorded) residual condition
                    pass
            out.add('next')
            return out
        if k == 'IfStmt':
            if s.get('init') is not None: self.exec_stmt(s['init'], env, guards, depth)
            if s.get('var') is not None: self.decl(s['var'], env, guards, depth)
            c = self.ev(s.get('cond'), env)
            self.expr_effects(s.get('cond'), env, guards, depth)
            if c is not UNK:
                return self.exec_stmt(s.get('then') if c else s.get('else'), env, guards, depth)
            g = A.text(s.get('cond'))[:70]
            e1 = dict(env); e2 = dict(env)
            r1 = self.exec_stmt(s.get('then'), e1, guards + (g,), depth)
            r2 = self.exec_stmt(s.get('else'), e2, guards + ('!(' + g + ')',), depth)
            if 'next' in r1 and 'next' in r2: self.merge(env, e1, e2)
            elif 'next' in r1: env.clear(); env.update(e1)
            elif 'next' in r2: env.clear(); env.update(e2)
            return r1 | r2
        if k == 'SwitchStmt':
            if s.get('init') is not None: self.exec_stmt(s['init'], env, guards, depth)
            v = self.ev(s.get('cond'), env)
            self.expr_effects(s.get('cond'), env, guards, depth)
            items = self.switch_items(s.get('body'))
            if v is not UNK:
                start = None
                for i, (labels, st) in enumerate(items):
                    if any(lo is not None and lo <= v <= hi for (lo, hi) in labels if lo != 'default'):
                        start = i; break
                if start is None:
                    for i, (labels, st) in enumerate(items):
                        if any(lo == 'default' for (lo, hi) in labels): start = i; break
                if start is None: return {'next'}
                return self.run_items(items, start, env, guards, depth)
            out = set(); envs = []
            has_default = False
            for i, (labels, st) in enumerate(items):
                if not labels: continue
                if any(lo == 'default' for lo, hi in labels): has_default = True
                lab = ','.join('default' if lo == 'default' else (str(lo) if lo == hi else '%s..%s' % (lo, hi)) for lo, hi in labels)
                e1 = dict(env)
                r = self.run_items(items, i, e1, guards + ('%s in {%s}' % (A.text(s.get('cond'))[:40], lab),), depth)
                out |= r
                if 'next' in r: envs.append(e1)
            if not has_default: out.add('next'); envs.append(dict(env))
            if envs:
                m = envs[0]
                for e2 in envs[1:]:
                    t = {}; self.merge(t, m, e2); m = t
                env.clear(); env.update(m)
            return out
        if k in ('WhileStmt', 'ForStmt', 'DoStmt', 'CXXForRangeStmt'):
            if k == 'ForStmt' and s.get('init') is not None: self.exec_stmt(s['init'], env, guards, depth)
            c0 = self.ev(s.get('cond'), env) if k in ('WhileStmt', 'ForStmt') and s.get('cond') is not None else UNK
            if c0 is not UNK and not c0: return {'next'}
            if (k == 'WhileStmt' and c0 is not UNK and c0) or (k == 'ForStmt' and s.get('cond') is None):
                # loop with a constant-true condition: decide the first iteration concretely
                e1 = dict(env); mark = len(self.effects)
                r = self.exec_stmt(s.get('body'), e1, guards, depth)
                core = r - {'return', 'throw', 'goto'}
                if core <= {'break'}:
                    env.clear(); env.update(e1)
                    out = set(r) - {'break'}
                    if 'break' in r: out.add('next')
                    return out
                if core <= {'next', 'continue'}:
                    self.emit('loop', 'again', (), guards, s.get('l', 0), depth=depth)
                    self.kill_assigned(s, env)
                    return (set(r) - {'next', 'continue'}) | {'goto'}
                del self.effects[mark:]
            e1 = dict(env)     # the first iteration runs in the entry environment
            self.kill_assigned(s, env)
            if k == 'CXXForRangeStmt': self.expr_effects(s.get('range'), env, guards, depth)
            if s.get('cond') is not None: self.expr_effects(s.get('cond'), env, guards, depth)
            once = (k == 'DoStmt' and self.ev(s.get('cond'), env) == 0)
            g = guards if once else guards + ('loop@%d' % s.get('l', 0),)
            r = self.exec_stmt(s.get('body'), e1, g, depth)
            if k == 'ForStmt' and s.get('inc') is not None: self.expr_effects(s['inc'], e1, g, depth)
            self.kill_assigned(s, env)
            if once:
                env.clear(); env.update(e1)
                out = set(r) - {'break', 'continue'}
                if 'next' in r or 'break' in r or 'continue' in r: out.add('next')
                return out
            out = set(r) - {'break', 'continue', 'next'}
            out.add('next')
            return out
        if k == 'BreakStmt': return {'break'}
        if k == 'ContinueStmt': return {'continue'}
        if k == 'ReturnStmt':
            self.expr_effects(s.get('val'), env, guards, depth)
            if depth == 0 or True:
                self.emit('return', '', (self.render(s.get('val'), env),) if s.get('val') is not None else (), guards, s.get('l', 0),
                          {'value': self.ev(s.get('val'), env), 'ast': s.get('val')}, depth)
            return {'return'}
        if k == 'GotoStmt':
            self.emit('goto', s.get('label'), (), guards, s.get('l', 0), depth=depth)
            return {'goto'}
        if k == 'LabelStmt':
            self.emit('label', s.get('label'), (), guards, s.get('l', 0), depth=depth)
            return self.exec_stmt(s.get('sub'), env, guards, depth)
        if k in ('CaseStmt', 'DefaultStmt'):
            return self.exec_stmt(s.get('sub'), env, guards, depth)
        if k == 'DeclStmt':
            for d in s.get('decls') or []:
                self.decl(d, env, guards, depth)
            return {'next'}
        if k == 'CXXTryStmt':
            r = self.exec_stmt(s.get('body'), env, guards, depth)
            for h in s.get('handlers') or []:
                e1 = dict(env)
                r |= self.exec_stmt(h.get('body'), e1, guards + ('catch',), depth)
            return r
        if k == 'AttributedStmt':
            c = s.get('c') or []
            return self.exec_stmt(c[-1] if c else None, env, guards, depth)
        # expression statement
        self.expr_effects(s, env, guards, depth)
        st = A.strip(s)
        if st is not None and st.get('k') == 'CXXThrowExpr': return {'throw'}
        if st is not None and st.get('k') == 'CallExpr' and A.callee_name(st) == '__builtin_unreachable':
            return {'throw'}
        return {'next'}

    def _peek_call(self, e):
        s = A.strip(e, casts=True)
        while s is not None and s.get('k') in ('CXXConstructExpr',) and len(s.get('args') or []) == 1:
            s = A.strip(s['args'][0], casts=True)
        return s is not None and s.get('k') == 'CXXMemberCallExpr' and A.callee_name(s) == 'peek' and A.ref_name(s.get('obj')) == 'source_'

    def _source_call(self, e, env):
        """Head-byte abstraction: source_.read(&x,1) binds x to the head byte; any consuming call drops the head."""
        name = A.callee_name(e)
        if A.ref_name(e.get('obj')) != 'source_': return
        if name in ('peek', 'is_error', 'eof', 'position'): return
        head = env.get(('src', 'head'), UNK)
        if name == 'read' and head is not UNK:
            args = e.get('args') or []
            n = self.ev(args[1], env) if len(args) > 1 else UNK
            a0 = A.strip(args[0], casts=True) if args else None
            if n == 1 and a0 is not None and a0.get('k') == 'UnaryOperator' and a0.get('op') == '&':
                t = A.strip(a0.get('sub'))
                if t is not None and t.get('k') == 'DeclRefExpr':
                    env[t.get('id')] = head
                    self.sticky_once = t.get('id')
        env.pop(('src', 'head'), None)
        for k in [k for k in env if isinstance(k, tuple) and k[0] == 'peek']:
            pass  # already-peeked copies keep their value (they are copies)

    def _kill(self, env, key):
        if key in self.sticky: return
        env.pop(key, None)

    @staticmethod
    def _kill_deref(env, name):
        env.pop(('deref', name), None)

    def decl(self, d, env, guards, depth):
        init = d.get('init')
        if depth == 0 and d.get('n') in self.bind:
            if init is not None: self.expr_effects(init, env, guards, depth)
            tn = self.root['_types'][d['t'] - 1] if d.get('t') else ''
            env[d['id']] = wrap(self.bind[d['n']], tn)
            self.sticky.add(d['id'])
            return
        if init is not None:
            self.expr_effects(init, env, guards, depth)
            v = self.ev(init, env)
            tn = self.root['_types'][d['t'] - 1] if d.get('t') else ''
            pk = self._peek_call(init)
            if pk and ('src', 'head') in env:
                env[('peek', d['id'])] = env[('src', 'head')]
            else:
                env.pop(('peek', d['id']), None)
            if v is not UNK:
                env[d['id']] = wrap(v, tn)
            else:
                env.pop(d['id'], None)
            self.emit('decl', d.get('n'), (self.render(init, env),), guards, d.get('l', 0), {'type': tn, 'ast': init}, depth)
        else:
            env.pop(d['id'], None)

    @staticmethod
    def switch_items(body):
        """Flatten a switch body into [(labels, stmt)] where labels is a list of (lo,hi)|('default',None)."""
        items = []
        if body is None: return items
        stmts = body.get('c') if body.get('k') == 'CompoundStmt' else [body]
        for st in stmts or []:
            labels = []
            cur = st
            while cur is not None and cur.get('k') in ('CaseStmt', 'DefaultStmt'):
                if cur['k'] == 'CaseStmt':
                    lo = cur.get('lo'); labels.append((lo, cur.get('hi', lo)))
                else:
                    labels.append(('default', None))
                cur = cur.get('sub')
            items.append((labels, cur))
        return items

    def run_items(self, items, start, env, guards, depth):
        out = set()
        for labels, st in items[start:]:
            r = self.exec_stmt(st, env, guards, depth)
            out |= (r - {'next', 'break'})
            if 'break' in r:
                out.add('next')
                if 'next' not in r: return out
            if 'next' not in r:
                return out
        out.add('next')
        return out
