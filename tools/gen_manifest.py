#!/usr/bin/env python3
"""Regenerates /verif/MANIFEST.json from the table below (kept in one place so it stays valid)."""
import json, os
V = os.path.dirname(os.path.dirname(os.path.abspath(__file__)))

# property id -> (technique, level text, level note, design ref)
# rules added in the fifth seeding round / third refactoring round (DESIGN.md section 4, "Round 5")
ROUND5 = {
 'C01': 'the backslash case replaces the noesc tag on every way through it (R01.9); encoder siblings compared with private helpers expanded (R01.3).',
 'C03': 'events emitted through helpers count at the caller (R03.5); a reused CBOR cursor forgets pending tags (R07.cbor.tags reset clause).',
 'C04': 'integer events match the signedness parsed into and the sign dispatch (R04.3); constructor initialisers copy each option into the member named after it (R04.8); every from_chars based decstr_to_double assigns the value on out-of-range (R04.9; the shipped from_chars configuration is the one analysed).',
 'C05': 'growing index into a fixed local array (R05.15), indexed reads of a view parameter (R05.16), borrowed bounds between member containers (R05.17).',
 'C06': 'MessagePack timestamp sign mirror between encoder and decoder (R06.msgpack); item bookkeeping of the visitor adaptors (R07.adaptor).',
 'C07': 'CBOR reset clears pending tags (R07.cbor.tags); visitor adaptors count every item (R07.adaptor); BSON closers found by what they report.',
 'C08': 'outcome objects of nested dump/encode calls are read (R08.5).',
 'C09': 'kind snapshots in the kinds dataflow.',
 'C10': 'reset() sets the depth counter back to 0 (R10.8); limit test accepted inside a bool helper (R10.5).',
 'C11': 'child-value contexts carry fresh evaluation flags (R11.11); is_valid answers from the error count (R11.3).',
 'C12': 'per-element error state in selector loops (R12.13).',
 'C13': 'values of nested evaluations are stored only after their error_code was tested (R13.12).',
 'C14': 'operator< of json_pointer is the lexicographic token comparison unflatten relies on (R14.8).',
 'C16': 'in-place form of the algorithm accepted; a patch value stored unmerged must be a non-object (R16.4).',
 'C17': 'mandatory and optional outcomes of the generated member tests differ (R17.2); no string handed on through c_str() alone (R17.11, with a positive example).',
 'C18': 'reinitialize keeps the configured column names (R18.13); byte-order-mark test on the first chunk only (R02.8 shared).',
 'C19': 'non-throwing moves take the members of their source as rvalues (R19.10).',
}

CLAIMED = {
 'C03': ('CFG dominance + dispatch-table extraction over the clang AST (resume-state consistency, token carry)',
         'Static rule check: every suspend point of the incremental JSON number/string automata (all instantiations) restores the label it left and carries the partial token; decided from the resolved AST, no execution. Necessary structural clauses of chunking independence, not the behaviour. Also: short-read agreement of every source read (R03.8) and the cursor-bounds typestate of the JSON scanners (R05.6: no dereference past the chunk end). CSV parser included; the mark-level test of a close sees the level the container was opened at. Also: views of the current cursor event are not used after the cursor was advanced (R03.9); the cursor constructors hand on the error of the first read (R03.10); R02.8 shared.',
         'Decides clauses R03.*; does not decide event-sequence equality for all inputs. Trusted: clang 14 Sema, the fact plugin, the Python analysers.',
         'DESIGN.md §4 C03'),
 'C10': ('CFG dominance + interprocedural call-site search for nesting-limit guards; exactness of the comparison shape',
         'Static rule check: every container-open emission in the five decoders, the CBOR typed-array iterators and the TOON reader, and every encoder open, is dominated by an exact nesting-limit comparison whose failing edge stores the error and returns. Quantifies over code sites (all paths that open a container), which no depth test sample does. Also: every increment of a nesting counter by an open is matched by exactly one decrement in the close (R10.7). Also: flatten_and_destroy does not iterate by value (R10.6); every begin_X/end_X pair balances the depth counter (R10.7).',
         'Decides clauses R10.*; does not decide stack bytes per level or memory proportionality as numbers. Known findings F9 (CBOR typed arrays) and F16 (TOON) are reported as KNOWN-FINDING.',
         'DESIGN.md §4 C10'),
 'C07': ('partial evaluation (constant propagation of the initial byte through the dispatch code) and comparison of the per-byte guarded-effect table with the specification table',
         'Static table agreement: the 256-row dispatch tables of the binary decoders (bytes read, integer type, byte order, UTF-8 validation, event, tag, error) are extracted from the resolved AST by partial evaluation and compared row by row with specification tables written from the standards. Exhaustive over initial bytes per instantiation; no input is run. Also shared: depth counter balance of the closers (R10.7). Also: CBOR tag flags are consumed on every normal path (R07.cbor.tags); decimal128 exponent field positions agree between from_chars and to_chars (R07.bson.decimal128); no error enumerator is 0 (R07.errc).',
         'Decides the per-byte dispatch rows; does not decide decoded values beyond width/signedness/order nor behaviour over all inputs. Trusted: clang 14, the plugin, the evaluator, the spec tables in /verif/spec.',
         'DESIGN.md §4 C07'),
 'C02': ('partial evaluation of the hand-written automaton into (state x character) cell tables, number/string DFAs and the end-of-input table; comparison with the RFC 8259 grammar table',
         'Static table agreement: all 7 structural states x 256 characters, 10 literal states x 256, 8 number states x 256, string text/escape x 256 and the end-of-input switch are extracted from the resolved AST and compared with the RFC 8259 table in /verif/spec. Exhaustive over (state, character) cells per instantiation (char and wchar_t); no text is parsed. Also: the first-chunk (byte order mark) examination clears its flag on every normal path (R02.8); whole code points up to 0x10FFFF are stored by the UTF-8 decoder (R02.9); surrogate escapes are combined only as high-low pairs and lone surrogates are not converted (R02.10).',
         'Decides the cell tables (which characters are accepted/rejected/dispatched where); does not decide produced values, the UTF-8 validator arithmetic or duplicate handling.',
         'DESIGN.md §4 C02'),
 'C20': ('who-may-do-what scans over the type-checked program (mutable fields, const_cast, statics handed out by non-const reference, deep-const calls through pointer members, per-call state in artifacts) with positive controls',
         'Static absence check: behind the const API of compiled schemas, JSONPath/JMESPath expressions and basic_json there is no mutable field, no const_cast, no writable static handed out, no non-const call through a pointer member in a const method, and no per-call state stored in the artifact. This is the structural precondition of sharing an immutable artifact across threads; quantifies over all classes and functions of the artifact files and their instantiations. Also: function-local statics of the artifact files are never written after initialisation (R20.6). R20.6 also covers the number/text conversion helpers and statics passed to external functions as pointers to non-const.',
         'Decides absence of shared writable state; does not decide interleavings or equality of per-thread results. Table exemptions (exception what_ caches; JSONPath null_value static) are listed with reasons and a checked supporting fact.',
         'DESIGN.md §4 C20'),
 'C01': ('partial evaluation of the encoder escape function per character and comparison with the parser un-escape table; structural \\u/surrogate constants; data()/size() pairing lint; parser resume-state rule',
         'Static table agreement and pairing rules: the encoder escape table (256 characters x escape_solidus, char and wchar_t) is the inverse of the RFC 8259 un-escape table the parser is verified against, control characters always leave through a four-digit \\u path with the standard surrogate split, no (pointer,length) pair mixes two objects, and the parser resumes string tokens where it left them. Necessary structural clauses of lossless round-trip. Also: the pretty and the compact encoder write the same value text for every value event (sibling agreement R01.3). Number writers forward their value unchanged to the fallback overload (R01.7); the pretty printer\'s column advances by what was appended (R01.8). Also: the parser sets the noesc tag only at an opening quote and clears it on a backslash (R01.9); escape_string returns exactly the number of code units it pushed on every path (R01.10).',
         'Decides the escape/un-escape agreement and the listed pairing rules; does not decide byte-for-byte canonicity under all options, Grisu3/from_chars or the pretty-printer column arithmetic.',
         'DESIGN.md §4 C01'),
 'C05': ('per-site safety obligations: bounded snprintf lengths (static bound or dominating upper-bound test), regex construction inside converting try/catch, clamped slice steps, value-set analysis of every __builtin_unreachable, margin typestate (must-dataflow) for cursor dereferences in the character scanners and for the state stacks of the expression compilers',
         'Static per-site obligations over all of include/: every snprintf length is bounded by its buffer, every std::regex built from run-time text is inside a try that converts, every run-time-step slice loop clamps the step, and every __builtin_unreachable is unreachable for every value its discriminant can take (label completeness over the enum, callee return-value enumeration, assigned-value sets, or a table entry whose supporting facts are re-checked); every cursor dereference in the JSON/CSV/JSONPath/JMESPath/JSON Pointer scanners is dominated by an end-pointer comparison that still covers it, and every back()/pop_back() of the JSONPath/JMESPath state stacks by a non-emptiness fact. Quantifies over code sites and paths, not inputs. Also: input-derived element indices are bounds-checked exactly (R05.8). CSV column cache indexed only for existing columns (R05.9). Also: mem* byte counts carry sizeof for non-byte operands (R05.12); no error enumerator is 0 (R05.13); the JMESPath/JSONPath compiler loops make progress in every iteration (R05.14); bigint storage rules R04.5/R04.6 shared.',
         'Decides the listed obligations; does not decide termination, absence of all undefined behaviour or assertion freedom.',
         'DESIGN.md §4 C05'),
 'C06': ('boundary-partition partial evaluation of encoder width ladders; decoding of the written header with the specification tables used for the decoders',
         'Static ladder check: for every constant an encoder ladder variable is compared with, the points K-1, K, K+1 and the type extremes are partially evaluated; the marker/initial byte, payload conversion type and converted value written must decode (per the specification table the decoder is verified against in C07) to the same value or length, and every point must write a header or store an error. Covers MessagePack, CBOR and UBJSON integer and length ladders for every rung. Also: bin/ext ladders and null/bool/double markers of MessagePack, and every BSON element type byte with its payload width (R06.bson). CBOR stringref accounting of every string the encoder writes (R06.5). Also: typed-array element events keep the element kind (R06.6); the MessagePack timestamp64 split agrees with the encoder\'s join; buffered sinks (R08.4) shared.',
         'Decides exhaustiveness, non-truncation and marker/width agreement of the ladders; does not decide equality of decoded and original documents, bigint or decimal128 conversions.',
         'DESIGN.md §4 C06'),
 'C09': ('tagged-union kind-set dataflow over the CFG of every basic_json member (cast typestate, unreachable exhaustiveness), compare() pair-matrix symmetry by partial evaluation, sort/unique discipline of sorted objects',
         'Static typestate: at every cast<S_storage>() the object can only hold the kind S is constructed with (predicate truth tables computed from their bodies), every __builtin_unreachable default of a kind switch is unreachable, compare() treats every ordered kind pair symmetrically (14x14 cells x number-tag assignments), and sorted-object de-duplication is preceded by a stable sort. All member functions of all instantiations are analysed. Also: Bloom-filter soundness of the order-preserving object\'s bulk insert paths (R09.6). Also: copy siblings pass the same storage attributes (R09.7); lower_bound positions are assigned through only after a key comparison (R09.8); doubles are not ordered by their difference (R09.9); one key ordering for sort and search (R09.10); mem* byte counts (R05.12).',
         'Decides the listed structural clauses; does not decide agreement with a reference model over operation sequences or as<T>() exactness.',
         'DESIGN.md §4 C09'),
 'C19': ('exception-safety typestate over the CFG (destroyed -> re-initialised), dominance of the patch unwinder',
         'Static typestate: between basic_json::destroy() and the re-initialisation of *this no call that may throw (callee not noexcept) is reachable; apply_patch constructs its automatic-storage unwinder before the first mutation. Quantifies over all paths through the functions, i.e. every allocation point between the two events. Also: the JSON Patch unwinder rolls back in every state except commit (R15.6). Also: raw allocate() results are protected against every following may-throw operation (R19.2, nothrow inferred from bodies) and heap_string blocks are returned with the size they were requested with (R19.3, symbolic comparison). Also: heap string blocks are released with the size they were allocated with (R19.7); allocator-extended container constructors use the allocator parameter (R19.8); no catch-all handler swallows std::bad_alloc (R19.9).',
         'Decides the listed clauses; does not decide that rollback itself cannot fail, nor byte balance of allocate/deallocate. Known finding F28 (undo entries recorded after the mutation by an allocating call) is reported as KNOWN-FINDING.',
         'DESIGN.md §4 C19'),
 'C14': ('partial evaluation of the escape writers and of the pointer tokenizer into per-character tables; dominance rules for the index grammar test and the bounds rejection; reachability rule error-store-after-mutation',
         'Static table agreement: all reference-token escape writers and the tokenizer automaton (4 states x 256 characters) are extracted by partial evaluation and must be mutually inverse per RFC 6901; every token-to-index conversion is followed by the leading-zero rejection; every use of the index as an array position is dominated by the exact bounds rejection; no error store is reachable after a document mutation in add/add_if_absent/replace/remove/resolve. Exhaustive over (state, character) cells, conversion sites, position uses and mutation sites. Also: flatten and the patch diff put member names into pointer strings only through escape() (R14.6); end-of-input step of the tokenizer for every state. Also: overloads delegate to the operation of their own name (R14.7); digit tests (R04.7) and mem* byte counts (R05.12) shared.',
         'Decides escape/un-escape agreement, the index grammar and bounds clauses and error-before-mutation (intraprocedural); does not decide that the right location is modified for all documents.',
         'DESIGN.md §4 C14'),
 'C15': ('path rules over the CFG of apply_patch (must-pass-through of the inverse undo entry after every mutation, commit dominance, total dispatch) and of the unwinder',
         'Static path rules: after every mutating jsonpointer call on the target, every path to the next operation passes exactly the inverse undo entry at the same path with the value read before the mutation; commit is assigned only after the loop and every error return marks abort; an unknown op stores an error; the unwinder replays every op_type in reverse with the matching call. Quantifies over all paths through apply_patch, i.e. every failure point of every operation sequence shape. Also: definite_path is evaluated in the state the insertion sees (R15.5), the unwinder rolls back for every state except commit (R15.6, partial evaluation per enumerator), and the jsonpointer operations it relies on have exact bounds and store no error after a mutation (R14.4/R14.5); add_if_absent, whose success is logged as `remove`, never overwrites (R15.7).',
         'Decides the undo-log structure; does not decide that each inverse restores the exact prior state for all documents, nor the from_diff law. Known finding F28 (undo entries recorded after the mutation by an allocating call) is reported as KNOWN-FINDING.',
         'DESIGN.md §4 C15'),
 'C16': ('dominance facts over the CFG of the merge-patch recursion',
         'Static dominance facts of RFC 7386: insertions are control-dependent on a non-null patch member, an existing member is erased unconditionally in the found branch, a non-object patch is returned and a non-object target is reset before the loop, and the inserted value is the recursive merge of the old value (or an empty object). Necessary conditions of the algorithm on every path of the 40-line recursion. Also from_diff: the three emissions sit under exactly their conditions and are must-pass (R16.5). R16.4 by reaching definitions. Also: the basic_json value operations the algorithm is written in (kind-safe access, comparison matrix, copy siblings, mem* byte counts: R09.1/R09.2/R09.5/R09.7/R05.12) are shared from C09.',
         'Decides the listed dominance facts; does not decide equality with the RFC algorithm for all inputs nor the from_diff law.',
         'DESIGN.md §4 C16'),
 'C18': ('set comparison of the encoder quote-trigger set with the parser special-character set; partial evaluation of the quote escape writers (CSV and TOON, all 256 characters) against the readers un-escape tables; dominance in the parser escaped_value state; language inclusion between the two TOON number scanner automata extracted from the source (reachable product)',
         'Static set/table agreement for CSV: every character the parser treats specially inside an unquoted field (read from the unquoted_string state) triggers quoting in the encoder, the escape writer and the parser escaped state are inverse. TOON: every character the quoted-string writer emits is read back by the reader escape table (256 characters x 2 writers), and is_unquoted_safe rejects every string the reader would not return unchanged (structural characters, literals, numbers, empty, outer white space). Necessary conditions of the round trips for every string content. Also: TOON quoting decisions receive the delimiter in force (R18.5); CSV type inference is applied to unquoted fields only (R18.6). CSV parser handles CR wherever it handles LF (R18.7). TOON number tokens: every token the reader number scanner lets through is one the encoder quotes when it is a string (R18.10, automaton inclusion). Also: cached CSV events keep their kind (R18.11); TOON in-quotes scanners skip any escaped character (R18.12).',
         'Decides the CSV and TOON quoting/escaping clauses; does not decide table equality after a round trip, type inference, the numeric value of TOON number tokens, nor TOON layout.',
         'DESIGN.md §4 C18'),
 'C17': ('typestate of expected-like results over the CFG; interprocedural size-guard rule for Json index accesses; arity rule for the fixed-size streaming decoder',
         'Static error-discipline rules over reflect/*.hpp and the expansions of all reflection macro families (driver witness structs): a conversion_result/read_result/expected is dereferenced only under a dominating success test; every j[k] on a Json parameter is under a comparison with j.size() (locally or at every caller of its helper); decode_traits<std::array<T,N>> compares the count with N and requires end_array. Quantifies over all conversion sites, i.e. every malformed shape reaching them. Also: mandatory-member tests of all six N_* macro families hold exactly for positions below N in both routes (R17.2, folded with the class constants of witness types), and the streaming encode route always opens containers with their element count (R17.5). Key freshness of the generated decode loops (R17.6), no compiler-divergent brace-initialisation of json sequences (R17.7), cursor protocol of decode() (R17.8). Also: find_first_not_set returns only an index tested clear or the size (R17.10); event views (R03.9) shared.',
         'Decides the listed error-discipline and arity clauses; does not decide inverse-ness or route equality of values.',
         'DESIGN.md §4 C17'),
 'C12': ('pairing rule over selector call sites (path node generated from the index/name that fetches the value); call-graph identity of json_query with compile+evaluate; clamped slice steps',
         'Static pairing rule: at every tail_select/evaluate_tail call of every selector the path node is generated from the same index or name that fetches the child passed with it; json_query/json_replace go through make_expression + evaluate; slice loops clamp the step. Necessary conditions of "each returned path addresses the value returned with it" and of compiled/one-shot agreement, at all selector sites. Also: the slice step clamp preserves the selection (linear forms over interval boxes, R12.3), json_replace overloads agree on their result options (R12.4), the slice accumulator is reset after use (R12.5), cursor-bounds and state-stack typestates of the compiler (R05.6/R05.7). Filter operator table: operator, operand order, type guards and precedence order of the comparison/arithmetic classes (R12.6). Selector ids are consumed (R12.7); slice bound functions agree with their JMESPath siblings (R12.8). Per-node callbacks do not consume captured values (R12.9); normalized-path escape agreement writer vs json_location parser (R12.10); shunting-yard pop condition truth table (R12.11); integer division guarded (R05.10). Also: the path generation mask covers every option whose post-processing needs paths, in both generate overloads (R12.12).',
         'Decides the listed structural clauses; does not decide that the selected node list is the one the selector semantics define.',
         'DESIGN.md §4 C12'),
 'C13': ('registry table extraction (name -> object -> class -> arity) compared with the specification table; argument typestate over the CFG; dominance of the step-zero test; type-level const facts from Sema',
         'Static table agreement and typestate: the 26 built-in names, their classes and arities equal the JMESPath table; args[k] is read only below the declared arity and after the arity test, value()/expression() only under the matching kind test; step 0 is rejected before the slice loops; every entry point takes const Json& and every evaluate returns const Json&. Also: comparator classes apply the operator they are registered for under the number guard (R13.6), slice clamp (R12.3), slice accumulator reset (R12.5), cursor-bounds and state-stack typestates of the compiler (R05.6/R05.7). Operator table (R13.7), extremum siblings (R13.9), slice bound siblings (R12.8). Also: every sort is std::stable_sort (R13.10); R02.9 shared.',
         'Decides the listed structural clauses; does not decide the values returned (projection scoping, truthiness, function results).',
         'DESIGN.md §4 C13'),
 'C04': ('dominance rules with exact constants for every digit-accumulation (MAX/base, MAX-digit, digits10-bounded loops), sign-limit constants of the signed wrappers, control dependence of integer/bignum events on the conversion result',
         'Static guard rules: in all instantiations of the integer readers every accumulator multiplication and addition is dominated by the exact overflow test for the accumulator type (or a digits10-bounded loop), the signed wrappers compare with exactly 2^(w-1) and MAX, and the JSON parser emits an integer event only under a successful conversion, a bigint/bigdec string exactly under the lossless options. Constants are folded by clang for each type, so an off-by-one in any guard is a violation. Also: every wrapping word addition/subtraction of the bigint add/subtract loops feeds the carry/borrow (R04.4). Bigint storage views are refreshed after every resize before being read (R04.5). Also: bigint storage grows before its length is set (R04.6); digit tests are made on the character in its own type (R04.7).',
         'Decides the overflow-guard and event-kind clauses; does not decide correct rounding of from_chars/strtod, Grisu3 or bigint arithmetic (numerical; no sound static argument in reach here).',
         'DESIGN.md §4 C04'),
 'C08': ('must-pass-through (end_value on every non-error path of every value writer), exact two-sided count comparison at container close, nesting guards and ladder rules shared with C10/C06',
         'Static path rules over the CBOR, MessagePack and UBJSON encoders: every value-emitting visit_* reaches end_value() unless it stores an error or throws; container closes compare the count with the declared length in both directions with exact operands; length-less opens are rejected where the format has no indefinite containers; every open passes the nesting guard. Necessary conditions of well-formed counted containers for every event sequence. Also shared: no raw control character in JSON string literals (R01.1) and CBOR stringref eligibility per the specification ladder (R06.3). The encoder width ladders and BSON type bytes (R06.*) are shared: a header that announces another width or family than what follows is not well-formed. Also: the buffered stream sinks advance their cursor after every block copy before flushing (R08.4); typed-array element events (R06.6) shared.',
         'Decides the count-bookkeeping clauses; does not decide that the bytes denote exactly the pushed data in general.',
         'DESIGN.md §4 C08'),
 'C11': ('set comparison of the per-dialect keyword registries with the draft vocabularies; name binding keyword -> factory method -> validator class; use of reporter.error results over the CFG',
         'Static registry/binding rules: each of the five dialect factories looks up every verdict-affecting keyword of its draft, every registered keyword is bound to the factory method and validator class of the same name, is_valid and validate evaluate the same tree, and every reporter.error() result is returned or tested against abort. Only structural necessary conditions of correct verdicts. Also: annotations of a sub-schema that reported into a local error collector are merged only under a test of that collector (R11.5) and handed back to the caller by the caller\'s flags (R11.6). Dialect dispatch agreement (R11.7); contains bounds always assigned (R11.8). Also: eval_context constructor families (R11.9); annotation requests read the validator\'s own context (R11.10).',
         'Decides registry completeness, wiring and abort propagation; does not decide the verdicts themselves.',
         'DESIGN.md §4 C11'),
}
HOLD = set()   # waits for the fix it depends on to be committed in /repo
NOT_YET = 'check under construction in this session; no structural rule registered yet'
NA = {}

def main():
    props = [json.loads(l)['id'] for l in open(os.path.join(V, 'properties.jsonl'))]
    checks = []
    for pid in props:
        if pid not in CLAIMED or pid in HOLD: continue
        tech, text, note, ref = CLAIMED[pid]
        if pid in ROUND5: text = text + ' Also: ' + ROUND5[pid]
        checks.append({
            'property_id': pid,
            'quick_cmd': 'python3 bin/vcheck %s --tier quick' % pid,
            'thorough_cmd': 'python3 bin/vcheck %s --tier thorough' % pid,
            'evidence_file': '/verif/evidence/%s.json' % pid,
            'replay_cmd_template': 'python3 bin/vcheck %s --replay {path}' % pid,
            'engine': 'jcsa',
            'level_claimed': {'category': 'other', 'text': text, 'design_ref': ref},
            'level_note': note,
            'technique': 'static analysis: ' + tech,
        })
    m = {
        'version': 1,
        'setup_cmd': 'python3 tools/setup.py',
        'hooks': {'guard': 'JSONCONS_VERIF_STATIC', 'enable': 'none needed: no hooks in /repo; checks parse /repo/include with clang 14 and the plugin',
                  'baseline_off_cmd': 'cmake --build /repo/_build -j16 && ctest --test-dir /repo/_build -j8 --timeout 900',
                  'source_commits': [], 'add_only': True},
        'engines': [{'name': 'jcsa', 'path': '/verif/jcsa', 'serves_properties': sorted(CLAIMED),
                     'kind_free_text': 'repository-specific static analysers (Python) over facts serialised from the type-checked clang 14 AST by the plugin in /verif/plugin; instantiation drivers in /verif/drivers'}],
        'checks': checks,
        'notes': 'Technique family: static analysis only. Exit 0 held / only known findings, 1 VIOLATION, 2 analysis broken. See DESIGN.md.',
        'not_applicable': [{'property_id': p, 'reason': NA.get(p, NOT_YET)} for p in props if p not in CLAIMED or p in HOLD],
    }
    with open(os.path.join(V, 'MANIFEST.json'), 'w') as fh:
        json.dump(m, fh, indent=1)
        fh.write('\n')

if __name__ == '__main__':
    main()
