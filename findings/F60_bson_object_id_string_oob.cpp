#include <jsoncons/json.hpp>
#include <jsoncons_ext/bson/bson.hpp>
#include <iostream>
using namespace jsoncons;
int main() {
    std::vector<uint8_t> out;
    bson::bson_bytes_encoder enc(out);
    std::error_code ec;
    enc.begin_object();
    enc.key("_id");
    std::string* s = new std::string("abc");          // heap string: ASan sees the read past its end
    enc.string_value(*s, semantic_tag::id, ser_context(), ec);
    std::cout << "ec=" << ec.message() << "\n";
    if (!ec) { enc.end_object(); enc.flush(); std::cout << out.size() << " bytes\n"; }
    delete s;
}
