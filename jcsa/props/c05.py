"""C05 No input or option can make a decoder, compiler or encoder misbehave - per-site safety obligations."""
import re
from .. import frontend as F, ast as A, cfg as C, util as U, guards as G, peval as P

EXPLANATION = ('Per-site safety obligations over all of include/: (R05.1) every snprintf result used as a length is bounded by the buffer '
               'size, statically (format and constant precision) or by a dominating upper-bound test; (R05.3) std::basic_regex '
               'constructions from run-time patterns sit inside a try with a catch that converts std::regex_error; (R05.5) slice loops '
               'whose induction variable advances by a run-time step guard the addition against overflow and index the array only under '
               'a bound test; (R05.6) cursor-bounds typestate of the character scanners; (R05.7) stack-depth typestate of the push-down '
               'expression compilers; further rules under coverage.rules.')
NOT_DECIDED = 'termination, absence of all undefined behaviour, leaks in general, assertion freedom (whole-program claims)'

def parent_map(root):
    pm = {}
    stack = [root]
    while stack:
        x = stack.pop()
        for c in A.children(x):
            pm[id(c)] = x
            stack.append(c)
    return pm

def enclosing(pm, node, kind):
    cur = pm.get(id(node))
    while cur is not None:
        if cur.get('k') == kind: return cur
        cur = pm.get(id(cur))
    return None

def local_constant(fn, e):
    """Value of a local variable that is initialised with a constant and never written again in the function."""
    s0 = A.strip(e, casts=True)
    if s0 is None or s0.get('k') != 'DeclRefExpr' or s0.get('dk') != 'Var': return None
    vid = s0.get('id'); val = None
    for x in A.walk(fn['body']):
        if x.get('k') == 'VarDecl' and x.get('id') == vid:
            val = A.const(x.get('init'))
        if x.get('k') in ('BinaryOperator', 'CompoundAssignOperator') and x.get('op', '').endswith('=') and x.get('op') not in ('==', '!=', '<=', '>='):
            l = A.strip(x.get('lhs'))
            if l is not None and l.get('id') == vid: return None
        if x.get('k') == 'UnaryOperator' and x.get('op') in ('++', '--', '&'):
            l = A.strip(x.get('sub'))
            if l is not None and l.get('id') == vid: return None
    return val

# ---------------------------------------------------------------------------------------------------
def r05_1(chk, facts):
    chk.rule('R05.1', 'snprintf: the returned length is used to read the buffer only if it is bounded by the buffer size - either the '
                      'format/precision make the output statically shorter than the buffer, or an upper-bound comparison with the buffer '
                      'size dominates the use', floor=6)
    fns = [f for f in facts.functions if f.get('body') is not None and f['file'].endswith('write_number.hpp')]
    inst_lines = set((f['l'], f['n']) for f in fns if not f.get('dep'))
    seen = set()
    n = 0
    for fn in fns:
        if fn.get('dep') and (fn['l'], fn['n']) in inst_lines: continue
        key = (fn['l'], fn['n'])
        if key in seen: continue
        calls = [c for c in A.walk_no_lambda(fn['body']) if c.get('k') == 'CallExpr' and A.callee_name(c) == 'snprintf']
        if not calls: continue
        seen.add(key)
        chk.analysed(fn)
        g = C.CFG(fn['body'])
        for i, c in enumerate(calls):
            n += 1
            args = c.get('args') or []
            N = A.const(args[1]) if len(args) > 1 else None
            fmt = ''
            for x in A.walk(args[2]) if len(args) > 2 else []:
                if x.get('k') == 'StringLiteral': fmt = x.get('s', '')
            prec = A.const(args[3]) if len(args) > 3 and '.*' in fmt else None
            if prec is None and len(args) > 3 and '.*' in fmt:
                prec = local_constant(fn, args[3])
            fmt_dynamic = not fmt and len(args) > 2
            site = U.site(fn, 'snprintf#%d fmt=%s' % (i + 1, fmt))
            facts_ = {'function': fn['q'], 'line': c.get('l'), 'buffer_size': N, 'format': fmt, 'precision': prec if prec is not None else (A.text(args[3])[:30] if len(args) > 3 else None)}
            Ntext = A.text(A.strip(args[1], casts=True)) if len(args) > 1 and N is None else None
            conv = fmt.strip()[-1:] if fmt else ''
            if not fmt and len(args) > 2 and (A.strip(args[2], casts=True) or {}).get('dk') == 'ParmVar':
                # the format is a parameter: every caller in the file passes a string literal -> the bound must hold for each of them
                pid = A.strip(args[2], casts=True).get('id')
                pos = next((j for j, p_ in enumerate(fn['params']) if p_['id'] == pid), None)
                lits = []; unknown = pos is None
                for caller in fns:
                    for cc in A.walk_no_lambda(caller['body']):
                        if not (A.is_call(cc) and A.callee_name(cc) == fn['n']): continue
                        cal = facts.callee(caller, cc)
                        if cal is not None and (cal['file'], cal['l']) != (fn['file'], fn['l']): continue
                        ca = cc.get('args') or []
                        lit = [x.get('s', '') for x in A.walk(ca[pos])] if pos is not None and pos < len(ca) else []
                        lit = [x for x in lit if x]
                        if lit: lits.append(lit[0])
                        else: unknown = True
                lits = sorted(set(lits))
                if lits and not unknown and '.*' in ''.join(lits):
                    if prec is None and len(args) > 3: prec = A.const(args[3]) if A.const(args[3]) is not None else local_constant(fn, args[3])
                    convs = set(x.strip()[-1:] for x in lits)
                    if all('.*' in x for x in lits) and N is not None and prec is not None and prec >= 0:
                        worst = max((prec + 10) if cv in 'eEgG' else (311 + prec) if cv in 'fF' else 10**9 for cv in convs)
                        if worst < N:
                            chk.ok('R05.1', site, dict(facts_, format='|'.join(lits), verdict='statically bounded for every format passed by the callers: at most %d characters' % worst)); continue
            if N is not None and conv in 'eEgG' and prec is not None and 0 <= prec and prec + 10 < N:
                chk.ok('R05.1', site, dict(facts_, verdict='statically bounded: at most %d characters' % (prec + 10))); continue
            if N is not None and conv in 'fF' and prec is not None and 0 <= prec and 311 + prec < N:
                chk.ok('R05.1', site, dict(facts_, verdict='statically bounded: at most %d characters (309 integer digits of DBL_MAX)' % (311 + prec))); continue
            # which variable receives the length?
            node = g.node_of(c)
            lvar = None
            if node is not None and isinstance(node.ast, dict):
                if node.ast.get('k') == 'DeclStmt':
                    for d in node.ast.get('decls') or []:
                        if any(y is c for y in A.walk(d.get('init'))): lvar = d.get('n')
                else:
                    am = U.assigned_member(node.ast)
                    if am: lvar = am[0]
            if lvar is None:
                chk.fail('R05.1', site, fn['file'], c.get('l'), 'snprintf result is not stored in a variable that can be tracked', facts_, fn['q']); continue
            # uses of lvar as call argument reachable from the snprintf without reassignment
            reach = g.reachable_from(node)
            bad = None
            for u in g.rpo:
                if u.id not in reach or u is node or u.kind not in ('stmt', 'return', 'cond'): continue
                if not isinstance(u.ast, dict): continue
                uses = [call for call in A.calls_in(u.ast) if A.callee_name(call) != 'snprintf' and
                        any(A.ref_name(a) == lvar for a in (call.get('args') or []))]
                if not uses: continue
                # another snprintf assigning lvar between? (the later one has its own obligation): require the guard relative to the nearest
                later = [m for m in g.rpo if m is not node and m.id in reach and isinstance(m.ast, dict) and m.kind == 'stmt' and
                         any(A.callee_name(z) == 'snprintf' for z in A.calls_in(m.ast)) and g.dominates(m, u)]
                if later: continue
                ok = False
                for cond_ast, label, edge in g.guards(u):
                    if not isinstance(label, bool): continue
                    if not g.dominates(node, edge): continue
                    cmp_ = G.comparison(cond_ast)
                    if not cmp_: continue
                    op, l, r = cmp_
                    if N is None:
                        # dynamic buffer size: the bound must be the same expression that was passed to snprintf
                        lt, rt = A.text(A.strip(l, casts=True)), A.text(A.strip(r, casts=True))
                        if A.ref_name(l) == lvar and rt == Ntext: pass
                        elif A.ref_name(r) == lvar and lt == Ntext: op = G.FLIP[op]
                        else: continue
                        if not label: op = G.NEG[op]
                        if op == '<': ok = True
                        continue
                    if A.ref_name(l) == lvar and A.const(r) is not None: K = A.const(r)
                    elif A.ref_name(r) == lvar and A.const(l) is not None: K = A.const(l); op = G.FLIP[op]
                    else: continue
                    if not label: op = G.NEG[op]
                    ub = {'<': K - 1, '<=': K}.get(op)
                    if ub is not None and ub <= N - 1: ok = True
                if not ok:
                    bad = (u, uses[0]); break
            if bad:
                chk.fail('R05.1', site, fn['file'], c.get('l'),
                         'snprintf(%s, %s, "%s", ...) can return more than the buffer holds; its result `%s` is used as a length in `%s` with no upper-bound test' % (
                             A.ref_name(args[0]) or A.text(args[0])[:20], N if N is not None else Ntext, fmt, lvar, A.text(bad[1])[:60]), dict(facts_, use_line=bad[1].get('l')), fn['q'])
            else:
                chk.ok('R05.1', site, dict(facts_, verdict='upper-bound test dominates every use'))
    chk.require(n >= 6, 'R05.1: only %d snprintf sites found' % n)

# ---------------------------------------------------------------------------------------------------
REGEX_CATCH_OK = ('regex_error', 'std::exception', 'exception')

def r05_3(chk, tier):
    chk.rule('R05.3', 'std::basic_regex constructed from a run-time pattern is inside a try block whose handlers catch (...) or '
                      'std::regex_error/std::exception (a foreign exception type must not escape the compilers)', floor=4)
    n = 0
    for unit in ('jsonschema', 'jsonpath'):
        facts = F.load([unit], tier)
        if unit not in chk.units: chk.units.append(unit)
        seen = set()
        inst = set((f['file'], f['l']) for f in facts.functions if not f.get('dep'))
        for fn in facts.functions:
            if fn.get('body') is None: continue
            if fn.get('dep') and (fn['file'], fn['l']) in inst: continue
            if (fn['file'], fn['l']) in seen: continue
            ctors = []
            for x in A.walk(fn['body']):
                if x.get('k') in ('CXXConstructExpr', 'CXXTemporaryObjectExpr', 'CXXUnresolvedConstructExpr', 'CXXFunctionalCastExpr') :
                    t = fn['_types'][x['t'] - 1] if x.get('t') else ''
                    if 'basic_regex<' in t and (x.get('args') or x.get('c') or x.get('sub')):
                        # skip copy/move constructions (single argument of regex type)
                        args = x.get('args') or x.get('c') or [x.get('sub')]
                        at = [fn['_types'][a['t'] - 1] if a and a.get('t') else '' for a in args]
                        if len(args) == 1 and 'basic_regex<' in at[0]: continue
                        if x.get('k') == 'CXXFunctionalCastExpr' and any(y.get('k') in ('CXXConstructExpr', 'CXXTemporaryObjectExpr') for y in A.walk(x.get('sub'))): continue
                        ctors.append(x)
                if x.get('k') == 'DeclStmt':
                    for d in x.get('decls') or []:
                        t = fn['_types'][d['t'] - 1] if d.get('t') else ''
                        if 'basic_regex<' in t and d.get('init') is not None and d['init'].get('k') in ('ParenListExpr', 'InitListExpr'):
                            ctors.append(d['init'])
            if not ctors: continue
            seen.add((fn['file'], fn['l']))
            chk.analysed(fn)
            pm = parent_map(fn['body'])
            for i, x in enumerate(ctors):
                n += 1
                site = U.site(fn, 'regex#%d' % (i + 1))
                tr = enclosing(pm, x, 'CXXTryStmt')
                ok = False
                # the constructor must be in the try *body*, not in a handler
                while tr is not None and not ok:
                    inbody = any(y is x for y in A.walk(tr.get('body')))
                    if inbody:
                        for h in tr.get('handlers') or []:
                            ct = h.get('ct')
                            tn = fn['_types'][ct - 1] if ct else '...'
                            if ct == 0 or any(w in tn for w in REGEX_CATCH_OK): ok = True
                    tr = enclosing(pm, tr, 'CXXTryStmt')
                facts_ = {'function': fn['q'], 'line': x.get('l'), 'expr': A.text(x)[:80]}
                if ok: chk.ok('R05.3', site, dict(facts_, verdict='inside try with a converting handler'))
                else:
                    chk.fail('R05.3', site, fn['file'], x.get('l'), 'std::basic_regex is constructed from a run-time pattern outside any try/catch: '
                             'std::regex_error escapes %s' % fn['n'], facts_, fn['q'])
    chk.require(n >= 4, 'R05.3: only %d regex construction sites found' % n)

# ---------------------------------------------------------------------------------------------------
def r05_5(chk, tier):
    chk.rule('R05.5', 'slice loops: a for-loop whose induction variable advances by a run-time signed step either bounds the step/guards the '
                      'addition, and every array access indexed by the induction variable is under an index-bound test in both step-sign '
                      'branches', floor=2)
    n = 0
    for unit, files in (('jsonpath', ('jsonpath_selector.hpp',)), ('jmespath', ('jmespath.hpp',))):
        facts = F.load([unit], tier)
        if unit not in chk.units: chk.units.append(unit)
        seen = set()
        for fn in facts.functions:
            if fn.get('dep') or fn.get('body') is None or not fn['file'].endswith(files): continue
            loops = []
            for x in A.walk_no_lambda(fn['body']):
                if x.get('k') == 'ForStmt' and x.get('inc') is not None:
                    inc = A.strip(x['inc'])
                    if inc is not None and inc.get('k') == 'CompoundAssignOperator' and inc.get('op') in ('+=', '-='):
                        if A.const(inc.get('rhs')) is None:
                            loops.append(x)
            if not loops: continue
            k = (fn['file'], fn['l'])
            if k in seen: continue
            seen.add(k)
            chk.analysed(fn)
            g = C.CFG(fn['body'])
            for i, lp in enumerate(loops):
                n += 1
                inc = A.strip(lp['inc'])
                ivar = A.ref_name(inc.get('lhs')); step = A.ref_name(inc.get('rhs')) or A.text(inc.get('rhs'))
                site = U.site(fn, 'loop#%d %s%s%s' % (i + 1, ivar, inc.get('op'), step))
                # (1) overflow guard: the loop condition or a dominating test bounds ivar against (limit - step), or the step is clamped
                ok_over = False
                inc_node = g.node_of(lp['inc'])
                for cond_ast, label, edge in (g.guards(inc_node) if inc_node else []):
                    txt = A.text(cond_ast)
                    if step in txt and re.search(r'(max|min|limit|size)', txt): ok_over = True
                    cmp_ = G.comparison(cond_ast)
                    if cmp_ and (G.mentions(cmp_[1], {step}) or G.mentions(cmp_[2], {step})) and (G.mentions(cmp_[1], {ivar}) or G.mentions(cmp_[2], {ivar})):
                        ok_over = True
                # clamp before the loop: `if (step CMP bound) step = bound'` whose test dominates the loop
                for nd in g.rpo:
                    if nd.kind == 'cond' and inc_node is not None and g.dominates(nd, inc_node):
                        cmp_ = G.comparison(nd.ast)
                        # a clamp joins back: both outcomes of the test flow into the loop
                        if cmp_ and (A.ref_name(cmp_[1]) == step or A.ref_name(cmp_[2]) == step) and cmp_[0] in ('<', '>', '<=', '>=') and \
                           all(g.can_reach(e2, [inc_node]) for e2 in nd.succ):
                            for e2 in nd.succ:
                                for m in G.region_of_edge(g, e2):
                                    if m.kind == 'stmt':
                                        am = U.assigned_member(m.ast)
                                        if am and am[0] == step and not g.dominates(m, inc_node): ok_over = True
                # clamp before the loop: an assignment step = min/max(...) dominating the loop
                for nd in g.rpo:
                    if nd.kind == 'stmt' and inc_node is not None and g.dominates(nd, inc_node):
                        am = U.assigned_member(nd.ast)
                        if am and am[0] == step and any(A.callee_name(c) in ('min', 'max', 'clamp') for c in A.calls_in(am[1])): ok_over = True
                # (2) index guard on element access inside the body
                ok_idx = True; bad_access = None
                for x in A.walk_no_lambda(lp.get('body')):
                    if (x.get('k') == 'CXXOperatorCallExpr' and x.get('oop') == '[]') or x.get('k') == 'ArraySubscriptExpr':
                        idx = (x.get('args') or x.get('c') or [None, None])[1] if (x.get('args') or x.get('c')) else None
                        if idx is None: continue
                        names = {y.get('n') for y in A.walk(idx) if y.get('k') == 'DeclRefExpr'}
                        # index derived from ivar (directly or through a local initialised from it)
                        derived = {ivar}
                        for d in A.walk_no_lambda(lp.get('body')):
                            if d.get('k') == 'VarDecl' and d.get('init') is not None and any(y.get('n') in derived for y in A.walk(d['init']) if y.get('k') == 'DeclRefExpr'):
                                derived.add(d.get('n'))
                        if not (names & derived): continue
                        nd = g.node_of(x)
                        guarded = False
                        for cond_ast, label, edge in (g.guards(nd) if nd else []):
                            cmp_ = G.comparison(cond_ast)
                            if cmp_ and (G.mentions(cmp_[1], derived) or G.mentions(cmp_[2], derived)) and \
                               any(A.callee_name(c) == 'size' for c in A.calls_in(cond_ast)) and edge is not None and lp.get('body') is not None and \
                               any(y is A.strip(cond_ast) or True for y in [0]):
                                # the test must be inside the loop body (the loop condition itself is on a value that may have wrapped)
                                if any(z is A.strip(cond_ast) for z in A.walk_no_lambda(lp.get('body'))): guarded = True
                        if not guarded:
                            ok_idx = False; bad_access = x
                facts_ = {'function': fn['q'], 'line': lp.get('l'), 'induction': ivar, 'step': step, 'overflow_guard': ok_over, 'index_guard': ok_idx}
                # with the step bounded the loop condition itself bounds the index (i stays within [start, end))
                if ok_over:
                    chk.ok('R05.5', site, facts_)
                elif not ok_over:
                    chk.fail('R05.5', site + ' overflow', fn['file'], lp['inc'].get('l'),
                             '`%s %s %s` with an unbounded run-time step can overflow int64 (step INT64_MAX): signed overflow%s' % (
                                 ivar, inc.get('op'), step, '' if ok_idx else ', then `%s` indexes out of bounds' % A.text(bad_access)[:40]), facts_, fn['q'])
                else:
                    chk.fail('R05.5', site + ' index', fn['file'], bad_access.get('l'),
                             'element access `%s` by the induction variable has no size test inside the loop' % A.text(bad_access)[:50], facts_, fn['q'])
    chk.require(n >= 2, 'R05.5: only %d slice loops found' % n)


def enum_of_type(enums, tn):
    return enums.get(tn.replace('const ', '').replace(' &', '').strip())

def value_set_of_operand(facts, enums, fn, g, swnode):
    """Value set of a switch operand that is not bounded by labels alone: (set, how) or (None, why-not)."""
    from .. import peval as P
    inner = A.strip(swnode.ast, casts=True)
    if inner is None: return None, 'no operand'
    # (a) local variable: all values ever assigned to it
    if inner.get('k') == 'DeclRefExpr' and inner.get('dk') == 'Var':
        vid = inner.get('id'); vals = set(); srcs = []
        for x in A.walk_no_lambda(fn['body']):
            if x.get('k') == 'VarDecl' and x.get('id') == vid and x.get('init') is not None:
                srcs.append(x['init'])
            am = None
            if x.get('k') == 'BinaryOperator' and x.get('op') == '=':
                l = A.strip(x.get('lhs'))
                if l is not None and l.get('id') == vid: srcs.append(x.get('rhs'))
            if x.get('k') == 'UnaryOperator' and x.get('op') in ('&', '++', '--'):
                l = A.strip(x.get('sub'))
                if l is not None and l.get('id') == vid: return None, 'address taken or incremented'
        if not srcs: return None, 'local without initialiser'
        for e in srcs:
            v = A.const(e)
            if v is not None: vals.add(v); continue
            call = A.strip(e, casts=True)
            if call is not None and call.get('k') == 'CallExpr':
                rs, why = return_value_set(facts, enums, fn, call)
                if rs is None: return None, why
                vals |= rs; continue
            return None, 'assigned from `%s`' % A.text(e)[:40]
        return vals, 'values assigned to the local'
    # (b) field of a record: all values the field is ever given (constructor initialisers and assignments in the unit)
    if inner.get('k') == 'MemberExpr' and inner.get('dk') == 'Field':
        fq = inner.get('q'); fname = inner.get('n'); rec = fq.rsplit('::', 1)[0]
        vals = set(); n_src = 0
        for f2 in facts.functions:
            if f2.get('dep') or f2['_unit'] != fn['_unit']: continue
            if f2.get('cls') == rec and f2.get('fk') == 'CXXConstructor':
                for ini in f2.get('inits') or []:
                    if ini.get('m') == fname:
                        n_src += 1
                        v = A.const(ini.get('init'))
                        if v is None:
                            for y in A.walk(ini.get('init')):
                                if y.get('k') == 'DeclRefExpr' and y.get('dk') == 'EnumConstant': v = y.get('v')
                        if v is not None: vals.add(v); continue
                        cp = A.strip(ini.get('init'), casts=True)
                        if cp is not None and cp.get('k') == 'MemberExpr' and cp.get('q') == fq: continue   # copy of the same field
                        return None, 'constructor initialises %s from `%s`' % (fname, A.text(ini.get('init'))[:40])
            if f2.get('body') is None: continue
            for x in A.walk(f2['body']):
                if x.get('k') == 'BinaryOperator' and x.get('op') == '=':
                    l = A.strip(x.get('lhs'))
                    if l is not None and l.get('k') == 'MemberExpr' and l.get('q') == fq:
                        n_src += 1
                        v = A.const(x.get('rhs'))
                        if v is not None: vals.add(v); continue
                        cp = A.strip(x.get('rhs'), casts=True)
                        if cp is not None and cp.get('k') == 'MemberExpr' and cp.get('q') == fq: continue
                        return None, 'field assigned from `%s`' % A.text(x.get('rhs'))[:40]
        if not n_src: return None, 'no initialiser of field %s found' % fname
        return vals, 'values given to field %s by %d initialisers/assignments' % (fname, n_src)
    return None, 'operand `%s` is neither a local nor a field' % A.text(inner)[:40]

def return_value_set(facts, enums, fn, call):
    """Set of values a small pure function can return for all enumerator combinations of its non-constant enum arguments."""
    from .. import peval as P
    import itertools
    callee = facts.callee(fn, call)
    if callee is None or callee.get('body') is None: return None, 'callee of `%s` not available' % A.text(call)[:40]
    args = call.get('args') or []
    doms = []
    for p, a in zip(callee['params'], args):
        v = A.const(a)
        if v is not None: doms.append([v]); continue
        en = enum_of_type(enums, callee['_types'][p['t'] - 1])
        if en is None: return None, 'argument `%s` of %s is neither constant nor of an enum type' % (A.text(a)[:30], callee['n'])
        doms.append([val for nm, val in en['values']])
    total = 1
    for d in doms: total *= len(d)
    if total > 4096: return None, 'too many argument combinations'
    out = set()
    for combo in itertools.product(*doms):
        pe = P.PEval(facts, callee, max_depth=1)
        try:
            pe.exec_body(callee, {p['id']: v for p, v in zip(callee['params'], combo)})
        except P.Stop:
            return None, 'callee too large'
        rets = [e for e in pe.effects if e.kind == 'return']
        vals = set(e.extra.get('value') for e in rets if not e.guards)
        if len(vals) != 1 or None in vals or any(e.guards for e in rets): return None, '%s returns an undetermined value for %s' % (callee['n'], combo)
        out |= vals
    return out, 'return values of %s over %d argument combinations' % (callee['n'], total)

def cbor_tag_case_fact(facts, fn, g, node):
    """Supporting fact of the table entry `case semantic_tag: unreachable` in cbor read_item: read_tags() dominates the switch and
    its loop `while (major_type == semantic_tag)` has no break, so on return the next item is not a tag."""
    rt = None
    for n in g.rpo:
        if n.kind == 'stmt' and any(A.callee_name(c) == 'read_tags' for c in A.calls_in(n.ast)) and g.dominates(n, node): rt = n
    if rt is None: return 'read_tags() does not dominate the switch'
    callee = None
    for c in A.calls_in(rt.ast):
        if A.callee_name(c) == 'read_tags': callee = facts.callee(fn, c)
    if callee is None: return 'read_tags body not available'
    for x in A.walk(callee['body']):
        if x.get('k') == 'WhileStmt':
            cmp_ = G.comparison(x.get('cond'))
            if cmp_ and cmp_[0] == '==' and any(U.enum_const_name(s_) == 'semantic_tag' for s_ in (cmp_[1], cmp_[2])):
                def loop_breaks(st):
                    # break statements that leave *this* loop (not those of nested switches/loops)
                    if st is None: return False
                    k_ = st.get('k')
                    if k_ == 'BreakStmt': return True
                    if k_ in ('SwitchStmt', 'WhileStmt', 'ForStmt', 'DoStmt', 'CXXForRangeStmt', 'LambdaExpr'): return False
                    return any(loop_breaks(c_) for c_ in A.children(st))
                if loop_breaks(x.get('body')): return 'tag loop in read_tags has a break'
                return None
    return 'read_tags has no `while (major_type == semantic_tag)` loop'

def days_in_month_fact(facts, callee_fn):
    """Supporting fact of the table entry `days_in_month default`: in every caller, the only transitions into state mday are
    guarded by month >= 1 && month <= 12, month is written only in state month, and the call is made only in state mday."""
    for f2 in facts.functions:
        if f2.get('dep') or f2.get('body') is None or f2['_unit'] != callee_fn['_unit']: continue
        calls = [c for c in A.walk_no_lambda(f2['body']) if c.get('k') == 'CallExpr' and A.callee_name(c) == 'days_in_month']
        if not calls: continue
        g = C.CFG(f2['body'])
        def guards_txt(n): return [(A.text(a), lab) for a, lab, e in g.guards(n)]
        for n in g.rpo:
            if n.kind != 'stmt': continue
            am = U.assigned_member(n.ast)
            if am and am[0] == 'state' and U.enum_const_name(am[1]) == 'mday':
                gt = guards_txt(n)
                if not (('month >= 1', True) in gt and ('month <= 12', True) in gt):
                    return '%s:%d: transition to state mday is not guarded by month >= 1 && month <= 12' % (f2['file'], n.line)
            if am and am[0] == 'month':
                ok = any(e.kind == 'edge' and e.src.kind == 'switch' and e.label[0] == 'case' for a, lab, e in g.guards(n))
                # must be under the `case state_t::month` label: the case value equals the enumerator `month`
                if not ok: return '%s:%d: month is written outside the state switch' % (f2['file'], n.line)
        for c in calls:
            n = g.node_of(c)
            if n is None: return 'call not in CFG'
            in_mday = False
            # short-circuit guard inside one expression: `state == mday && ... days_in_month(...)`
            pm = parent_map(f2['body'])
            cur = c; par = pm.get(id(cur))
            while par is not None and par.get('k') not in ('CompoundStmt',):
                if par.get('k') == 'BinaryOperator' and par.get('op') == '&&' and any(y is cur for y in A.walk(par.get('rhs'))):
                    lt = A.text(par.get('lhs'))
                    if 'state == ' in lt and 'mday' in lt and '||' not in lt: in_mday = True
                cur = par; par = pm.get(id(par))
            for a, lab, e in g.guards(n):
                if e.src.kind == 'switch' and e.label[0] == 'case': in_mday = True
                if lab is True and 'state == ' in A.text(a) and 'mday' in A.text(a): in_mday = True
            if not in_mday: return '%s:%d: days_in_month called outside state mday' % (f2['file'], c.get('l'))
    return None

# ---------------------------------------------------------------------------------------------------
UNREACH_UNITS = ('core', 'cbor', 'msgpack', 'ubjson', 'bson', 'csv', 'toon', 'jsonpath', 'jmespath', 'jsonschema', 'patch')

def r05_2(chk, tier):
    chk.rule('R05.2', 'every __builtin_unreachable() is unreachable: it is structurally unreachable (after an infinite loop / exhaustive returns), '
                      'or it is the default of a switch whose labels cover every enumerator of the operand enum type, or the value set of the '
                      'operand (from dominating tests) is covered by the labels; basic_json storage-kind switches are decided by C09/R09.2', floor=8)
    seen = set(); n = 0
    for unit in UNREACH_UNITS:
        facts = F.load([unit], tier)
        if unit not in chk.units: chk.units.append(unit)
        enums = {e['q']: e for e in facts.enums}
        for fn in facts.functions:
            if fn.get('dep') or fn.get('body') is None: continue
            if not fn['file'].startswith('include/'): continue
            us = [c for c in A.walk_no_lambda(fn['body']) if c.get('k') == 'CallExpr' and A.callee_name(c) == '__builtin_unreachable']
            if not us: continue
            if A.strip_targs(fn.get('cls') or '') == 'jsoncons::basic_json' and any(
                    A.callee_name(x) == 'storage_kind' for x in A.walk(fn['body']) if x.get('k') == 'CXXMemberCallExpr'):
                continue
            chk.analysed(fn)
            g = C.CFG(fn['body'])
            for i, u in enumerate(us):
                key = (fn['file'], u.get('l'))
                site = U.site(fn, 'unreachable#%d' % (i + 1))
                node = g.node_of(u)
                facts_ = {'function': fn['q'], 'line': u.get('l')}
                if node is None or node.id not in g.reach:
                    if key not in seen: n += 1; seen.add(key)
                    chk.ok('R05.2', site, dict(facts_, verdict='structurally unreachable')); continue
                # governing switch
                sw = None
                for d in g.dominators(node):
                    if d.kind == 'edge' and d.src is not None and d.src.kind == 'switch':
                        sw = d; break
                    if d.kind == 'edge' and d.src is not None and d.src.kind == 'cond':
                        break
                if key not in seen: n += 1; seen.add(key)
                if sw is not None and sw.label[0] == 'case' and fn['n'] == 'read_item' and 'cbor_parser' in fn['file']:
                    why = cbor_tag_case_fact(facts, fn, g, sw.src)
                    if why is None: chk.ok('R05.2', site, dict(facts_, verdict='table entry: tags are consumed by read_tags() before dispatch (loop without break dominates)'))
                    else: chk.fail('R05.2', site, fn['file'], u.get('l'), 'table entry cbor read_item/semantic_tag: supporting fact fails: ' + why, facts_, fn['q'])
                    continue
                if sw is None or sw.label[0] != 'default':
                    chk.fail('R05.2', site, fn['file'], u.get('l'), '__builtin_unreachable() in %s is reachable and is not the default of a switch' % fn['n'], facts_, fn['q']); continue
                if fn['n'] == 'days_in_month':
                    why = days_in_month_fact(facts, fn)
                    if why is None: chk.ok('R05.2', site, dict(facts_, verdict='table entry: every caller reaches state mday only under month >= 1 && month <= 12'))
                    else: chk.fail('R05.2', site, fn['file'], u.get('l'), 'table entry days_in_month: supporting fact fails: ' + why, facts_, fn['q'])
                    continue
                op = sw.src.ast
                tn = fn['_types'][op['t'] - 1] if op.get('t') else ''
                # integral promotions hide the enum type: look through casts
                inner = A.strip(op, casts=True)
                tn2 = fn['_types'][inner['t'] - 1] if inner is not None and inner.get('t') else tn
                en = enums.get(tn2.replace('const ', '')) or enums.get(tn.replace('const ', ''))
                covered = sw.label[1]
                if en is not None:
                    missing = [nm for nm, v in en['values'] if not any(lo <= v <= hi for lo, hi in covered)]
                    if not missing:
                        chk.ok('R05.2', site, dict(facts_, verdict='labels cover all %d enumerators of %s' % (len(en['values']), en['q'])))
                        continue
                    vs, how = value_set_of_operand(facts, enums, fn, g, sw.src)
                    if vs is not None:
                        miss2 = sorted(v for v in vs if not any(lo <= v <= hi for lo, hi in covered))
                        if not miss2:
                            chk.ok('R05.2', site, dict(facts_, verdict='operand value set %s (%s) is covered by the labels' % (sorted(vs), how)))
                        else:
                            names = [nm for nm, v in en['values'] if v in miss2]
                            chk.fail('R05.2', site + ' missing=' + ','.join(names)[:60], fn['file'], u.get('l'),
                                     '__builtin_unreachable() default of a switch over %s: the operand can be %s (%s) and has no case' % (en['q'], ', '.join(names), how),
                                     dict(facts_, missing=names), fn['q'])
                        continue
                    else:
                        facts_ = dict(facts_, value_set_unknown=how)
                        # value set narrowed by an earlier switch/tests on the same operand text
                        chk.fail('R05.2', site + ' missing=' + ','.join(missing)[:60], fn['file'], u.get('l'),
                                 '__builtin_unreachable() is the default of a switch over %s that has no case for %s' % (en['q'], ', '.join(missing)[:100]),
                                 dict(facts_, missing=missing), fn['q'])
                    continue
                # non-enum operand: the value set must come from dominating range tests on the same expression
                optxt = A.text(inner)
                lo_b = None; hi_b = None
                for cond_ast, label, edge in g.guards(sw.src):
                    cmp_ = G.comparison(cond_ast)
                    if not cmp_ or not isinstance(label, bool): continue
                    opx, l, r = cmp_
                    if A.text(A.strip(l, casts=True)) == optxt and A.const(r) is not None: K = A.const(r)
                    elif A.text(A.strip(r, casts=True)) == optxt and A.const(l) is not None: K = A.const(l); opx = G.FLIP[opx]
                    else: continue
                    if not label: opx = G.NEG[opx]
                    if opx == '<': hi_b = K - 1 if hi_b is None else min(hi_b, K - 1)
                    if opx == '<=': hi_b = K if hi_b is None else min(hi_b, K)
                    if opx == '>': lo_b = K + 1 if lo_b is None else max(lo_b, K + 1)
                    if opx == '>=': lo_b = K if lo_b is None else max(lo_b, K)
                if lo_b is not None and hi_b is not None:
                    missing = [v for v in range(lo_b, hi_b + 1) if not any(lo <= v <= hi for lo, hi in covered)]
                    if not missing:
                        chk.ok('R05.2', site, dict(facts_, verdict='operand in [%d,%d] by dominating tests; all values have a case' % (lo_b, hi_b))); continue
                    chk.fail('R05.2', site, fn['file'], u.get('l'), 'switch over `%s` in [%d,%d] has no case for %s' % (optxt, lo_b, hi_b, missing[:8]), facts_, fn['q']); continue
                chk.fail('R05.2', site + ' unbounded', fn['file'], u.get('l'),
                         '__builtin_unreachable() is the default of a switch over `%s` (%s) whose value set is not bounded by any dominating test' % (optxt[:40], tn2), facts_, fn['q'])
    chk.require(n >= 8, 'R05.2: only %d unreachable sites found' % n)

# ------------------------------------------------------------------------------------------------ R05.6 / R05.7
# The hand-written scanners that walk a raw character pointer towards an end pointer (frozen table: unit, header, functions or None = all).
SCANNERS = [
    ('core', 'jsoncons/json_parser.hpp', None),
    ('core', 'jsoncons/source.hpp', None),
    ('core', 'jsoncons/utility/unicode_traits.hpp', {'validate'}),
    ('csv', 'jsoncons_ext/csv/csv_parser.hpp', None),
    ('jsonpath', 'jsoncons_ext/jsonpath/jsonpath_parser.hpp', None),
    ('jsonpath', 'jsoncons_ext/jsonpath/json_location.hpp', None),
    ('jmespath', 'jsoncons_ext/jmespath/jmespath.hpp', None),
    ('patch', 'jsoncons_ext/jsonpointer/jsonpointer.hpp', {'parse'}),
    ('toon', 'jsoncons_ext/toon/toon_reader.hpp', {'unescape_string'}),
]
# One dereference the local rule cannot discharge and that is safe for a non-local reason (confirmed by reading):
# jmespath compile(), state expect_in_or_comma calls advance_past_space_character() and then reads *p_.  The state is only ever
# uncovered by rhs_expression popping itself on a character it does not handle, and rhs_expression handles (consumes) white space itself,
# so *p_ is never white space here, the call does not move p_, and the loop head has established p_ < input_end_.
CURSOR_EXEMPT = {('jmespath.hpp', 'compile', 'expect_in_or_comma')}

def r05_6(chk, tier, units=None, floor=250):
    from .. import ptrbounds as PB
    chk.rule('R05.6', 'cursor bounds: in the character scanners every dereference *p, *(p+k), p[k] of a cursor is reached only with a '
                      'dominating comparison against the end pointer that leaves at least k+1 characters since the last advance '
                      '(must-dataflow over the CFG, entry margins of helpers taken from all their call sites)', floor=floor)
    n = 0
    for unit, header, only in SCANNERS:
        if units is not None and unit not in units: continue
        facts = F.load([unit], tier)
        if unit not in chk.units: chk.units.append(unit)
        fns = {}
        for f in facts.functions:
            if f['file'].endswith(header) and f.get('body') is not None and not f.get('dep') and (only is None or f['n'] in only):
                fns.setdefault((f['file'], f['l']), f)
        chk.require(fns, 'R05.6: no function of %s in the facts' % header)
        res, names = PB.analyse_group(facts, list(fns.values()))
        if not names and only is not None:
            # the named scanner no longer walks raw pointers (e.g. it became a range-for over the input): nothing can be dereferenced
            # out of bounds; that is acceptable only if it still iterates over the input with a range-for
            rf = [f for f in fns.values() if any(x.get('k') == 'CXXForRangeStmt' for x in A.walk_no_lambda(f['body']))]
            if rf and not any(x.get('k') == 'UnaryOperator' and x.get('op') == '*' and 'char' in (f['_types'][x['t'] - 1] if x.get('t') else '')
                              and not A.ref_name(x.get('sub')).startswith('__')      # the implicit *__begin of the range-for itself
                              for f in fns.values() for x in A.walk_no_lambda(f['body'])):
                for f in rf:
                    n += 1; chk.analysed(f)
                    chk.ok('R05.6', U.site(f, 'range-for scanner (no raw cursor)'), {'function': f['q']})
                continue
        chk.require(names, 'R05.6: no cursor found in %s' % header)
        en = None
        for an in res:
            if not an.derefs: continue
            fn = an.fn
            chk.analysed(fn)
            bad = {}
            for node, name, need, have, line in an.reports:
                # named exemption: dominated by the case edge of the exempt state
                ex = False
                for (hf, fnm, state) in CURSOR_EXEMPT:
                    if fn['file'].endswith(hf) and fn['n'] == fnm:
                        for a, lab, e in an.g.guards(node):
                            if e.src is not None and e.src.kind == 'switch' and isinstance(lab, tuple) and lab[0] == 'case':
                                if en is None: en = U.enum_value_names(U.enum_by_suffix(facts, '::expr_state'))
                                if en.get(lab[1]) == state: ex = True
                if ex:
                    chk.note('R05.6: exempt site %s:%s (%s), see CURSOR_EXEMPT' % (fn['file'], line, name)); continue
                bad.setdefault((name, need), (have, line))
            n += an.derefs
            site = U.site(fn, 'cursor dereferences')
            if not bad:
                for i in range(an.derefs): chk.ok('R05.6', '%s #%d' % (site, i), {'function': fn['q'], 'dereferences': an.derefs, 'cursors': sorted(names)} if i == 0 else None)
            else:
                for i in range(an.derefs - len(bad)): chk.ok('R05.6', '%s #%d' % (site, i), None)
                for (name, need), (have, line) in sorted(bad.items(), key=lambda kv: kv[1][1]):
                    chk.fail('R05.6', U.site(fn, 'deref of %s needing %d' % (name, need)), fn['file'], line,
                             '%s: `%s` is dereferenced at offset %d here, but the comparisons that dominate this point guarantee only %d character(s) before the end pointer' % (
                                 fn['n'], name, need - 1, have), {'cursor': name, 'needed': need, 'established': have}, fn['q'])
    return n

# push-down expression compilers: (unit, header, function, stack variable)
PUSHDOWN = [
    ('jmespath', 'jsoncons_ext/jmespath/jmespath.hpp', 'compile', 'state_stack'),
    ('jsonpath', 'jsoncons_ext/jsonpath/jsonpath_parser.hpp', 'compile', 'state_stack_'),
]

def r05_7(chk, tier, units=None, floor=200):
    from .. import ptrbounds as PB
    chk.rule('R05.7', 'push-down parsers: every back()/pop_back() of the state stack of the JMESPath and JSONPath compilers is reached only '
                      'with a dominating non-emptiness fact (loop condition !empty(), size() > k) that pushes and pops since then have not used up', floor=floor)
    for unit, header, fname, stack in PUSHDOWN:
        if units is not None and unit not in units: continue
        facts = F.load([unit], tier)
        if unit not in chk.units: chk.units.append(unit)
        fns = {}
        for f in facts.functions:
            if f['file'].endswith(header) and f['n'] == fname and f.get('body') is not None and not f.get('dep'):
                fns.setdefault((f['file'], f['l']), f)
        chk.require(fns, 'R05.7: %s::%s not found' % (header, fname))
        tot = 0
        for fn in fns.values():
            an = PB.StackDepth(fn, fn['_types'], stack).run()
            if not an.uses: continue
            chk.analysed(fn)
            tot += an.uses
            bad = {}
            for node, nm, d, line in an.reports: bad.setdefault(line, nm)
            site = U.site(fn, stack)
            for i in range(an.uses - len(bad)): chk.ok('R05.7', '%s #%d' % (site, i), {'function': fn['q'], 'uses': an.uses} if i == 0 else None)
            for line, nm in sorted(bad.items()):
                # one violation record per function (same site key): the cause is a missing non-emptiness fact, the sites share it
                chk.fail('R05.7', U.site(fn, '%s non-empty' % stack), fn['file'], min(bad),
                         '%s: %s.%s() at line %s (and %d more uses) is reached with no dominating fact that the stack is non-empty: an input that pops the last state makes the next use undefined' % (
                             fn['n'], stack, bad[min(bad)], min(bad), len(bad) - 1), {'unguarded_uses': len(bad), 'first_lines': sorted(bad)[:10]}, fn['q'])
        chk.require(tot >= 50, 'R05.7: only %d stack uses found in %s' % (tot, header))

def r05_8(chk, tier):
    """Indices decoded from the input (taint sources of E7) that select an element of a container."""
    from .. import taint as T
    chk.rule('R05.8', 'input-derived index: an element access at(i)/[i] whose index comes from a decoded integer is dominated by the exact '
                      'bounds rejection against size() of the same container (i >= c.size() rejected, or i < c.size() required)', floor=1)
    n = 0
    for unit, hdr in (('cbor', 'cbor_parser.hpp'), ('msgpack', 'msgpack_parser.hpp'), ('ubjson', 'ubjson_parser.hpp'), ('bson', 'bson_parser.hpp')):
        facts = F.load([unit], tier)
        if unit not in chk.units: chk.units.append(unit)
        seen = set()
        for fn in facts.functions:
            if not fn['file'].endswith(hdr) or fn.get('body') is None or fn.get('dep') or (fn['file'], fn['l']) in seen: continue
            seen.add((fn['file'], fn['l']))
            tainted, _, _ = T.analyse(fn)
            if not tainted: continue
            g = None
            for x in A.walk_no_lambda(fn['body']):
                if x.get('k') not in A.CALLS: continue
                nm = A.callee_name(x)
                if x.get('k') == 'CXXOperatorCallExpr' and x.get('oop') == '[]': cont, idx = (x.get('args') or [None, None])[:2]
                elif x.get('k') == 'CXXMemberCallExpr' and nm == 'at' and x.get('args'): cont, idx = x.get('obj'), x['args'][0]
                else: continue
                if cont is None or idx is None or not T.mentions_taint(idx, tainted): continue
                ct = fn['_types'][(A.strip(cont, casts=True) or {}).get('t', 1) - 1]
                if 'std::vector<' not in ct and 'std::basic_string<' not in ct and 'std::array<' not in ct and 'std::deque<' not in ct: continue
                if g is None: g = C.CFG(fn['body']); chk.analysed(fn)
                nd = g.node_of(x)
                n += 1
                ctext = A.text(A.strip(cont, casts=True))
                ok = False; seen_tests = []
                # variables the index was converted from
                roots = set(y.get('id') for y in A.walk(idx) if y.get('k') == 'DeclRefExpr')
                for y in A.walk_no_lambda(fn['body']):
                    if y.get('k') == 'VarDecl' and y.get('id') in roots and y.get('init') is not None:
                        roots |= set(z.get('id') for z in A.walk(y['init']) if z.get('k') == 'DeclRefExpr' and z.get('id') in tainted)
                for a, lab, e in (g.guards(nd) if nd is not None else []):
                    cmp_ = G.comparison(a)
                    if not cmp_: continue
                    op, l, r = cmp_
                    for (q, sz, o) in ((l, r, op), (r, l, G.FLIP[op])):
                        qs = A.strip(q, casts=True); ss = A.strip(sz, casts=True)
                        if qs is None or ss is None or qs.get('k') != 'DeclRefExpr' or qs.get('id') not in roots: continue
                        if ss.get('k') != 'CXXMemberCallExpr' or A.callee_name(ss) != 'size' or A.text(A.strip(ss.get('obj'), casts=True)) != ctext: continue
                        seen_tests.append((o, bool(lab)))
                        if (o == '>=' and lab is False) or (o == '<' and lab is True): ok = True
                site = U.site(fn, 'index into %s' % ctext)
                if ok: chk.ok('R05.8', site, {'line': x.get('l'), 'tests': seen_tests})
                else: chk.fail('R05.8', site, fn['file'], x.get('l'), '%s: element %s of %s is selected by a value decoded from the input without the exact bounds rejection (dominating tests on it: %s)' % (
                    fn['n'], A.text(idx), ctext, seen_tests or 'none'), {'tests': seen_tests}, fn['q'])
    chk.require(n >= 1, 'R05.8: no input-derived index found in the binary parsers')

def r05_9(chk, tier):
    """CSV column cache: cached_events_[name_index_] only for a column that exists."""
    chk.rule('R05.9', 'csv m_columns_filter: every cached_events_[name_index_] access is dominated by `name_index_ < column_names_.size()`, or by a '
                      'test `c > 0` of a counter that is incremented only under that test (a row with more fields than columns must not index '
                      'past the cache)', floor=8)
    facts = F.load(['csv'], tier)
    if 'csv' not in chk.units: chk.units.append('csv')
    fns = [f for f in U.functions(facts, cls='m_columns_filter') if f.get('body') is not None]
    chk.require(fns, 'csv m_columns_filter not found')
    def in_bounds_guard(g, nd):
        for a, lab, e in g.guards(nd):
            c = G.comparison(a)
            if c and c[0] == '<' and lab is True and A.ref_name(c[1]) == 'name_index_' and any(A.callee_name(y) == 'size' for y in A.calls_in(c[2])): return True
            if c and c[0] == '>=' and lab is False and A.ref_name(c[1]) == 'name_index_' and any(A.callee_name(y) == 'size' for y in A.calls_in(c[2])): return True
        return False
    # counters incremented only under the bounds test
    good_ctr = {}; graphs = {}
    for fn in U.one_per_inst(fns):
        g = graphs[fn['id']] = C.CFG(fn['body'])
        for nd in g.rpo:
            if nd.kind not in ('stmt', 'cond') or not isinstance(nd.ast, dict): continue
            for x in A.walk_no_lambda(nd.ast):
                if x.get('k') == 'UnaryOperator' and x.get('op') == '++':
                    s2 = A.strip(x.get('sub'), casts=True)
                    if s2 is not None and s2.get('k') == 'MemberExpr' and s2.get('n') != 'name_index_':
                        good_ctr[s2['n']] = good_ctr.get(s2['n'], True) and in_bounds_guard(g, nd)
    n = 0
    for fn in U.one_per_inst(fns):
        g = graphs[fn['id']]
        k = 0
        for nd in g.rpo:
            if nd.kind not in ('stmt', 'cond') or not isinstance(nd.ast, dict): continue
            for x in A.walk_no_lambda(nd.ast):
                if x.get('k') == 'CXXOperatorCallExpr' and x.get('oop') == '[]' and len(x.get('args') or []) == 2 and A.ref_name(x['args'][0]) == 'cached_events_' and A.ref_name(x['args'][1]) == 'name_index_':
                    k += 1; n += 1
                    chk.analysed(fn)
                    site = U.site(fn, 'cached_events_[name_index_]#%d' % k)
                    ok = in_bounds_guard(g, nd)
                    via = None
                    if not ok:
                        for a, lab, e in g.guards(nd):
                            c = G.comparison(a)
                            if c and c[0] == '>' and lab is True and A.const(c[2]) == 0 and good_ctr.get(A.ref_name(c[1])): ok = True; via = A.ref_name(c[1])
                    if ok: chk.ok('R05.9', site, {'line': x.get('l'), 'via_counter': via} if k == 1 or via else None)
                    else: chk.fail('R05.9', site, fn['file'], x.get('l'), '%s: cached_events_[name_index_] at line %s is not protected by `name_index_ < column_names_.size()` (nor by a counter that only counts under it): a record with more fields than column names indexes past the cache' % (fn['n'], x.get('l')), None, fn['q'])
    chk.require(n >= 8, 'R05.9: only %d cache accesses found' % n)

def r05_10(chk, tier, units=('jsonpath', 'jmespath')):
    """Integer division / remainder with a divisor taken from the data."""
    chk.rule('R05.10', 'integer division in the expression evaluators: every integer `/` or `%` with a run-time divisor is dominated by a test that '
                       'the divisor is not zero (a filter such as `@.a % 0` must not trap)', floor=2)
    table = {'jsonpath': ('token_evaluator.hpp', 'jsonpath_selector.hpp', 'jsonpath_parser.hpp'), 'jmespath': ('jmespath.hpp',)}
    n = 0
    for unit in units:
        facts = F.load([unit], tier)
        if unit not in chk.units: chk.units.append(unit)
        seen = set()
        for fn in facts.functions:
            if fn.get('body') is None or fn.get('dep') or not fn['file'].endswith(table[unit]) or (fn['file'], fn['l']) in seen: continue
            divs = []
            for x in A.walk_no_lambda(fn['body']):
                if x.get('k') in ('BinaryOperator', 'CompoundAssignOperator') and x.get('op') in ('/', '%', '/=', '%=') and A.const(x.get('rhs')) is None:
                    t = fn['_types'][x['t'] - 1] if x.get('t') else ''
                    if t in ('double', 'float', 'long double') or not t: continue
                    divs.append(x)
            if not divs: continue
            seen.add((fn['file'], fn['l']))
            chk.analysed(fn)
            g = C.CFG(fn['body'])
            for i, x in enumerate(divs):
                n += 1
                nd = g.node_of(x)
                dtxt = A.text(A.strip(x.get('rhs'), casts=True))
                # the divisor itself, or the expression a divisor local was initialised from
                names = {dtxt}
                dn = A.ref_name(x.get('rhs'))
                ok = False
                for a, lab, e in (g.guards(nd) if nd is not None else []):
                    c = G.comparison(a)
                    if not c or A.const(c[2]) != 0: continue
                    lt = A.text(A.strip(c[1], casts=True))
                    if (lt in names or (dn and A.ref_name(c[1]) == dn)) and ((c[0] == '!=' and lab is True) or (c[0] == '==' and lab is False)): ok = True
                cls = A.strip_targs(fn.get('cls') or '').split('::')[-1]
                site = U.site(fn, 'integer %s #%d' % (x.get('op'), i + 1))
                if ok: chk.ok('R05.10', site, {'class': cls, 'line': x.get('l'), 'divisor': dtxt[:40]})
                else: chk.fail('R05.10', site, fn['file'], x.get('l'), '%s::%s: integer `%s %s` at line %s with no dominating `!= 0` test of the divisor: a zero in the document (or in the expression) raises SIGFPE' % (
                    cls, fn['n'], x.get('op'), dtxt[:40], x.get('l')), None, fn['q'])
    chk.require(n >= 2, 'R05.10: only %d integer divisions found in the evaluators' % n)

def r05_12(chk, tier, units=('core', 'csv', 'jsonpath', 'jmespath', 'patch', 'toon')):
    """Byte counts of the mem* functions."""
    chk.rule('R05.12', 'mem* byte counts: in every memcpy / memmove / memcmp whose operands are not plain bytes (wchar_t, a character type '
                       'parameter, words, whole objects) the size argument is a sizeof expression, a product with one, or a literal (fixed-width '
                       'punning); an element count passed as a byte count compares or copies a quarter of a wchar_t string', floor=40)
    def bytelike(t):
        t = t.replace('const ', '').replace('volatile ', '')
        if any(w in t for w in ('wchar_t', 'char16_t', 'char32_t', 'type-parameter', 'dependent', 'CharT', 'char_type')): return False
        return any(w in t for w in ('unsigned char', 'signed char', 'char', 'uint8_t', 'std::byte', 'void'))
    n = 0; seen = set()
    for unit in units:
        facts = F.load([unit], tier)
        if unit not in chk.units: chk.units.append(unit)
        for fn in facts.functions:
            if fn.get('body') is None or not fn['file'].startswith('include/'): continue
            for c in A.calls_in(fn['body'], no_lambda=True):
                if A.callee_name(c) not in ('memcmp', 'memcpy', 'memmove', 'memset') or len(c.get('args') or []) < 3: continue
                args = c['args']
                is_set = A.callee_name(c) == 'memset'
                def pt(a):
                    s_ = A.strip(a, casts=True)
                    return fn['_types'][s_['t'] - 1] if s_ is not None and s_.get('t') else '?'
                ta, tb = pt(args[0]), (pt(args[0]) if is_set else pt(args[1]))
                key = (fn['file'], c.get('l'), bytelike(ta) and bytelike(tb))
                if key in seen: continue
                seen.add(key); n += 1
                site = '%s:%s %s(%s, %s)' % (fn['file'], fn['n'], A.callee_name(c), ta[:30], tb[:30])
                if bytelike(ta) and bytelike(tb):
                    chk.ok('R05.12', site, None, nontrivial=False); continue
                # the byte count is `count * sizeof(T)` (either order), a bare sizeof, or a literal: a sizeof term inside a sum or difference
                # (`a - b*sizeof(T)`) mixes elements and bytes
                top = A.strip(args[2], casts=True)
                while top is not None and top.get('k') in ('CXXUnresolvedConstructExpr', 'CXXFunctionalCastExpr', 'CXXConstructExpr') and len(top.get('args') or top.get('c') or [top.get('sub')]) == 1:
                    top = A.strip((top.get('args') or top.get('c') or [top.get('sub')])[0], casts=True)
                def has_sizeof(e): return e is not None and any(y.get('k') in ('UnaryExprOrTypeTraitExpr', 'SizeOfPackExpr') for y in A.walk(e))
                sized = top is not None and (top.get('k') in ('IntegerLiteral', 'UnaryExprOrTypeTraitExpr', 'SizeOfPackExpr') or
                                             (top.get('k') == 'BinaryOperator' and top.get('op') == '*' and (has_sizeof(top.get('lhs')) or has_sizeof(top.get('rhs')))))
                if not sized and top is not None and top.get('k') == 'CXXUnresolvedConstructExpr' and not A.children(top): sized = True   # opaque in the template pattern; the instantiations are checked
                if sized: chk.ok('R05.12', site, {'line': c.get('l'), 'size': A.text(args[2])[:50]})
                else:
                    chk.analysed(fn)
                    chk.fail('R05.12', site, fn['file'], c.get('l'), '%s: %s on `%s` / `%s` with size `%s`, which counts elements: for a character type wider than one byte only '
                             'part of the range is compared/copied' % (fn['n'], A.callee_name(c), ta[:40], tb[:40], A.text(args[2])[:40]), None, fn['q'])
    chk.require(n >= 40, 'R05.12: only %d mem* calls found' % n)

# A state of a compiler loop whose no-progress path cannot be taken, with the reason (confirmed by reading and by probing)
PROGRESS_EXEMPT = {
    ('jsonpath_parser.hpp', 'one_or_more_arguments'):
        'the state is uncovered only by the `argument` state popping itself, which it does on `,` and `)` alone (anything else is '
        'expected_comma_or_rparen); white space, `,` and `)` are all handled here',
}

def r05_14(chk, tier):
    """The expression compilers terminate: every turn of the state loop changes something."""
    from .. import cfg as C
    chk.rule('R05.14', 'compiler progress: in the state loops of the JMESPath and JSONPath compilers every path through one iteration advances the '
                       'input cursor, pushes/pops/replaces the top of the state stack, or leaves the function (return / throw); a `break` '
                       'reached with none of these (`default: break;`, `case \'*\': ... break;`) repeats the same state on the same character '
                       'for ever', floor=2)
    n = 0
    for unit, hdr in (('jmespath', 'jmespath.hpp'), ('jsonpath', 'jsonpath_parser.hpp')):
        facts = F.load([unit], tier)
        if unit not in chk.units: chk.units.append(unit)
        best = None
        for f in facts.functions:
            if f['n'] != 'compile' or not f['file'].endswith(hdr) or f.get('body') is None or f.get('dep'): continue
            for x in A.walk_no_lambda(f['body']):
                if x.get('k') == 'WhileStmt':
                    sz = sum(1 for _ in A.walk(x))
                    if best is None or sz > best[2]: best = (f, x, sz)
        chk.require(best is not None and best[2] > 500, 'R05.14: state loop of the %s compiler not found' % unit)
        fn, loop, _ = best
        chk.analysed(fn)
        # the cursor: the pointer member compared in the loop condition
        cur = set(y.get('n') for y in A.walk(loop.get('cond')) if y.get('k') == 'MemberExpr' and fn['_types'][y['t'] - 1].rstrip().endswith('*') and y.get('lv'))
        cur = set(c for c in cur if not c.startswith('input_end') and not c.startswith('end'))
        chk.require(cur, 'R05.14: %s: cursor member of the loop condition not recognised' % unit)
        g = C.CFG(loop['body'])
        prog = []
        for nd in g.rpo:
            if nd.kind == 'return': prog.append(nd); continue
            if nd.kind not in ('stmt', 'cond') or not isinstance(nd.ast, dict): continue
            p_ = any(s2 is g.exit_throw for s2 in nd.succ)
            for y in A.walk_no_lambda(nd.ast):
                k = y.get('k')
                if k == 'UnaryOperator' and y.get('op') in ('++', '--') and A.ref_name(y.get('sub')) in cur: p_ = True
                if k in ('BinaryOperator', 'CompoundAssignOperator') and y.get('op', '').endswith('=') and y.get('op') not in ('==', '!=', '<=', '>='):
                    l = A.strip(y.get('lhs'), casts=True)
                    if A.ref_name(l) in cur: p_ = True
                    if l is not None and 'state_stack' in A.text(l): p_ = True
                    if A.ref_name(l) in ('done', 'done_'): p_ = True
                if k in A.CALLS:
                    nm = A.callee_name(y)
                    if nm.startswith(('advance', 'skip')): p_ = True
                    if nm in ('push_back', 'pop_back', 'emplace_back', 'clear') and 'state_stack' in A.text(y.get('obj')): p_ = True
                    if k == 'CXXOperatorCallExpr' and y.get('oop') == '=' and y.get('args') and 'state_stack' in A.text(y['args'][0]): p_ = True
            if p_: prog.append(nd)
        seen = g.reachable_from(g.entry, avoid=prog)
        leaks = sorted(set(pn.line for pn in g.exit_return.pred if pn.id in seen and pn.kind != 'return' and pn.line))
        # an edge out of the state switch that no case takes is the missing-handler form: report the states without a case
        sw = next((x for x in A.walk_no_lambda(loop['body']) if x.get('k') == 'SwitchStmt'), None)
        missing = []
        if sw is not None:
            labels = set(lo for lbls, st in P.PEval.switch_items(sw.get('body')) for lo, hi in lbls if lo != 'default')
            has_default = any(lo == 'default' for lbls, st in P.PEval.switch_items(sw.get('body')) for lo, hi in lbls)
            en = next((e for e in facts.enums if e['q'].endswith('::expr_state') or e['q'].endswith('expr_state')), None)
            if en is not None and not has_default: missing = [k for k, v in en['values'] if v not in labels]
        n += 1
        site = U.site(fn, 'state loop of the %s compiler' % unit)
        # which state a line belongs to (spans of the case groups of the state switch)
        spans = []
        if sw is not None:
            en_all = next((e for e in facts.enums if e['q'].endswith('expr_state') or e['q'].endswith('path_state')), None)
            names = dict((v, k) for k, v in en_all['values']) if en_all is not None else {}
            cur_lab = None; lo_l = None
            for lbls, st in P.PEval.switch_items(sw.get('body')):
                if lbls: cur_lab = [names.get(lo, str(lo)) for lo, hi in lbls if lo != 'default'] or ['default']
                if st is None or cur_lab is None: continue
                ls = [y.get('l') for y in A.walk(st) if y.get('l')]
                if ls: spans.append((min(ls), max(ls), cur_lab[0]))
        def state_of(line):
            for a, b, nm in spans:
                if a <= line <= b: return nm
            return None
        real = [l for l in leaks if l != loop['body'].get('l') and l != sw.get('l')] if sw is not None else leaks
        exempted = [l for l in real if (hdr, state_of(l)) in PROGRESS_EXEMPT]
        for l in exempted: chk.note('R05.14: %s state %s exempt: %s' % (hdr, state_of(l), PROGRESS_EXEMPT[(hdr, state_of(l))]))
        real = [l for l in real if l not in exempted]
        if not real and not missing: chk.ok('R05.14', site, {'progress_statements': len(prog)})
        else:
            for l in real[:6]:
                chk.fail('R05.14', U.site(fn, 'no progress in state %s' % (state_of(l) or l)), fn['file'], l, '%s compile(): the iteration ending at line %s neither consumes input, changes the state stack nor returns: '
                         'the loop repeats with the same state and the same character' % (unit, l), None, fn['q'])
            for m in missing[:6]:
                chk.fail('R05.14', U.site(fn, 'state %s has no case' % m), fn['file'], sw.get('l'), '%s compile(): the state switch has no case for %s and no default: once that state is on '
                         'top of the stack the loop spins' % (unit, m), None, fn['q'])
            if not real and not missing: chk.ok('R05.14', site, None)
    chk.require(n >= 2, 'R05.14: compiler loops not found')

def r05_15(chk, tier, units=('bson',), files=('bson_decimal128.hpp',)):
    """An index that grows by one per loop iteration stays inside the fixed-size local array it indexes."""
    import re
    chk.rule('R05.15', 'growing index into a fixed local array: where a local `T a[N]` is indexed by (or up to) a local variable v that some '
                       'statement increments, every path from the increment to an element access a[v] / a[x] with x running up to v passes a '
                       'test that bounds v from above, and the bound it passes is at most N-1 (`v < N`, `v - w >= N` rejected with w always 0, ...); '
                       'what the rejecting outcome of that test does (error return, clamping) is not judged', floor=1)
    n = 0
    for unit in units:
        facts = F.load([unit], tier)
        if unit not in chk.units: chk.units.append(unit)
        for fn in U.one_per_inst([f for f in facts.functions if f.get('body') is not None and not f.get('dep') and f['file'].endswith(files)]):
            arrays = {}
            for d in A.walk_no_lambda(fn['body']):
                if d.get('k') == 'VarDecl':
                    m = re.match(r'^(?:const )?[\w: ]+\[(\d+)\]$', F.tname(fn, d.get('t')))
                    if m: arrays[d['id']] = (d, int(m.group(1)))
            if not arrays: continue
            g = C.CFG(fn['body'])
            # variables that are only ever given the value 0
            assigns = {}
            for x in A.walk_no_lambda(fn['body']):
                if x.get('k') == 'VarDecl' and x.get('init') is not None: assigns.setdefault(x['id'], []).append(A.const(x['init']))
                if x.get('k') in ('BinaryOperator', 'CompoundAssignOperator') and x.get('op', '').endswith('=') and x.get('op') not in ('==', '!=', '<=', '>='):
                    t = A.strip(x.get('lhs'), casts=True)
                    if t is not None and t.get('k') == 'DeclRefExpr': assigns.setdefault(t['id'], []).append(A.const(x.get('rhs')) if x['op'] == '=' else None)
                if x.get('k') == 'UnaryOperator' and x.get('op') in ('++', '--', '&'):
                    t = A.strip(x.get('sub'), casts=True)
                    if t is not None and t.get('k') == 'DeclRefExpr': assigns.setdefault(t['id'], []).append(None)
            zero_vars = set(i for i, vs in assigns.items() if vs and all(v == 0 for v in vs))
            def vid(e):
                e = A.strip(e, casts=True)
                return e.get('id') if e is not None and e.get('k') == 'DeclRefExpr' and e.get('dk') in ('Var', 'ParmVar') else None
            def quantity(e):
                """v for `v` and for `v - w` with w always 0"""
                e2 = A.strip(e, casts=True)
                if vid(e2) is not None: return vid(e2)
                if e2 is not None and e2.get('k') == 'BinaryOperator' and e2.get('op') == '-' and vid(e2.get('rhs')) in zero_vars: return vid(e2.get('lhs'))
                return None
            for aid, (adecl, N) in sorted(arrays.items()):
                # accesses a[e]; the variables the index is, or is bounded by through a dominating `x <= v` / `x < v`
                uses = []
                for nd in g.rpo:
                    if nd.kind not in ('stmt', 'cond', 'return', 'switch') or not isinstance(nd.ast, dict): continue
                    for x in A.walk_no_lambda(nd.ast):
                        if x.get('k') == 'ArraySubscriptExpr' and len(x.get('c') or []) == 2 and vid(x['c'][0]) == aid:
                            ivs = set(y.get('id') for y in A.walk(x['c'][1]) if y.get('k') == 'DeclRefExpr' and y.get('dk') == 'Var')
                            lim = set()
                            for a, lab, e in g.guards(nd):
                                cmp_ = G.comparison(a)
                                if cmp_ and isinstance(lab, bool):
                                    op = cmp_[0] if lab else G.NEG[cmp_[0]]
                                    l, r = vid(cmp_[1]), vid(cmp_[2])
                                    if l in ivs and r is not None and op in ('<', '<='): lim.add(r)
                                    if r in ivs and l is not None and op in ('>', '>='): lim.add(l)
                            uses.append((nd, x, ivs | lim))
                idx_vars = set(v for _, _, vs in uses for v in vs)
                for v in sorted(idx_vars):
                    # increment statements (`v++;`): a cursor stepped inside a subscript (`a[i++]`) or in a for header
                    # (`for (; i <= v; ++i)`) is bounded by what its loop compares it with, and is judged through that bound
                    incs = [nd for nd in g.rpo if nd.kind == 'stmt' and isinstance(nd.ast, dict) and (A.strip(nd.ast) or {}).get('k') == 'UnaryOperator' and
                            A.strip(nd.ast).get('op') == '++' and vid(A.strip(nd.ast).get('sub')) == v]
                    incs = [nd for nd in incs if not any(x_.get('k') == 'ForStmt' and x_.get('inc') is not None and any(z is nd.ast for z in A.walk(x_['inc'])) for x_ in A.walk_no_lambda(fn['body']))]
                    if not incs: continue
                    vname = next((y.get('n') for y in A.walk_no_lambda(fn['body']) if y.get('k') == 'VarDecl' and y.get('id') == v), '?')
                    targets = [(nd, x) for nd, x, vs in uses if v in vs]
                    for inc in incs:
                        n += 1
                        chk.analysed(fn)
                        site = U.site(fn, '%s[%s] after %s++ @%d' % (adecl.get('n'), vname, vname, inc.line - fn['l']))
                        # forward exploration from the increment with facts (local == constant) learnt on the way
                        hit = None; weak = None
                        seen = set(); work = [(s2, frozenset()) for s2 in inc.succ]
                        steps = 0
                        while work and hit is None and steps < 200000:
                            nd, fs = work.pop(); steps += 1
                            if (nd.id, fs) in seen: continue
                            seen.add((nd.id, fs))
                            if nd is not inc and any(nd is t for t, _ in targets): hit = nd; break
                            if nd.kind in ('return', 'exit', 'throw', 'unreach'): continue
                            if nd.kind in ('stmt', 'cond') and isinstance(nd.ast, dict):
                                # assignments kill facts about their target
                                killed = set()
                                for y in A.walk_no_lambda(nd.ast):
                                    t = None
                                    if y.get('k') in ('BinaryOperator', 'CompoundAssignOperator') and y.get('op', '').endswith('=') and y.get('op') not in ('==', '!=', '<=', '>='): t = vid(y.get('lhs'))
                                    if y.get('k') == 'UnaryOperator' and y.get('op') in ('++', '--'): t = vid(y.get('sub'))
                                    if t is not None: killed.add(t)
                                if killed: fs = frozenset(f_ for f_ in fs if f_[0] not in killed)
                                # v given a constant inside the array
                                if nd.kind == 'stmt':
                                    x0 = A.strip(nd.ast)
                                    if x0 is not None and x0.get('k') == 'BinaryOperator' and x0.get('op') == '=' and vid(x0.get('lhs')) == v and A.const(x0.get('rhs')) is not None and 0 <= A.const(x0['rhs']) < N: continue
                            if nd.kind == 'cond' and isinstance(nd.ast, dict):
                                cmp_ = G.comparison(nd.ast)
                                # a test that bounds v from above ends the search on both outcomes: it is the test that belongs to the increment
                                if cmp_ and weak is None:
                                    q0, K0, op0 = quantity(cmp_[1]), A.const(cmp_[2]), cmp_[0]
                                    if q0 is None and quantity(cmp_[2]) is not None and A.const(cmp_[1]) is not None: q0, K0, op0 = quantity(cmp_[2]), A.const(cmp_[1]), G.FLIP[cmp_[0]]
                                    if q0 == v and K0 is not None and op0 in ('<', '<=', '>', '>='):
                                        ubs = [{'<': K0 - 1, '<=': K0}.get(o) for o in (op0, G.NEG[op0])]
                                        ub = next((u for u in ubs if u is not None), None)
                                        if ub is not None and ub <= N - 1: continue
                                        if ub is not None: weak = (nd, ub); continue
                                for e in nd.succ:
                                    if e.kind != 'edge' or not isinstance(e.label, bool): work.append((e, fs)); continue
                                    fs2 = fs
                                    if cmp_:
                                        op = cmp_[0] if e.label else G.NEG[cmp_[0]]
                                        q, K = quantity(cmp_[1]), A.const(cmp_[2])
                                        if q is None and quantity(cmp_[2]) is not None and A.const(cmp_[1]) is not None:
                                            q, K, op = quantity(cmp_[2]), A.const(cmp_[1]), G.FLIP[op]
                                        if q == v and K is not None:
                                            ub = {'<': K - 1, '<=': K, '==': K}.get(op)
                                            if ub is not None and ub <= N - 1: continue          # bounded from here on
                                            if ub is not None and op != '==':
                                                # this is the bounds test that follows the increment, and it lets v reach N or more; what its
                                                # other outcome does (an error return, clamping) does not matter
                                                weak = (nd, ub); continue
                                        elif q is not None and K is not None and op in ('==', '!='):
                                            truth = (op == '==')
                                            if (q, K, not truth) in fs: continue                     # contradicts what this path established
                                            fs2 = fs | {(q, K, truth)}
                                    work.append((e, fs2))
                                continue
                            for s2 in nd.succ: work.append((s2, fs))
                        if hit is None and weak is None: chk.ok('R05.15', site, {'function': fn['q'], 'array': adecl.get('n'), 'size': N, 'index': vname, 'states_explored': len(seen)})
                        elif weak is not None:
                            chk.fail('R05.15', site, fn['file'], weak[0].line, '%s: after `%s++` (line %s) the bounds test `%s` (line %s) lets %s go on up to %d, but it bounds accesses to `%s`, which has %d elements (last index %d): '
                                     'element %d, one past the end, is accessed (for example at line %s)' % (fn['n'], vname, inc.line, A.text(weak[0].ast)[:60], weak[0].line, vname, weak[1], adecl.get('n'), N, N - 1, N,
                                                                                                              targets[-1][0].line if targets else '?'), {'increment_line': inc.line, 'test_line': weak[0].line, 'allows_up_to': weak[1], 'array_size': N}, fn['q'])
                        else:
                            chk.fail('R05.15', site, fn['file'], hit.line, '%s: `%s` (line %s) is read or written at an index that runs up to `%s`, which line %s increments, and a path from the increment reaches '
                                     'it without a test that keeps %s below %d (the size of %s): one element past the end of the array is accessed' % (
                                         fn['n'], A.text([x for t, x in targets if t is hit][0])[:40], hit.line, vname, inc.line, vname, N, adecl.get('n')), {'increment_line': inc.line, 'access_line': hit.line}, fn['q'])
    chk.require(n >= 1, 'R05.15: no growing index into a fixed local array found in %s' % (files,))

def r05_16(chk, tier, units=('bson',)):
    """What an encoder reads out of a caller's string it reads inside that string."""
    chk.rule('R05.16', 'indexed reads of a view parameter: in the binary-format headers every `p[e]` on a string_view / span parameter is preceded '
                       'by a test of p.size() (or length(), empty()) - in the function itself, or before the call in every caller that '
                       'passes it a value it did not measure; the text of a tagged string (an object id, a decimal) comes from the user '
                       'and may be shorter than the fixed number of characters a conversion loop reads', floor=1)
    n = 0
    for unit in units:
        facts = F.load([unit], tier)
        if unit not in chk.units: chk.units.append(unit)
        fns = [f for f in facts.functions if f.get('body') is not None and not f.get('dep') and f['file'].startswith('include/jsoncons_ext/' + unit)]
        def size_tested(fn, g, nd, name):
            for a, lab, e in (g.guards(nd) if nd is not None else []):
                for c in A.calls_in(a):
                    if A.callee_name(c) in ('size', 'length', 'empty') and A.ref_name(c.get('obj')) == name: return True
            return False
        seen = set()
        for fn in fns:
            pids = {p_['id']: p_ for p_ in fn['params'] if 'string_view' in F.tname(fn, p_['t']) or 'span<' in F.tname(fn, p_['t'])}
            if not pids: continue
            sites = []
            for x in A.walk_no_lambda(fn['body']):
                if x.get('k') == 'CXXOperatorCallExpr' and x.get('oop') == '[]' and x.get('args'):
                    o = A.strip(x['args'][0], casts=True)
                    if o is not None and o.get('k') == 'DeclRefExpr' and o.get('id') in pids and A.const(x['args'][1]) is None: sites.append((x, pids[o['id']]))
            if not sites: continue
            g = C.CFG(fn['body'])
            for x, prm in sites:
                if (fn['file'], x.get('l'), x.get('col')) in seen: continue
                seen.add((fn['file'], x.get('l'), x.get('col')))
                n += 1
                chk.analysed(fn)
                site = U.site(fn, '%s[%s]@%d' % (prm['n'], A.text(x['args'][1])[:14], x.get('l', 0) - fn['l']))
                ok = size_tested(fn, g, g.node_of(x), prm['n'])
                why = None
                if not ok:
                    # the callers: each measures what it passes before the call
                    pos = [i for i, p_ in enumerate(fn['params']) if p_['id'] == prm['id']][0]
                    callers = []
                    for f2 in fns:
                        for c in A.walk_no_lambda(f2['body']):
                            if c.get('k') in ('CXXConstructExpr', 'CXXTemporaryObjectExpr', 'CallExpr', 'CXXMemberCallExpr') and facts.callee(f2, c) is fn: callers.append((f2, c))
                    if callers:
                        ok = True
                        for f2, c in callers:
                            a = (c.get('args') or [None] * (pos + 1))[pos] if pos < len(c.get('args') or []) else None
                            an = A.ref_name(a) if a is not None else ''
                            g2 = C.CFG(f2['body'])
                            if not (an and size_tested(f2, g2, g2.node_of(c), an)):
                                ok = False; why = '%s (line %s) passes `%s` without having tested its size' % (f2['n'], c.get('l'), an or A.text(a)[:20])
                    else: why = 'no caller in the library measures it either'
                if ok: chk.ok('R05.16', site, {'function': fn['q'], 'line': x.get('l')})
                else:
                    chk.fail('R05.16', site, fn['file'], x.get('l'), '%s reads `%s` with no test of %s.size() on the way; %s: a shorter string is read past its end' % (
                        fn['n'] if fn.get('fk') != 'CXXConstructor' else fn['q'].split('::')[-1] + ' constructor', A.text(x)[:30], prm['n'], why), None, fn['q'])
    chk.require(n >= 1, 'R05.16: no indexed read of a view parameter found')

GROW_KINDS = {'push_back': 'append', 'emplace_back': 'append', 'clear': 'clear', 'insert': 'insert', 'resize': 'resize', 'erase': 'erase', 'pop_back': 'pop', 'assign': 'assign', 'reserve': None}

def r05_17(chk, tier, units=('csv',)):
    """An element access that is bounded by the size of a *different* container relies on the two being kept in step."""
    chk.rule('R05.17', 'borrowed bounds: where a member container is indexed under a test against the size of another member container '
                       '(`if (i < names_.size()) events_[i]...`), every member function of the class that changes the size of one changes the '
                       'size of the other by the same kind of operation, in the same order (append with append, clear with clear); an '
                       'append paired with a resize, or a change of only one of them, lets the index run past the shorter container', floor=1)
    n = 0
    for unit in units:
        facts = F.load([unit], tier)
        if unit not in chk.units: chk.units.append(unit)
        classes = {}
        for f in facts.functions:
            if f.get('body') is None or f.get('dep') or not f.get('cls') or not f['file'].startswith('include/jsoncons_ext/' + unit): continue
            classes.setdefault(f['cls'], []).append(f)
        def member(e):
            e2 = A.strip(e, casts=True)
            return e2.get('n') if e2 is not None and e2.get('k') == 'MemberExpr' and (A.strip(e2.get('base')) or {}).get('k') == 'CXXThisExpr' else None
        for cls, fns in sorted(classes.items()):
            pairs = set()
            for fn in U.one_per_inst(fns):
                subs = [x for x in A.walk_no_lambda(fn['body']) if x.get('k') == 'CXXOperatorCallExpr' and x.get('oop') == '[]' and x.get('args') and member(x['args'][0])]
                if not subs: continue
                g = C.CFG(fn['body'])
                for x in subs:
                    b = member(x['args'][0]); idx = A.text(A.strip(x['args'][1], casts=True))
                    nd = g.node_of(x)
                    for a, lab, e in (g.guards(nd) if nd is not None else []):
                        cmp_ = G.comparison(a)
                        if not cmp_ or not isinstance(lab, bool): continue
                        op = cmp_[0] if lab else G.NEG[cmp_[0]]
                        l, r = cmp_[1], cmp_[2]
                        if op in ('>', '>='): l, r, op = r, l, G.FLIP[op]
                        if op != '<' or A.text(A.strip(l, casts=True)) != idx: continue
                        rc = A.strip(r, casts=True)
                        if rc is not None and A.is_call(rc) and A.callee_name(rc) == 'size' and member(rc.get('obj')) and member(rc.get('obj')) != b:
                            pairs.add((member(rc.get('obj')), b))
            for a_, b_ in sorted(pairs):
                for fn in U.one_per_inst(fns):
                    if fn.get('fk') in ('CXXConstructor', 'CXXDestructor'): continue
                    ops = {a_: [], b_: []}
                    for y in A.walk_no_lambda(fn['body']):
                        if y.get('k') == 'CXXMemberCallExpr' and member(y.get('obj')) in ops and GROW_KINDS.get(A.callee_name(y)):
                            ops[member(y.get('obj'))].append((GROW_KINDS[A.callee_name(y)], y.get('l')))
                        if y.get('k') == 'CXXOperatorCallExpr' and y.get('oop') == '=' and y.get('args') and member(y['args'][0]) in ops:
                            ops[member(y['args'][0])].append(('assign', y.get('l')))
                    if not ops[a_] and not ops[b_]: continue
                    n += 1
                    chk.analysed(fn)
                    site = U.site(fn, '%s ~ %s' % (a_, b_))
                    if [k for k, _ in ops[a_]] == [k for k, _ in ops[b_]]: chk.ok('R05.17', site, {'class': A.strip_targs(cls).split('::')[-1], 'operations': [k for k, _ in ops[a_]]})
                    else:
                        chk.fail('R05.17', site, fn['file'], (ops[a_] or ops[b_])[0][1], '%s::%s changes %s by %s and %s by %s, while %s[i] is accessed under `i < %s.size()` elsewhere in the class: the two containers '
                                 'can end up with different lengths and the access runs past the shorter one' % (A.strip_targs(cls).split('::')[-1], fn['n'], a_, [k for k, _ in ops[a_]] or 'nothing', b_, [k for k, _ in ops[b_]] or 'nothing', b_, a_), None, fn['q'])
    chk.require(n >= 1, 'R05.17: no container indexed under the size of another one found')

# the side stack of buffer-owning iterators of the CBOR parser and the frame mode that owns an entry of it under a multi-dimensional array
OWNED_SIDE_STACKS = [('cbor', 'jsoncons::cbor::basic_cbor_parser', 'typed_array_stack_', 'multi_dim', 'is_multi_dim')]

def r05_18(chk, tier):
    """Two stacks kept in step across functions: who releases an entry of the side stack."""
    chk.rule('R05.18', 'owned side stack: an entry of the CBOR parser\'s typed_array_stack_ that sits under a multi_dim frame is released by the '
                       'handler of that frame; every other `typed_array_stack_.pop_back()` of the class is therefore inside the `multi_dim` case of '
                       'the mode switch or under a `!is_multi_dim()` test - an unconditional release elsewhere (the cursor short cut '
                       'to_end_array, say) releases the iterator a second time when the array is the storage of a multi-dimensional array '
                       '(internal assertion, or a foreign iterator popped)', floor=2)
    n = 0
    for unit, cls, stack, owner_mode, owner_pred in OWNED_SIDE_STACKS:
        facts = F.load([unit], tier)
        if unit not in chk.units: chk.units.append(unit)
        enums = {e['q']: e for e in facts.enums}
        pm_enum = [e for q, e in enums.items() if q.endswith('::parse_mode') and e['file'].startswith('include/jsoncons_ext/' + unit)]
        owner_val = dict((a, b) for a, b in pm_enum[0]['values']).get(owner_mode) if pm_enum else None
        fns = [f for f in facts.functions if f.get('body') is not None and not f.get('dep') and A.strip_targs(f.get('cls') or '') == cls]
        chk.require(owner_val is not None and any(f['n'] == owner_pred for f in fns), 'R05.18: parse_mode::%s or %s() not found in %s' % (owner_mode, owner_pred, cls))
        if owner_val is None: continue
        owner_sites = 0
        for fn in U.one_per_inst(fns):
            pops = [x for x in A.walk_no_lambda(fn['body']) if x.get('k') == 'CXXMemberCallExpr' and A.callee_name(x) in ('pop_back', 'erase', 'resize')
                    and A.text(A.strip(x.get('obj'), casts=True) or {}).replace('this->', '') == stack]
            if not pops: continue
            chk.analysed(fn)
            g = C.CFG(fn['body'])
            for i, x in enumerate(pops):
                n += 1
                site = U.site(fn, '%s.%s#%d' % (stack, A.callee_name(x), i + 1))
                nd = g.node_of(x)
                how = None
                for a, lab, e in (g.guards(nd) if nd is not None else []):
                    if isinstance(lab, tuple) and lab[0] == 'case' and lab[1] <= owner_val <= lab[2] and lab[1] == lab[2] and 'mode' in A.text(a):
                        how = 'in the %s frame handler' % owner_mode; owner_sites += 1; break
                    if isinstance(lab, bool):
                        c = A.strip(a, casts=True)
                        if c is not None and A.is_call(c) and A.callee_name(c) == owner_pred and lab is False:
                            how = 'under !%s()' % owner_pred; break
                if how: chk.ok('R05.18', site, {'line': x.get('l'), 'release': how})
                else:
                    chk.fail('R05.18', site, fn['file'], x.get('l'), '%s::%s releases an entry of %s without knowing that no %s frame owns it (not in the %s case of the mode switch, no dominating '
                             '`!%s()` test): when the typed array is the storage of a multi-dimensional array the %s handler releases the entry again - internal assertion on an '
                             'empty stack, or the iterator of an enclosing array popped' % (cls.split('::')[-1], fn['n'], stack, owner_mode, owner_mode, owner_pred, owner_mode), None, fn['q'])
        chk.require(owner_sites >= 1, 'R05.18: no release of %s in the %s frame handler found' % (stack, owner_mode))
    chk.require(n >= 2, 'R05.18: only %d releases of the side stack found' % n)

def run(chk, tier, only_rule=None):
    chk.explanation = EXPLANATION
    chk.not_decided = NOT_DECIDED
    facts = F.load(['core'], tier)
    chk.units = ['core']
    r05_1(chk, facts)
    r05_3(chk, tier)
    r05_5(chk, tier)
    r05_2(chk, tier)
    r05_6(chk, tier)
    r05_7(chk, tier)
    r05_8(chk, tier)
    r05_9(chk, tier)
    r05_10(chk, tier)
    # memory safety of the bigint storage: stale views (R04.5) and growth order (R04.6)
    from . import c04
    c04.r04_5(chk, facts)
    c04.r04_6(chk, facts)
    r05_12(chk, tier)
    r05_14(chk, tier)
    r05_15(chk, tier)
    r05_16(chk, tier)
    r05_17(chk, tier)
    r05_18(chk, tier)
    from . import c03
    c03.r03_14(chk, tier)     # a cursor given a new source drops the pointers into the old one in every reset overload
    from . import c15
    for u_ in ('core', 'csv', 'jsonpath', 'jmespath', 'toon'):
        c15.r15_8(chk, F.load([u_], tier), rid='R05.13', floor=1)
