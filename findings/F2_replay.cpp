#include <jsoncons/json.hpp>
#include <iostream>
using namespace jsoncons;
int main(){
    auto opts = json_options{}.float_format(float_chars_format::fixed).precision(1);
    std::string s; json(1e300).dump(s, opts);
    std::cout << s.size() << " " << s.substr(0,12) << "..." << s.substr(s.size()-4) << "\n";
    auto o2 = json_options{}.float_format(float_chars_format::scientific).precision(250);
    std::string s2; json(1.5).dump(s2, o2); std::cout << s2.size() << "\n";
    std::string s3; json(0.1).dump(s3); std::cout << s3 << "\n";
    auto o4 = json_options{}.float_format(float_chars_format::fixed);
    std::string s4; json(1e300).dump(s4, o4); std::cout << s4.size() << "\n";
    return 0;
}
