"""C02 The JSON parser accepts exactly RFC 8259 - (state x character) cell tables vs the grammar."""
import json, os
from .. import frontend as F, ast as A, util as U, peval as P, cfg as C, guards as G

EXPLANATION = ('The hand-written JSON automaton is partially evaluated cell by cell: for every parse_state handled in parse_some_ and every '
               'character value 0..255 the selected region is summarised (consume / transition / sub-parser entered / error) and compared '
               'with the RFC 8259 position table in /verif/spec/rfc8259.json; the same is done for the number DFA (labels of parse_number), '
               'the string/escape automaton (labels of parse_string), the literal states and the end-of-input switch.  Nothing is executed.')
NOT_DECIDED = ('values produced (numeric conversion is C04); UTF-8 validator arithmetic; first-duplicate-wins beyond the structural rule; '
               'behaviour over all inputs as such')

WS = {32, 9, 10, 13}

def spec():
    return json.load(open(os.path.join(F.VERIF, 'spec', 'rfc8259.json')))

def value_start(c):
    ch = chr(c)
    if ch == '{': return 'begin_object'
    if ch == '[': return 'begin_array'
    if ch == '"': return 'string'
    if ch == '-': return 'number:minus'
    if ch == '0': return 'number:zero'
    if '1' <= ch <= '9': return 'number:integer'
    if ch == 'n': return 'literal:null'
    if ch == 't': return 'literal:true'
    if ch == 'f': return 'literal:false'
    return None

# jsoncons parse_state -> RFC 8259 position (rule slots, confirmed by reading parse_some_)
def expected_cell(state, c):
    ch = chr(c)
    if c in WS: return 'ws'
    if ch == '/': return 'comment'
    if state in ('start',):
        return value_start(c) or 'error'
    if state == 'expect_value_or_end':
        if ch == ']': return 'end_array'
        return value_start(c) or 'error'
    if state == 'expect_value':
        if ch == ']': return 'end_array?trailing_comma'
        return value_start(c) or 'error'
    if state == 'expect_comma_or_end':
        return {',': 'comma', ']': 'end_array', '}': 'end_object'}.get(ch, 'error')
    if state == 'expect_member_name_or_end':
        return {'"': 'name', '}': 'end_object'}.get(ch, 'error')
    if state == 'expect_member_name':
        return {'"': 'name', '}': 'end_object?trailing_comma'}.get(ch, 'error')
    if state == 'expect_colon':
        return {':': 'colon'}.get(ch, 'error')
    return None

LITERALS = {'n': ('u', 'nu'), 'nu': ('l', 'nul'), 'nul': ('l', 'null_value'),
            't': ('r', 'tr'), 'tr': ('u', 'tru'), 'tru': ('e', 'bool_value:1'),
            'f': ('a', 'fa'), 'fa': ('l', 'fal'), 'fal': ('s', 'fals'), 'fals': ('e', 'bool_value:0')}

def classify(effects, c):
    """Action class of one (state, char) cell from its effects."""
    first_err = None
    acts = []
    for e in effects:
        if e.kind == 'call':
            n = e.name
            if n in ('operator()', 'err_handler_.operator()') or (n.endswith('operator()') and e.args and isinstance(e.args[0], str) and 'err_handler_' in str(e.args[0])):
                en = [a for a in e.args if isinstance(a, str) and a.startswith('json_errc::')]
                acts.append(('error', en[0] if en else '?', e.guards)); continue
            if n in ('skip_space', 'skip_whitespace'): acts.append(('ws', '', e.guards))
            elif n in ('begin_object', 'begin_array', 'end_object', 'end_array'): acts.append((n, '', e.guards))
            elif n == 'begin_member_or_element': acts.append(('comma', '', e.guards))
            elif n == 'parse_string': acts.append(('parse_string', '', e.guards))
            elif n == 'push_state': acts.append(('push_state', str(e.args[0]).split('::')[-1] if e.args else '?', e.guards))
            elif n == 'parse_number': acts.append(('parse_number', '', e.guards))
            elif n in ('parse_null', 'parse_true', 'parse_false'): acts.append(('literal:' + n[6:], '', e.guards))
            elif n == 'buffer_.push_back': acts.append(('push', e.args[0] if e.args else None, e.guards))
            elif n.startswith('visitor.') and n != 'visitor.flush':
                acts.append(('event', n[8:] + (':%s' % e.args[0] if n[8:] == 'bool_value' else ''), e.guards))
        elif e.kind == 'set':
            if e.name == 'state_': acts.append(('state', str(e.args[0]).split('::')[-1], e.guards))
            elif e.name == 'number_state_': acts.append(('number_state', str(e.args[0]).split('::')[-1], e.guards))
            elif e.name == 'ec': acts.append(('ec', str(e.args[0]), e.guards))
            elif e.name == 'input_ptr_' and e.args and e.args[0] == '++': acts.append(('consume', '', e.guards))
    return acts

def cell_class(acts, c):
    """Reduce the action list to one of the table classes (or 'other:<...>')."""
    kinds = [a[0] for a in acts]
    ung = [a for a in acts if not a[2]]
    ukinds = [a[0] for a in ung]
    # the close is a relaxation only if an error is raised under exactly `!allow_trailing_comma_` (or the close itself
    # sits under exactly `allow_trailing_comma_`); a weaker guard would accept trailing commas without the option
    trailing = any(a[0] in ('error', 'ec') and '!allow_trailing_comma_' in a[2] for a in acts) or \
               any(a[0] in ('end_array', 'end_object') and 'allow_trailing_comma_' in a[2] for a in acts)
    if not trailing and any('allow_trailing_comma_' in ' '.join(a[2]) for a in acts):
        return 'other:trailing-comma-guard-not-exact(%s)' % [g for a in acts for g in a[2] if 'allow_trailing_comma_' in g][0]
    def has(k): return k in ukinds
    if ukinds and ukinds[0] in ('error',): return 'error'
    if ung and ung[0][0] == 'ec': return 'error'
    if has('ws'): return 'ws'
    for st in ung:
        if st[0] == 'state' and st[1] == 'slash': return 'comment'
    if has('begin_object'): return 'begin_object'
    if has('begin_array'): return 'begin_array'
    if 'end_array' in kinds:
        return 'end_array?trailing_comma' if trailing else ('end_array' if has('end_array') else 'end_array?guarded')
    if 'end_object' in kinds:
        return 'end_object?trailing_comma' if trailing else ('end_object' if has('end_object') else 'end_object?guarded')
    if has('comma'): return 'comma'
    if has('parse_string'):
        if any(a[0] == 'push_state' and a[1] == 'member_name' for a in ung):
            return 'name' if any(a[0] == 'state' and a[1] == 'string' for a in ung) else 'other:name-without-string-state'
        for st in ung:
            if st[0] == 'state': return 'name' if st[1] == 'member_name' else ('string' if st[1] == 'string' else 'other:string-state-%s' % st[1])
        return 'other:parse_string-without-state'
    if has('parse_number') or has('number_state'):
        ns = [a[1] for a in ung if a[0] == 'number_state']
        push = [a[1] for a in ung if a[0] == 'push']
        if len(ns) != 1: return 'other:number-state-%s' % ns
        if push != [c]: return 'other:number-pushes-%s' % push
        if not has('parse_number'): return 'other:number-without-parse_number'
        return 'number:' + ns[0]
    for k in ukinds:
        if k.startswith('literal:'): return k
    for st in ung:
        if st[0] == 'state' and st[1] == 'expect_value' and has('consume'): return 'colon'
    if any(a[0] in ('error', 'ec') for a in acts) and all(a[0] in ('error', 'ec', 'consume') for a in acts): return 'error'
    return 'other:' + ','.join('%s=%s' % (a[0], a[1]) for a in acts[:4])

def find_state_loop(fn):
    """(switch over state_ in the main while loop, switch over state_ in the end-of-input branch)"""
    main = None; eof = None
    for x in A.walk(fn['body']):
        if x.get('k') == 'SwitchStmt' and U.is_member_ref(x.get('cond'), 'state_'):
            pass
    body = fn['body']
    for st in body.get('c') or []:
        if st.get('k') == 'WhileStmt':
            for y in (st.get('body') or {}).get('c') or []:
                if y.get('k') == 'SwitchStmt' and U.is_member_ref(y.get('cond'), 'state_'): main = y
        if st.get('k') == 'IfStmt':
            for y in A.walk(st.get('then')):
                if y.get('k') == 'SwitchStmt' and U.is_member_ref(y.get('cond'), 'state_') and eof is None: eof = y
    return main, eof

def parser_follow(callee, call):
    return False

def r02_1(chk, facts):
    chk.rule('R02.1', 'cell table: for each structural parse_state and each character 0..255 the action selected in parse_some_ '
                      '(whitespace, comment start, container open/close, string/name, number sub-state and pushed digit, literal, comma, colon, error) '
                      'equals the RFC 8259 position table; trailing-comma closes are guarded by allow_trailing_comma_', floor=7 * 256)
    chk.rule('R02.lit', 'literal states n,nu,nul,t,tr,tru,f,fa,fal,fals accept exactly the next letter of null/true/false and produce the '
                        'value event on the last letter; every other character is an error', floor=10 * 256)
    fns = [f for f in U.functions(facts, cls='basic_json_parser', name='parse_some_')]
    chk.require(fns, 'basic_json_parser::parse_some_ not found')
    en = U.enum_value_names(U.enum_by_suffix(facts, '::parse_state'))
    for fn in fns:
        chk.analysed(fn)
        main, eof = find_state_loop(fn)
        chk.require(main is not None, '%s: main loop switch over state_ not found' % fn['q'])
        items = P.PEval.switch_items(main['body'])
        seen_states = set()
        for idx, (labels, st) in enumerate(items):
            names = [en.get(lo) for lo, hi in labels if lo != 'default']
            for name in names:
                if name is None: continue
                structural = expected_cell(name, 65) is not None
                literal = name in LITERALS
                if not structural and not literal: continue
                seen_states.add(name)
                for c in range(256):
                    pe = P.PEval(facts, fn, follow=parser_follow, max_depth=1)
                    env = {('deref', 'input_ptr_'): c, ('m', 'state_'): [lo for lo, hi in labels if lo != 'default' and en.get(lo) == name][0]}
                    try:
                        pe.run_items(items, idx, env, (), 0)
                    except P.Stop:
                        chk.broken('R02.1: effect budget exhausted in state %s' % name)
                    acts = classify(pe.effects, c)
                    got = cell_class(acts, c)
                    chs = repr(chr(c)) if 32 <= c < 127 else '0x%02x' % c
                    line = pe.effects[0].line if pe.effects else fn['l']
                    if structural:
                        want = expected_cell(name, c)
                        ok = (got == want)
                        rid = 'R02.1'
                    else:
                        letter, nxt = LITERALS[name]
                        rid = 'R02.lit'
                        if chr(c) == letter:
                            if nxt.endswith('_value') or ':' in nxt:
                                want = 'event:' + nxt
                                ok = any(a[0] == 'event' and (a[1] == nxt or a[1].split(':')[0] == nxt) for a in acts) and not any(a[0] in ('error', 'ec') and not a[2] for a in acts)
                            else:
                                want = 'state:' + nxt
                                ok = any(a[0] == 'state' and a[1] == nxt and not a[2] for a in acts) and any(a[0] == 'consume' for a in acts)
                        else:
                            want = 'error'
                            ok = got == 'error'
                    site = U.site(fn, 'state=%s char=%s' % (name, chs))
                    if ok:
                        chk.ok(rid, site, {'state': name, 'char': chs, 'class': got} if c in (0x22, 0x5d, 0x30, 0x2f) else None)
                    else:
                        chk.fail(rid, site, fn['file'], line, 'state %s, character %s: code does `%s`, RFC 8259 table says `%s`' % (name, chs, got, want),
                                 {'state': name, 'char': chs, 'observed': got, 'expected': want, 'actions': [(a[0], a[1], list(a[2])) for a in acts[:8]]}, fn['q'])
        for s in ('start', 'expect_value_or_end', 'expect_value', 'expect_comma_or_end', 'expect_member_name_or_end', 'expect_member_name', 'expect_colon'):
            chk.require(s in seen_states, '%s: no case for parse_state::%s in the main loop' % (fn['q'], s))
        for s in LITERALS:
            chk.require(s in seen_states, '%s: no case for literal state %s' % (fn['q'], s))

def r02_6(chk, facts):
    chk.rule('R02.6', 'end of input: only accept, done, cr and a number in sub-state zero/integer/fraction2/exp3 avoid unexpected_eof; '
                      'a completed number emits the matching end_*_value', floor=30)
    fns = [f for f in U.functions(facts, cls='basic_json_parser', name='parse_some_')]
    en = U.enum_by_suffix(facts, '::parse_state')
    nen = U.enum_by_suffix(facts, '::parse_number_state')
    for fn in fns:
        main, eof = find_state_loop(fn)
        chk.require(eof is not None, '%s: end-of-input switch over state_ not found' % fn['q'])
        items = P.PEval.switch_items(eof['body'])
        for name, v in en['values']:
            subs = [(None, None)] if name != 'number' else [(n, nv) for n, nv in nen['values']]
            for sub, sv in subs:
                pe = P.PEval(facts, fn, follow=parser_follow, max_depth=1)
                env = {('m', 'state_'): v}
                if sv is not None: env[('m', 'number_state_')] = sv
                start = None
                for i, (labels, st) in enumerate(items):
                    if any(lo != 'default' and lo <= v <= hi for lo, hi in labels): start = i
                if start is None:
                    for i, (labels, st) in enumerate(items):
                        if any(lo == 'default' for lo, hi in labels): start = i
                chk.require(start is not None, 'R02.6: no default in the end-of-input switch')
                pe.run_items(items, start, env, (), 0)
                acts = classify(pe.effects, 0)
                eof_err = any(a[0] in ('ec', 'error') and 'unexpected_eof' in a[1] and not a[2] for a in acts)
                calls = [e.name for e in pe.effects if e.kind == 'call' and not e.guards]
                if name in ('accept', 'done', 'cr'):
                    want = 'no error'; ok = not eof_err
                elif name == 'number':
                    if sub in ('zero', 'integer'): want = 'end_integer_value'; ok = 'end_integer_value' in calls and not eof_err
                    elif sub in ('fraction2', 'exp3'): want = 'end_fraction_value'; ok = 'end_fraction_value' in calls and not eof_err
                    else: want = 'unexpected_eof'; ok = eof_err and not any(c.startswith('end_') for c in calls)
                else:
                    want = 'unexpected_eof'; ok = eof_err
                site = U.site(fn, 'eof state=%s%s' % (name, ('/' + sub) if sub else ''))
                if ok: chk.ok('R02.6', site, {'state': name, 'sub': sub, 'expected': want})
                else:
                    chk.fail('R02.6', site, fn['file'], eof.get('l'), 'end of input in state %s%s: expected %s, code does %s' % (
                        name, ('/' + sub) if sub else '', want, [(a[0], a[1]) for a in acts[:4]] or calls[:3]), {'state': name, 'sub': sub}, fn['q'])

def label_regions(fn):
    """label name -> list of statements of its region (label's own statement + following siblings up to the next label)."""
    regions = {}; cur = None
    for st in fn['body'].get('c') or []:
        if st.get('k') == 'LabelStmt':
            cur = st.get('label'); regions[cur] = [st.get('sub')]
        elif cur is not None:
            regions[cur].append(st)
    return regions

def run_region(facts, fn, stmts, env, follow=None, pure=None):
    pe = P.PEval(facts, fn, follow=follow or (lambda c, e: False), pure=pure, max_depth=1)
    env = dict(env)
    for st in stmts:
        r = pe.exec_stmt(st, env, (), 0)
        if 'next' not in r: break
    return pe.effects

def digit_pure(callee, call):
    return callee['n'] in ('is_digit', 'is_nonzero_digit', 'is_exp', 'is_type', 'is_sign', 'is_control_character', 'is_high_surrogate', 'is_low_surrogate')

def dfa_step(effects, exhaust_words=('local_input_end', 'input_end_')):
    """Transition taken by a label region for one character: ('goto', L) | ('stay',) | ('final', fn) | ('error', code) | ('other', ..)."""
    for e in effects:
        g = ' '.join(e.guards)
        if any(w in g for w in exhaust_words): continue       # the buffer-exhausted branch
        if e.kind == 'goto': return ('goto', e.name)
        if e.kind == 'loop': return ('stay',)
        if e.kind == 'call' and e.name in ('end_integer_value', 'end_fraction_value', 'end_string_value'): return ('final', e.name)
        if e.kind == 'call' and ('err_handler_' in e.name or e.name == 'operator()'):
            en = [a for a in e.args if isinstance(a, str) and a.startswith('json_errc::')]
            return ('error', en[0] if en else '?')
        if e.kind == 'set' and e.name == 'ec': return ('error', str(e.args[0]))
        if e.kind == 'return': return ('return',)
    return ('fallthrough',)

def r02_2(chk, facts):
    chk.rule('R02.2', 'number DFA: for each label of parse_number and each character 0..255 the transition (next label / stay / final '
                      'end_integer_value|end_fraction_value / error) equals the RFC 8259 number grammar (no digit after a leading zero, '
                      'at least one digit after . and after e[+-])', floor=8 * 256)
    sp = spec()['number_dfa']
    def cls(c):
        ch = chr(c)
        out = []
        if '0' <= ch <= '9': out.append('0-9')
        if '1' <= ch <= '9': out.append('1-9')
        if ch == '0': out.append('0')
        if ch == '.': out.append('.')
        if ch in 'eE': out.append('eE')
        if ch in '+-': out.append('+-')
        if ch == '-': out.append('-')
        return out
    label_of = {'minus': 'minus_sign'}
    final_fn = {'integer': 'end_integer_value', 'fraction': 'end_fraction_value'}
    for fn in U.functions(facts, cls='basic_json_parser', name='parse_number'):
        chk.analysed(fn)
        regs = label_regions(fn)
        for state, row in sp.items():
            if state in ('start', 'rule'): continue
            lab = label_of.get(state, state)
            chk.require(lab in regs, '%s: label %s not found' % (fn['q'], lab))
            for c in range(256):
                eff = run_region(facts, fn, regs[lab], {('deref', 'cur'): c}, pure=digit_pure)
                got = dfa_step(eff)
                want = None
                for k in cls(c):
                    if k in row: want = ('goto', label_of.get(row[k], row[k])); break
                if want is None:
                    want = ('final', final_fn[row['final']]) if 'final' in row else ('error',)
                    # `zero`: a digit is an error even though the state is final
                    if state == 'zero' and '0' <= chr(c) <= '9': want = ('error',)
                ok = (got == want) or (want[0] == 'error' and got[0] == 'error') or \
                     (want[0] == 'goto' and want[1] == lab and got == ('stay',))
                chs = repr(chr(c)) if 32 <= c < 127 else '0x%02x' % c
                site = U.site(fn, 'label=%s char=%s' % (lab, chs))
                if ok: chk.ok('R02.2', site, {'label': lab, 'char': chs, 'step': got} if chr(c) in '0.e-x' else None)
                else:
                    chk.fail('R02.2', site, fn['file'], eff[0].line if eff else fn['l'],
                             'number state %s, character %s: code does %s, RFC 8259 number grammar says %s' % (lab, chs, got, want),
                             {'label': lab, 'char': chs, 'observed': got, 'expected': want}, fn['q'])

ESC = {'"': 0x22, '\\': 0x5c, '/': 0x2f, 'b': 8, 'f': 12, 'n': 10, 'r': 13, 't': 9}

def r02_3(chk, facts):
    chk.rule('R02.3', 'string automaton: in the text region control characters 0x00-0x1F are errors, " ends the string, \\ enters escape; '
                      'the escape region maps exactly "\\/bfnrt to their characters and u to the hex states; every other escape is an error; '
                      'the four+four hex states accept exactly hex digits', floor=2 * 256)
    for fn in U.functions(facts, cls='basic_json_parser', name='parse_string'):
        chk.analysed(fn)
        regs = label_regions(fn)
        for lab in ('text', 'escape', 'escape_u1', 'escape_u2', 'escape_u3', 'escape_u4', 'escape_u5', 'escape_u6', 'escape_u7', 'escape_u8'):
            chk.require(lab in regs, '%s: label %s not found' % (fn['q'], lab))
        for c in range(256):
            chs = repr(chr(c)) if 32 <= c < 127 else '0x%02x' % c
            # text
            eff = run_region(facts, fn, regs['text'], {('deref', 'cur'): c}, pure=digit_pure)
            got = dfa_step(eff, exhaust_words=())
            if c < 0x20: want = ('error',)
            elif c == 0x22: want = ('final', 'end_string_value')
            elif c == 0x5c: want = ('goto', 'escape')
            else: want = ('literal',)
            if want == ('literal',):
                ok = got[0] in ('fallthrough', 'return', 'stay') and not any(e.kind == 'call' and 'err_handler_' in e.name for e in eff)
            else:
                ok = (got == want) or (want[0] == 'error' and got[0] == 'error')
            site = U.site(fn, 'label=text char=%s' % chs)
            if ok: chk.ok('R02.3', site, {'label': 'text', 'char': chs, 'step': got} if c in (0x22, 0x5c, 0x0a, 0x41) else None)
            else: chk.fail('R02.3', site, fn['file'], eff[0].line if eff else fn['l'],
                           'string text, character %s: code does %s, RFC 8259 says %s' % (chs, got, want), {'observed': got, 'expected': want}, fn['q'])
            # escape
            eff = run_region(facts, fn, regs['escape'], {('deref', 'cur'): c}, pure=digit_pure)
            got = dfa_step(eff)
            pushes = [e.args[0] for e in eff if e.kind == 'call' and e.name == 'buffer_.push_back' and not e.guards]
            ch = chr(c)
            if ch in ESC or ch == '\\':
                code = ESC.get(ch, 0x5c)
                ok = pushes == [code] and got == ('goto', 'text')
                want = ('push %d then text' % code,)
            elif ch == 'u':
                ok = got == ('goto', 'escape_u1') and not pushes; want = ('goto', 'escape_u1')
            else:
                ok = got[0] == 'error' and not pushes; want = ('error',)
            site = U.site(fn, 'label=escape char=%s' % chs)
            if ok: chk.ok('R02.3', site, {'label': 'escape', 'char': chs, 'pushes': pushes, 'step': got} if ch in 'nu"x' else None)
            else: chk.fail('R02.3', site, fn['file'], eff[0].line if eff else fn['l'],
                           'escape character %s: code pushes %s and does %s, RFC 8259 says %s' % (chs, pushes, got, want), {'observed': got, 'pushes': pushes}, fn['q'])

def r02_5(chk, facts):
    chk.rule('R02.5', 'first duplicate wins: json_decoder gives every keyed item its arrival index (index_++), and '
                      'sorted_json_object::uninitialized_init keeps an item only if its name differs from its predecessor after the '
                      '(name, index) sort', floor=12)
    fns = [f for f in facts.functions if f['file'].endswith('json_decoder.hpp') and not f.get('dep') and f.get('body') is not None and
           A.strip_targs(f.get('cls') or '').endswith('json_decoder')]
    chk.require(fns, 'json_decoder member functions not found')
    n = 0
    for fn in U.one_per_inst(fns):
        pushes = [c for c in A.walk_no_lambda(fn['body']) if c.get('k') == 'CXXMemberCallExpr' and A.callee_name(c) == 'emplace_back'
                  and A.ref_name(c.get('obj')) == 'item_stack_']
        for i, c in enumerate(pushes):
            args = c.get('args') or []
            if not args or not any(x.get('n') == 'name_' for x in A.walk(args[0])): continue     # unkeyed push (array element / root)
            n += 1
            chk.analysed(fn)
            a1 = A.strip(args[1], casts=True) if len(args) > 1 else None
            ok = a1 is not None and a1.get('k') == 'UnaryOperator' and a1.get('op') == '++' and a1.get('postfix') and A.ref_name(a1.get('sub')) == 'index_'
            site = U.site(fn, 'keyed push#%d' % (i + 1))
            if ok: chk.ok('R02.5', site, {'function': fn['q'], 'line': c.get('l'), 'index_arg': 'index_++'})
            else:
                chk.fail('R02.5', site, fn['file'], c.get('l'), 'keyed item pushed in %s with arrival index `%s` instead of index_++: a later duplicate '
                         'member can sort before the first one' % (fn['n'], A.text(args[1])[:30] if len(args) > 1 else '?'), {'function': fn['q']}, fn['q'])
    chk.require(n >= 12, 'R02.5: only %d keyed pushes found in json_decoder' % n)
    # de-duplication loop of the sorted object
    ui = [f for f in facts.functions if f['n'] == 'uninitialized_init' and f['file'].endswith('sorted_json_object.hpp') and not f.get('dep') and f.get('body') is not None]
    chk.require(ui, 'sorted_json_object::uninitialized_init not found')
    for fn in U.one_per_inst(ui):
        chk.analysed(fn)
        g = C.CFG(fn['body'])
        loop_pushes = []
        loop_body = None; loop = None
        for x in A.walk_no_lambda(fn['body']):
            if x.get('k') in ('ForStmt', 'WhileStmt', 'CXXForRangeStmt') and any(c.get('k') == 'CXXMemberCallExpr' and A.callee_name(c) == 'emplace_back' for c in A.walk_no_lambda(x.get('body'))):
                loop = x; loop_body = x.get('body')
                loop_pushes = [c for c in A.walk_no_lambda(x.get('body')) if c.get('k') == 'CXXMemberCallExpr' and A.callee_name(c) == 'emplace_back']
        site = U.site(fn, 'dedupe loop')
        bad = None
        if not loop_pushes: bad = 'no emplace_back inside the de-duplication loop'
        # a trailing variable: assigned exactly once in the loop, by the last top-level statement of the body, from the current element
        def trailing_vars():
            out = set()
            top = (loop_body.get('c') or []) if loop_body is not None and loop_body.get('k') == 'CompoundStmt' else []
            if not top: return out
            last = A.strip(top[-1])
            if last is None or last.get('k') != 'BinaryOperator' or last.get('op') != '=': return out
            v = A.strip(last.get('lhs'), casts=True)
            if v is None or v.get('k') != 'DeclRefExpr': return out
            nass = sum(1 for y in A.walk_no_lambda(loop_body) if y.get('k') == 'BinaryOperator' and y.get('op') == '=' and
                       (A.strip(y.get('lhs'), casts=True) or {}).get('id') == v.get('id'))
            if nass == 1: out.add(v.get('id'))
            return out
        trail = trailing_vars() if loop_body is not None else set()
        def offsets(e, depth=0):
            out = []
            for y in A.walk(e):
                if y.get('k') == 'BinaryOperator' and y.get('op') in ('-', '+') and A.const(y.get('rhs')) == 1: out.append(y['op'])
                if y.get('k') == 'DeclRefExpr' and depth < 2:
                    d = next((v for v in A.walk_no_lambda(loop_body) if v.get('k') == 'VarDecl' and v.get('id') == y.get('id') and v.get('init') is not None), None)
                    if d is not None: out += offsets(d['init'], depth + 1)
            return out
        def base_ids(e): return set(y.get('id') for y in A.walk(e) if y.get('k') == 'DeclRefExpr')
        # edges through which an element may be kept: `name != predecessor's name` holds, or there is no predecessor (first element)
        passes = []
        for m in g.rpo:
            if m.kind != 'cond': continue
            s0 = A.strip(m.ast, casts=True)
            if s0 is None: continue
            op = s0.get('oop') if s0.get('k') == 'CXXOperatorCallExpr' else (s0.get('op') if s0.get('k') == 'BinaryOperator' else None)
            if op not in ('!=', '=='): continue
            sides = (s0.get('args') or [s0.get('lhs'), s0.get('rhs')])[:2]
            names = [A.strip(x, casts=True) for x in sides]
            if len(names) != 2 or any(x is None for x in names): continue
            if all(x.get('k') == 'MemberExpr' and x.get('n') == 'name' for x in names):
                # the two elements compared: one is the predecessor of the other (an offset of one, directly or through a local
                # alias; or the trailing variable against the current element)
                o1, o2 = offsets(names[0].get('base')), offsets(names[1].get('base'))
                b1, b2 = base_ids(names[0].get('base')), base_ids(names[1].get('base'))
                pred_pair = sorted(o1 + o2) == ['-'] or (not (o1 + o2) and (bool(b1 & trail) != bool(b2 & trail)))
                if pred_pair:
                    passes += [e for e in m.succ if e.kind == 'edge' and e.label is (op == '!=')]
            else:
                # `prev == nullptr`: no predecessor yet
                for x, y in ((names[0], names[1]), (names[1], names[0])):
                    if x.get('k') == 'DeclRefExpr' and x.get('id') in trail and (y.get('k') in ('CXXNullPtrLiteralExpr', 'GNUNullExpr') or A.const(y) == 0):
                        passes += [e for e in m.succ if e.kind == 'edge' and e.label is (op == '==')]
        reach = g.reachable_from(g.entry, avoid=passes)
        for c in loop_pushes:
            n_ = g.node_of(c)
            if n_ is None or n_.id in reach or not passes:
                bad = 'emplace_back in the loop is not under a comparison `name != name of the preceding element`'
        if bad: chk.fail('R02.5', site, fn['file'], fn['l'], bad, None, fn['q'])
        else: chk.ok('R02.5', site, {'function': fn['q'], 'guard': 'name != predecessor name'})

def r02_7(chk, facts, rid='R02.7'):
    chk.rule(rid, 'UTF-8 well-formedness table (Unicode Table 3-7): is_legal_utf8 rejects lead bytes 80..C1 and F5..FF, and restricts the '
                  'second byte to A0..BF after E0, 80..9F after ED, 90..BF after F0, 80..8F after F4 and 80..BF otherwise; every '
                  'continuation byte is tested with mask C0 == 80; trailing_bytes_for_utf8 gives 1/2/3 for C2..DF/E0..EF/F0..F4', floor=256)
    fns = [f for f in facts.functions if f['n'] == 'is_legal_utf8' and not f.get('dep') and f.get('body') is not None]
    chk.require(fns, 'unicode_traits::is_legal_utf8 not found')
    fn = fns[0]
    chk.analysed(fn)
    # the switch on the lead byte nested in the switch on the length, whatever the lead byte is written as (*it, bytes[0]); the second
    # byte is the local variable its cases compare
    inner = None; byte_id = None
    for x in A.walk(fn['body']):
        if x.get('k') == 'SwitchStmt':
            for y in A.walk(x.get('body')):
                if y.get('k') == 'SwitchStmt' and y is not x: inner = y
    def lead_keys(e):
        c = A.strip(e, casts=True)
        if c is None: return []
        if c.get('k') == 'UnaryOperator' and c.get('op') == '*' and A.ref_name(c.get('sub')): return [('deref', A.ref_name(c.get('sub')))]
        if c.get('k') == 'ArraySubscriptExpr':
            cc = c.get('c') or []
            if len(cc) == 2 and A.ref_name(cc[0]) and A.const(cc[1]) == 0: return [('elem', A.ref_name(cc[0]), 0), ('deref', A.ref_name(cc[0]))]
        return []
    lkeys = lead_keys(inner.get('cond')) if inner is not None else []
    if inner is not None:
        cnt = {}
        for y in A.walk(inner.get('body')):
            if y.get('k') == 'DeclRefExpr' and y.get('dk') == 'Var': cnt[y.get('id')] = cnt.get(y.get('id'), 0) + 1
        if cnt: byte_id = max(cnt, key=lambda k_: cnt[k_])
    chk.require(inner is not None and byte_id is not None and lkeys, 'is_legal_utf8: switch over the lead byte nested in the switch over the length not found')
    # every name the lead byte may be read through: the parameter and local pointers initialised from it
    ptrs = [p_['n'] for p_ in fn['params'] if '*' in F.tname(fn, p_['t'])] + [v.get('n') for v in A.walk(fn['body']) if v.get('k') == 'VarDecl' and '*' in F.tname(fn, v.get('t'))]
    def lead_env(lead):
        env = {}
        for nme in ptrs: env[('deref', nme)] = lead; env[('elem', nme, 0)] = lead
        for k_ in lkeys: env[k_] = lead
        return env
    def window(lead):
        if lead == 0xE0: return (0xA0, 0xBF)
        if lead == 0xED: return (0x80, 0x9F)
        if lead == 0xF0: return (0x90, 0xBF)
        if lead == 0xF4: return (0x80, 0x8F)
        return (0x80, 0xBF)
    probes = sorted(set([0x7f, 0x80, 0x8f, 0x90, 0x9f, 0xa0, 0xbf, 0xc0]))
    for lead in range(256):
        lo, hi = window(lead)
        bad = None
        for b1 in probes:
            if not (0x80 <= b1 <= 0xBF): continue      # the continuation mask test precedes the window test
            pe = P.PEval(facts, fn, max_depth=1)
            env = dict(lead_env(lead)); env[byte_id] = b1
            r = pe.exec_stmt(inner, env, (), 0)
            rejected = any(e.kind == 'return' and not e.guards for e in pe.effects)
            want = not (lo <= b1 <= hi)
            if rejected != want:
                bad = (b1, rejected, want); break
        # lead byte legality (length 1 path + tail)
        pe = P.PEval(facts, fn, max_depth=1, bind={'length': 1})
        pe.exec_body(fn, lead_env(lead))
        rets = [e for e in pe.effects if e.kind == 'return' and not e.guards]
        illegal = bool(rets) and rets[0].extra.get('value') not in (0, None) or (bool(rets) and rets[0].extra.get('value') is None and 'source_illegal' in str(rets[0].args))
        lead_ok = rets and (rets[0].extra.get('value') == 0) == (not ((0x80 <= lead < 0xC2) or lead > 0xF4))
        site = U.site(fn, 'lead=0x%02x' % lead)
        if bad:
            chk.fail(rid, site + ' second', fn['file'], inner.get('l'), 'lead byte 0x%02x, second byte 0x%02x: %s, Unicode Table 3-7 says %s (window %02X..%02X)' % (
                lead, bad[0], 'rejected' if bad[1] else 'accepted', 'rejected' if bad[2] else 'accepted', lo, hi), {'lead': lead, 'second': bad[0]}, fn['q'])
        elif not lead_ok:
            chk.fail(rid, site + ' lead', fn['file'], fn['l'], 'single byte 0x%02x: legality differs from the table (80..C1 and F5..FF are illegal leads)' % lead, {'lead': lead}, fn['q'])
        else:
            chk.ok(rid, site, {'lead': '0x%02x' % lead, 'second_byte_window': '%02X..%02X' % (lo, hi)} if lead in (0xE0, 0xED, 0xF0, 0xF4, 0xC2) else None)
    # continuation mask tests
    masks = []
    for x in A.walk(fn['body']):
        if x.get('k') == 'BinaryOperator' and x.get('op') == '!=' and A.const(x.get('rhs')) == 0x80:
            for y in A.walk(x.get('lhs')):
                if y.get('k') == 'BinaryOperator' and y.get('op') == '&' and A.const(y.get('rhs')) == 0xC0: masks.append(x.get('l'))
    if len(masks) >= 3: chk.ok(rid, U.site(fn, 'continuation masks'), {'tests': len(masks)})
    else: chk.fail(rid, U.site(fn, 'continuation masks'), fn['file'], fn['l'], 'only %d continuation-byte tests `(b & 0xC0) != 0x80` found (3 expected)' % len(masks), None, fn['q'])
    tabs = [v for v in facts.vars if v['n'] == 'trailing_bytes_for_utf8' and v.get('ints')]
    chk.require(tabs, 'trailing_bytes_for_utf8 table not found')
    t = tabs[0]['ints']
    wrong = [i for i in range(0xC2, 0xF5) if i < len(t) and t[i] != (1 if i <= 0xDF else 2 if i <= 0xEF else 3)]
    if len(t) == 256 and not wrong: chk.ok(rid, 'include/jsoncons/utility/unicode_traits.hpp trailing_bytes_for_utf8', {'C2..DF': 1, 'E0..EF': 2, 'F0..F4': 3})
    else: chk.fail(rid, 'include/jsoncons/utility/unicode_traits.hpp trailing_bytes_for_utf8', tabs[0]['file'], tabs[0]['l'], 'trailing byte counts wrong for lead bytes %s' % [hex(i) for i in wrong[:6]], None, tabs[0]['q'])

def r02_8(chk, facts):
    """Start-of-input detection (byte order mark / encoding) is applied to the first chunk only."""
    chk.rule('R02.8', 'start of input handled once: in every source adaptor whose read_chunk examines the first characters under a member flag '
                      '(`if (bof_ && ...) { detect ...; }`), each path from that test to a normal return clears the flag, or stores an error: '
                      'otherwise the next chunk - the middle of the document - is examined for a byte order mark again and bytes of the text '
                      'are dropped or rejected depending on where the chunk boundary fell', floor=2)
    n = 0; seen = set()
    for fn in sorted(facts.functions, key=lambda f: bool(f.get('dep'))):
        # instantiated bodies first, the template pattern where nothing instantiates it
        if fn.get('body') is None or not fn['file'].endswith(('source_adaptor.hpp', 'text_source_adaptor.hpp')): continue
        if (fn['file'], fn['l']) in seen: continue
        det = [c for c in A.calls_in(fn['body'], no_lambda=True) if A.callee_name(c).startswith('detect_')]
        if not det: continue
        seen.add((fn['file'], fn['l']))
        chk.analysed(fn)
        g = C.CFG(fn['body'])
        for c in det:
            dn = g.node_of(c)
            if dn is None: continue
            flags = [(a, e) for a, lab, e in g.guards(dn) if lab is True and (A.strip(a, casts=True) or {}).get('k') == 'MemberExpr' and 'bool' in fn['_types'][A.strip(a, casts=True)['t'] - 1]]
            n += 1
            site = U.site(fn, 'first-chunk test line %s' % c.get('l'))
            if not flags:
                chk.fail('R02.8', site, fn['file'], c.get('l'), '%s examines the start of a chunk with %s() outside a test of a begin-of-input flag: every chunk is examined' % (fn['n'], A.callee_name(c)), None, fn['q'])
                continue
            fa, fe = flags[-1]
            fname = A.strip(fa, casts=True).get('n')
            clears = [nd for nd in g.rpo if nd.kind == 'stmt' and isinstance(nd.ast, dict) and (U.assigned_member(nd.ast) or (None,))[0] == fname and A.const(U.assigned_member(nd.ast)[1]) == 0]
            errs = [nd for nd in g.rpo if nd.kind == 'stmt' and isinstance(nd.ast, dict) and (U.assigned_member(nd.ast) or (None,))[0] == 'ec']
            # from the examination itself (an empty first chunk examines nothing and rightly leaves the flag set)
            leak = g.can_reach(dn, [g.exit_return], avoid=clears + errs)
            if not leak: chk.ok('R02.8', site, {'function': fn['q'], 'flag': fname})
            else:
                chk.fail('R02.8', site, fn['file'], c.get('l'), '%s: a path from the `%s` test returns normally without `%s = false`: the next chunk is treated as the start of '
                         'the input again (a byte order mark is looked for in the middle of the text)' % (fn['n'], fname, fname), None, fn['q'])
    chk.require(n >= 2, 'R02.8: only %d first-chunk tests found in the source adaptors' % n)

def r02_9(chk, facts, rid='R02.9'):
    """Code points above the Basic Multilingual Plane are code points."""
    chk.rule(rid, 'whole code points: where a conversion in unicode_traits stores a decoded code point as one unit (UTF-32 target: '
                  '`target.push_back(ch)` with no narrowing) under an upper bound on it, the tightest bound is 0x10FFFF (max_legal_utf32); a '
                  'smaller bound such as the end of the BMP turns every supplementary-plane character into an error or a replacement', floor=2)
    n = 0; seen = set()
    for fn in sorted(facts.functions, key=lambda f: bool(f.get('dep'))):
        if not fn['file'].endswith('unicode_traits.hpp') or fn.get('body') is None: continue
        g = None
        for c in A.calls_in(fn['body'], no_lambda=True):
            if A.callee_name(c) != 'push_back' or not c.get('args'): continue
            a = A.strip(c['args'][0])
            if a is None or a.get('k') != 'DeclRefExpr' or (fn['file'], c.get('l')) in seen: continue
            tn = fn['_types'][a['t'] - 1] if a.get('t') else ''
            if 'int' not in tn or '32' not in tn and 'unsigned int' not in tn: continue
            seen.add((fn['file'], c.get('l')))
            g = g or C.CFG(fn['body'])
            nd = g.node_of(c)
            ub = []
            for ga, lab, e in (g.guards(nd) if nd is not None else []):
                cm = G.comparison(ga)
                if cm and A.strip(cm[1], casts=True) is not None and A.strip(cm[1], casts=True).get('id') == a.get('id') and A.const(cm[2]) is not None:
                    op = cm[0] if lab else G.NEG[cm[0]]
                    if op == '<=': ub.append(A.const(cm[2]))
                    if op == '<': ub.append(A.const(cm[2]) - 1)
            if not ub: continue          # a 16-bit source cannot exceed the range
            n += 1
            chk.analysed(fn)
            site = U.site(fn, 'code point stored at line %s' % c.get('l'))
            if min(ub) == 0x10FFFF: chk.ok(rid, site, {'bound': hex(min(ub))})
            else: chk.fail(rid, site, fn['file'], c.get('l'), '%s stores the code point only when it is <= %s: code points up to 0x10FFFF are legal' % (fn['n'], hex(min(ub))), None, fn['q'])
    chk.require(n >= 2, '%s: only %d bounded code point stores found in unicode_traits.hpp' % (rid, n))

def r02_10(chk, facts):
    """\\uXXXX escapes denote scalar values: surrogates only in high-low pairs."""
    chk.rule('R02.10', 'surrogate discipline of parse_string: the statement that combines two escapes into one code point '
                       '(`0x10000 + ((cp_ & 0x3FF) << 10) + (cp2_ & 0x3FF)`) is reached only after the second escape tested as a low surrogate, '
                       'and a single escape is converted to text only when it is neither a high nor a low surrogate (a lone low surrogate '
                       'is an error like a lone high one, not silently dropped)', floor=4)
    n = 0
    for fn in U.functions(facts, cls='basic_json_parser', name='parse_string'):
        if fn.get('body') is None: continue
        chk.analysed(fn)
        g = C.CFG(fn['body'])
        def surro_guards(nd):
            out = []
            for a, lab, e in g.guards(nd):
                ct = G.call_truth(a)
                if ct and A.callee_name(ct[0]) in ('is_low_surrogate', 'is_high_surrogate', 'is_surrogate'):
                    arg = A.ref_name((ct[0].get('args') or [None])[0])
                    out.append((A.callee_name(ct[0]), arg, bool(lab) == ct[1]))
            return out
        first_names = set()
        convs = []
        for nd in g.rpo:
            if nd.kind != 'stmt' or not isinstance(nd.ast, dict): continue
            # (a) the pair combination
            comb = [y for y in A.walk_no_lambda(nd.ast) if y.get('k') == 'BinaryOperator' and y.get('op') == '+' and any(A.const(z) == 0x10000 for z in A.walk(y)) and any(z.get('op') == '<<' for z in A.walk(y))]
            comb = sorted(comb, key=lambda y: -sum(1 for _ in A.walk(y)))[:1]       # the whole sum, not its left-associated prefix
            if comb:
                n += 1
                masked = [z for z in A.walk(comb[0]) if z.get('k') == 'BinaryOperator' and z.get('op') == '&' and A.const(z.get('rhs')) == 0x3FF]
                shifted = set(id(m_) for y in A.walk(comb[0]) if y.get('k') == 'BinaryOperator' and y.get('op') == '<<' for m_ in A.walk(y.get('lhs')))
                # the low half is the masked operand that is not shifted; the high half (the first escape) is the shifted one
                second = [A.ref_name(z.get('lhs')) for z in masked if id(z) not in shifted]
                first_names.update(A.ref_name(z.get('lhs')) for z in masked if id(z) in shifted)
                sg = surro_guards(nd)
                ok = any(nm == 'is_low_surrogate' and val is True and arg in second for nm, arg, val in sg)
                site = U.site(fn, 'surrogate pair combination')
                if ok: chk.ok('R02.10', site, {'line': nd.line})
                else: chk.fail('R02.10', site, fn['file'], nd.line, 'parse_string combines two \\u escapes into a code point (line %s) without having tested the second one as a low surrogate: '
                               '"\\uD800\\u0041" decodes to U+10041' % nd.line, None, fn['q'])
            # (b) conversion of a single escape (collected first: the name of the first-escape member comes from the combination)
            for c in A.calls_in(nd.ast):
                if A.callee_name(c) == 'convert' and c.get('args'):
                    a0 = A.strip(c['args'][0], casts=True)
                    tgt = A.ref_name(a0.get('sub')) if a0 is not None and a0.get('k') == 'UnaryOperator' and a0.get('op') == '&' else None
                    if tgt: convs.append((nd, tgt))
        for nd, tgt in convs:
            if True:
                if True:
                    if tgt not in first_names: continue
                    n += 1
                    sg = surro_guards(nd)
                    hi = any(nm in ('is_high_surrogate', 'is_surrogate') and arg == tgt and val is False for nm, arg, val in sg)
                    lo = any(nm in ('is_low_surrogate', 'is_surrogate') and arg == tgt and val is False for nm, arg, val in sg)
                    site = U.site(fn, 'single escape conversion')
                    if hi and lo: chk.ok('R02.10', site, {'line': nd.line})
                    else: chk.fail('R02.10', site, fn['file'], nd.line, 'parse_string converts a single \\u escape to text (line %s) without excluding %s surrogates: a lone surrogate is not a '
                                   'scalar value and is silently lost' % (nd.line, 'low' if hi else ('high' if lo else 'high and low')), None, fn['q'])
    chk.require(n >= 4, 'R02.10: surrogate sites of parse_string not found (%d)' % n)

def run(chk, tier, only_rule=None):
    chk.explanation = EXPLANATION
    chk.not_decided = NOT_DECIDED
    facts = F.load(['core'], tier)
    chk.units = facts.units
    r02_1(chk, facts)
    r02_6(chk, facts)
    r02_2(chk, facts)
    r02_3(chk, facts)
    r02_5(chk, facts)
    r02_7(chk, facts)
    r02_8(chk, facts)
    from . import c03
    c03.r03_13(chk, facts)     # a string that starts is scanned from the start label (texts delivered in pieces are accepted iff the whole is)
    r02_9(chk, facts)
    r02_10(chk, facts)
    # a number or string token may straddle two chunks: the resume rule of C03 is a necessary condition of accepting the same texts
    from . import c03
    c03.r03_1_2(chk, facts)
