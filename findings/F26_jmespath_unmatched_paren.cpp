#include <jsoncons/json.hpp>
#include <jsoncons_ext/jmespath/jmespath.hpp>
#include <iostream>
using namespace jsoncons;
int main(int argc, char** argv){
  std::string e = argc>1? argv[1] : "let $a = `1`inlet)";
  std::error_code ec;
  auto x = jmespath::make_expression<json>(e, ec);
  std::cout << ec.message() << "\n";
}
