#include <jsoncons/json.hpp>
#include <jsoncons_ext/jsonpatch/jsonpatch.hpp>
#include <iostream>
#include <new>
#include <cstdlib>
static long countdown = -1;
void* operator new(std::size_t n) { if (countdown >= 0 && countdown-- == 0) throw std::bad_alloc(); void* p = std::malloc(n); if (!p) throw std::bad_alloc(); return p; }
void operator delete(void* p) noexcept { std::free(p); }
void operator delete(void* p, std::size_t) noexcept { std::free(p); }
using namespace jsoncons;
int main(){
  json patch = json::parse(R"([{"op":"add","path":"/a_rather_long_member_name_beyond_sso","value":"a string value that is long enough to be heap allocated ............"}])");
  int bad=0;
  for (long k=0;k<200;++k){
    json target = json::parse(R"({"x":[1,2,3]})");
    json before = target;
    bool threw=false;
    countdown = k;
    try { std::error_code ec; jsonpatch::apply_patch(target, patch, ec); }
    catch (const std::bad_alloc&) { threw=true; }
    countdown = -1;
    if (threw && target != before) { std::cout << "k="<<k<<" target after failed apply_patch: "<<target<<"\n"; ++bad; }
    if (!threw) { break; }
  }
  std::cout<<"bad="<<bad<<"\n"; return bad?1:0;
}
