#include <jsoncons/json.hpp>
#include <jsoncons_ext/msgpack/msgpack.hpp>
#include <jsoncons_ext/cbor/cbor.hpp>
#include <iostream>
using namespace jsoncons;
int main(){
    json j = json::parse("[[1,2],[3,4]]");
    std::vector<uint8_t> b; msgpack::encode_msgpack(j,b);
    msgpack::msgpack_bytes_cursor cur(b);
    cur.next(); // at first inner begin_array
    json_decoder<json> d; cur.read_to(d);
    std::cout << d.get_result() << "\n";
    cur.next(); json_decoder<json> d2; cur.read_to(d2); std::cout << d2.get_result() << "\n";
    std::vector<uint8_t> c; cbor::encode_cbor(j,c);
    cbor::cbor_bytes_cursor cc(c); cc.next(); json_decoder<json> d3; cc.read_to(d3); std::cout << d3.get_result() << "\n";
    return 0;
}
