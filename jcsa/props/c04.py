"""C04 Numbers survive conversion between text and binary exactly - overflow guards, sign limits, event kind vs conversion result."""
from .. import frontend as F, ast as A, cfg as C, util as U, guards as G, peval as P, inline as I
from . import c05

EXPLANATION = ('(R04.1) in every digit-accumulation of the integer readers (dec_to_integer, to_integer, hex_to_integer; all instantiations) each '
               'multiplication of the accumulator by the base is dominated by `acc > MAX/base -> out_of_range` with the exact constant for the '
               'accumulator type, and each addition by `acc > MAX - digit -> out_of_range`, or the loop is bounded by digits10 of the type; '
               '(R04.2) the signed wrappers compare with exactly 2^(w-1) (negative) and MAX (positive) before negating/casting; (R04.3) in the '
               'JSON parser an integer event is emitted only under success of dec_to_integer, overflow goes to a bigint-tagged string under '
               'lossless_bignum_, fractions to bigdec under lossless_number_; (R05.1) number formatting bounds (shared with C05).')
NOT_DECIDED = ('correct rounding of from_chars/strtod, Grisu3 digit generation and its cached powers (only the boundary definition is decided, R04.10), all basic_bigint arithmetic - numerical, no sound static argument in reach '
               '(goto-analyzer cannot parse this C++)')

def type_max(tn):
    t = P.INT_TYPES.get(tn.replace('const ', '').strip())
    if not t: return None
    bits, signed = t
    return (1 << (bits - 1)) - 1 if signed else (1 << bits) - 1

def returns_out_of_range(g, edge):
    for x in G.block_after(edge):
        if x.kind == 'return' and any(y.get('n') == 'result_out_of_range' for y in A.walk(x.ast)): return True
    return False

def r04_1(chk, facts):
    chk.rule('R04.1', 'guarded multiply-accumulate in the unsigned integer readers: exact MAX/base and MAX-digit guards (or a digits10-bounded loop)', floor=8)
    fns = [f for f in facts.functions if not f.get('dep') and f.get('body') is not None and f['file'].endswith('read_number.hpp') and
           f['n'] in ('dec_to_integer', 'to_integer', 'hex_to_integer')]
    n = 0
    seen = set()
    for fn in fns:
        muls = []
        for x in A.walk_no_lambda(fn['body']):
            if x.get('k') == 'BinaryOperator' and x.get('op') == '*':
                b = A.const(x.get('rhs')); v = A.ref_name(x.get('lhs'))
                if b in (2, 8, 10, 16) and v:
                    muls.append((x, v, b))
        if not muls: continue
        g = C.CFG(fn['body'])
        chk.analysed(fn)
        for i, (x, v, b) in enumerate(muls):
            nd = g.node_of(x)
            if nd is None: continue
            lhs = A.strip(x.get('lhs'), casts=True)
            tn = fn['_types'][lhs['t'] - 1] if lhs is not None and lhs.get('t') else ''
            mx = type_max(tn)
            site = U.site(fn, 'acc*%d #%d T=%s' % (b, i + 1, tn))
            if site in seen: continue
            seen.add(site)
            n += 1
            if mx is None:
                chk.ok('R04.1', site, {'verdict': 'accumulator of class type (bigint): no fixed-width overflow'}, nontrivial=False); continue
            ok = False; how = None
            for cond_ast, label, edge in g.guards(nd):
                cmp_ = G.comparison(cond_ast)
                if not cmp_ or not isinstance(label, bool): continue
                op, l, r = cmp_
                if A.ref_name(l) == v and A.const(r) is not None:
                    K = A.const(r)
                    if label is False and op == '>' and K == mx // b:
                        rej = [e for e in edge.src.succ if e.label is True]
                        if rej and returns_out_of_range(g, rej[0]): ok = True; how = '%s > %d (MAX/%d) -> out_of_range' % (v, K, b)
                    # mirror form of a negative accumulator: acc < MIN/base (C++ division truncates toward zero)
                    mn = -(mx + 1)
                    if label is False and op == '<' and K == -((-mn) // b) and P.INT_TYPES.get(tn.replace('const ', '').strip(), (0, False))[1]:
                        rej = [e for e in edge.src.succ if e.label is True]
                        if rej and returns_out_of_range(g, rej[0]): ok = True; how = '%s < %d (MIN/%d) -> out_of_range' % (v, K, b)
                # digits10-bounded loop: the multiply runs at most D = min(digits10, length) times, 10^D - 1 <= MAX:
                #   pointer form  `cur < stop`, cur = s, stop = s + min(D, length);  index form `i < n`, i = 0, n = min(D, length)
                if label is True and op == '<' and b == 10 and A.ref_name(l) and not ok:
                    al = A.pure_aliases(fn['body'], allow_const_calls=True)
                    def resolve(e, depth=0):
                        e2 = A.strip(e, casts=True)
                        while e2 is not None and e2.get('k') == 'DeclRefExpr' and e2.get('id') in al and depth < 4:
                            e2 = A.strip(al[e2['id']], casts=True); depth += 1
                        return e2
                    r0 = resolve(r)
                    base = None; m = r0
                    if r0 is not None and r0.get('k') == 'BinaryOperator' and r0.get('op') == '+':
                        base = A.ref_name(r0.get('lhs')); m = resolve(r0.get('rhs'))
                    D = None
                    if m is not None and A.is_call(m) and A.callee_name(m) == 'min':
                        cs = [A.const(a) if A.const(a) is not None else (A.const(resolve(a)) if resolve(a) is not None else None) for a in (m.get('args') or [])]
                        cs = [c for c in cs if c is not None]
                        if cs: D = min(cs)
                    lid = (A.strip(l, casts=True) or {}).get('id')
                    ldecl = next((d for d in A.walk_no_lambda(fn['body']) if d.get('k') == 'VarDecl' and d.get('id') == lid), None)
                    start_ok = ldecl is not None and ldecl.get('init') is not None and ((base is None and A.const(ldecl['init']) == 0) or (base is not None and A.ref_name(ldecl['init']) == base))
                    # the counter only ever moves forward by one
                    steps_ok = all(not ((y.get('k') in ('BinaryOperator', 'CompoundAssignOperator') and y.get('op', '').endswith('=') and y.get('op') not in ('==', '!=', '<=', '>=') and (A.strip(y.get('lhs'), casts=True) or {}).get('id') == lid) or
                                        (y.get('k') == 'UnaryOperator' and y.get('op') == '--' and (A.strip(y.get('sub'), casts=True) or {}).get('id') == lid)) for y in A.walk_no_lambda(fn['body']))
                    if D is not None and 10 ** D - 1 <= mx and start_ok and steps_ok:
                        ok = True; how = 'loop bounded by min(%d, length) iterations: 10^%d - 1 fits %s' % (D, D, tn)
            facts_ = {'function': fn['q'], 'line': x.get('l'), 'accumulator': v, 'type': tn, 'base': b, 'guard': how}
            if ok: chk.ok('R04.1', site, facts_)
            else:
                chk.fail('R04.1', site, fn['file'], x.get('l'), '`%s * %d` on a %s accumulator is not dominated by `%s > %d` (MAX/%d) -> result_out_of_range' % (v, b, tn, v, mx // b, b), facts_, fn['q'])
        # additions: acc += x  /  acc = acc + x following a multiply
        for x in A.walk_no_lambda(fn['body']):
            if x.get('k') == 'CompoundAssignOperator' and x.get('op') == '-=' and A.ref_name(x.get('lhs')) in [m[1] for m in muls]:
                v = A.ref_name(x.get('lhs'))
                lhs = A.strip(x.get('lhs'), casts=True)
                tn = fn['_types'][lhs['t'] - 1] if lhs is not None and lhs.get('t') else ''
                mx = type_max(tn)
                if mx is None: continue
                nd = g.node_of(x)
                site = U.site(fn, 'acc-=%s T=%s @%d' % (A.text(x.get('rhs'))[:8], tn, x.get('l', 0) - fn['l']))
                if site in seen: continue
                seen.add(site); n += 1
                ok = False
                for cond_ast, label, edge in (g.guards(nd) if nd else []):
                    cmp_ = G.comparison(cond_ast)
                    if not cmp_ or label is not False: continue
                    op, l, r = cmp_
                    rs = A.strip(r, casts=True)
                    if A.ref_name(l) == v and op == '<' and rs is not None and rs.get('k') == 'BinaryOperator' and rs.get('op') == '+' and A.const(rs.get('lhs')) == -(mx + 1) and \
                       A.text(A.strip(rs.get('rhs'), casts=True)) == A.text(A.strip(x.get('rhs'), casts=True)):
                        rej = [e for e in edge.src.succ if e.label is True]
                        if rej and returns_out_of_range(g, rej[0]): ok = True
                if ok: chk.ok('R04.1', site, {'function': fn['q'], 'line': x.get('l')})
                else: chk.fail('R04.1', site, fn['file'], x.get('l'), '`%s -= %s` on a %s accumulator is not dominated by `%s < MIN + %s` -> result_out_of_range' % (
                    v, A.text(x.get('rhs'))[:10], tn, v, A.text(x.get('rhs'))[:10]), None, fn['q'])
            if x.get('k') == 'CompoundAssignOperator' and x.get('op') == '+=':
                v = A.ref_name(x.get('lhs'))
                lhs = A.strip(x.get('lhs'), casts=True)
                tn = fn['_types'][lhs['t'] - 1] if lhs is not None and lhs.get('t') else ''
                mx = type_max(tn)
                if mx is None or v not in [m[1] for m in muls]: continue
                nd = g.node_of(x)
                site = U.site(fn, 'acc+=%s T=%s @%d' % (A.text(x.get('rhs'))[:8], tn, x.get('l', 0) - fn['l']))
                if site in seen: continue
                seen.add(site); n += 1
                ok = False
                for cond_ast, label, edge in (g.guards(nd) if nd else []):
                    cmp_ = G.comparison(cond_ast)
                    if not cmp_ or label is not False: continue
                    op, l, r = cmp_
                    rs = A.strip(r, casts=True)
                    if A.ref_name(l) == v and op == '>' and rs is not None and rs.get('k') == 'BinaryOperator' and rs.get('op') == '-' and A.const(rs.get('lhs')) == mx and \
                       A.text(A.strip(rs.get('rhs'), casts=True)) == A.text(A.strip(x.get('rhs'), casts=True)):
                        rej = [e for e in edge.src.succ if e.label is True]
                        if rej and returns_out_of_range(g, rej[0]): ok = True
                if ok: chk.ok('R04.1', site, {'function': fn['q'], 'line': x.get('l')})
                else: chk.fail('R04.1', site, fn['file'], x.get('l'), '`%s += %s` on a %s accumulator is not dominated by `%s > MAX - %s` -> result_out_of_range' % (
                    v, A.text(x.get('rhs'))[:10], tn, v, A.text(x.get('rhs'))[:10]), None, fn['q'])
    chk.require(n >= 8, 'R04.1: only %d accumulate sites found' % n)

def r04_2(chk, facts):
    chk.rule('R04.2', 'signed wrappers: the magnitude is compared with exactly 2^(w-1) before negating and with MAX before the positive cast', floor=2)
    fns = [f for f in facts.functions if not f.get('dep') and f.get('body') is not None and f['file'].endswith('read_number.hpp') and
           f['n'] in ('dec_to_integer', 'to_integer', 'hex_to_integer')]
    n = 0; seen = set()
    for fn in fns:
        # signed wrapper: a bool local initialised from a comparison of an input character with '-' (whatever it is called)
        sign_ids = set()
        for d in A.walk_no_lambda(fn['body']):
            if d.get('k') == 'VarDecl' and d.get('init') is not None and any(
                    y.get('k') == 'BinaryOperator' and y.get('op') == '==' and 45 in (A.const(y.get('lhs')), A.const(y.get('rhs'))) for y in A.walk(d['init'])):
                sign_ids.add(d['id'])
        if not sign_ids: continue
        def is_sign(a):
            a = A.strip(a, casts=True)
            return a is not None and a.get('k') == 'DeclRefExpr' and a.get('id') in sign_ids
        vt = fn['_types'][fn['params'][-1]['t'] - 1].replace(' &', '')
        mx = type_max(vt)
        if mx is None: continue
        g = C.CFG(fn['body'])
        al = A.pure_aliases(fn['body'])
        chk.analysed(fn)
        neg_ok = pos_ok = False
        for nd in g.rpo:
            if nd.kind != 'cond': continue
            cmp_ = G.comparison(nd.ast)
            if not cmp_ or cmp_[0] != '>': continue
            rej = [e for e in nd.succ if e.label is True]
            if not rej or not returns_out_of_range(g, rej[0]): continue
            K = A.const(cmp_[2])
            rhs = A.strip(cmp_[2], casts=True)
            if K is None and rhs is not None and rhs.get('k') == 'DeclRefExpr' and rhs.get('id') in al:
                K = A.const(al[rhs['id']])
                rhs = A.strip(al[rhs['id']], casts=True)
            if K is None and rhs is not None and rhs.get('k') == 'ConditionalOperator' and is_sign(rhs.get('cond')):
                # one test against `sign ? limit for negatives : limit for positives`
                if A.const(rhs.get('then')) == mx + 1: neg_ok = True
                if A.const(rhs.get('else')) == mx: pos_ok = True
                continue
            if K is None: continue
            sign_true = any(is_sign(a) and lab is True for a, lab, e in g.guards(nd))
            sign_false = any(is_sign(a) and lab is False for a, lab, e in g.guards(nd))
            if sign_true and K == mx + 1: neg_ok = True
            if sign_false and K == mx: pos_ok = True
        site = U.site(fn, 'sign limits T=%s' % vt)
        if site in seen: continue
        seen.add(site); n += 1
        if neg_ok and pos_ok: chk.ok('R04.2', site, {'function': fn['q'], 'negative_limit': mx + 1, 'positive_limit': mx})
        else: chk.fail('R04.2', site, fn['file'], fn['l'], 'signed %s reader: negative limit %s, positive limit %s (expected magnitude > %d and > %d -> out_of_range)' % (
            vt, 'ok' if neg_ok else 'missing/inexact', 'ok' if pos_ok else 'missing/inexact', mx + 1, mx), None, fn['q'])
    chk.require(n >= 2, 'R04.2: only %d signed wrappers found' % n)

def r04_3(chk, facts):
    chk.rule('R04.3', 'JSON parser: int64_value/uint64_value only under success of dec_to_integer into a variable of the matching signedness, '
                      'the signed conversion only for a text that starts with `-`; on overflow a bigint-tagged string under '
                      'lossless_bignum_; fractions a bigdec-tagged string under lossless_number_', floor=3)
    EV = ('int64_value', 'uint64_value', 'string_value', 'double_value')
    def emits(callee, call=None): return any(A.is_call(c) and A.callee_name(c) in EV for c in A.walk_no_lambda(callee['body']))
    allf = [f for f in U.functions(facts, cls='basic_json_parser') if f.get('body') is not None and not f.get('dep')]
    seen = set(); kinds = set()
    for fn0 in allf:
        convs = [c for c in A.walk_no_lambda(fn0['body']) if A.is_call(c) and A.callee_name(c) == 'dec_to_integer' and len(c.get('args') or []) >= 3]
        if not convs: continue
        conv = convs[0]
        ity = F.tname(fn0, conv['args'][2].get('t')).replace('const ', '').strip()
        signed = not (ity.startswith('unsigned') or ity.startswith('uint') or ity in ('size_t', 'std::size_t'))
        key = (fn0['file'], fn0['l'], signed)
        if key in seen: continue
        seen.add(key)
        chk.analysed(fn0)
        fn = I.expand(facts, fn0, allow=emits, depth=2)
        # the variable that receives the conversion result
        rn = None
        for x in A.walk_no_lambda(fn0['body']):
            if x.get('k') == 'VarDecl' and x.get('init') is not None and any(y is conv for y in A.walk(x['init'])): rn = x.get('n')
        rn = rn or 'result'
        want = 'int64_value' if signed else 'uint64_value'
        g = C.CFG(fn['body'])
        ok_ev = ok_big = False; bad = None
        def is_res(t): return rn in t and 'operator bool' in t
        for nd in g.rpo:
            if nd.kind not in ('stmt',) or not isinstance(nd.ast, dict): continue
            for c in A.calls_in(nd.ast):
                cn = A.callee_name(c)
                if cn in ('int64_value', 'uint64_value'):
                    gs = [(A.text(a), lab) for a, lab, e in g.guards(nd)]
                    if any(is_res(t) and lab is True for t, lab in gs) and cn == want: ok_ev = True
                    elif cn != want: bad = 'a number parsed into `%s` is reported as %s' % (ity, cn)
                    else: bad = 'integer event %s emitted without a dominating success test of dec_to_integer' % cn
                if cn == 'string_value':
                    args = [A.text(a) for a in (c.get('args') or [])]
                    gs = [(A.text(a), lab) for a, lab, e in g.guards(nd)]
                    # exactness: between the failed conversion and the bigint event the only condition is lossless_bignum_
                    chain = []
                    for t, lab in gs:
                        if is_res(t): chain.append(('result', lab)); break
                        chain.append((t, lab))
                    if any('bigint' in a for a in args) and chain == [('lossless_bignum_', True), ('result', False)]: ok_big = True
                    elif any('bigint' in a for a in args): bad = 'the bigint fallback is under %s instead of exactly `!result && lossless_bignum_`' % chain
        # the signed conversion is chosen exactly for a text that starts with '-'
        for caller in allf:
            if caller['file'] != fn0['file'] or bad: continue
            calls = [c for c in A.walk_no_lambda(caller['body']) if A.is_call(c) and facts.callee(caller, c) is fn0]
            if not calls: continue
            cg = C.CFG(caller['body'])
            for c in calls:
                nd = cg.node_of(c)
                if nd is None: continue
                tests = []
                for a, lab, e in cg.guards(nd):
                    cmp_ = G.comparison(a)
                    if cmp_ and cmp_[0] in ('==', '!=') and (A.const(cmp_[2]) == 0x2d or A.const(cmp_[1]) == 0x2d):
                        tests.append(lab if cmp_[0] == '==' else (not lab))
                if tests and tests[0] != signed:
                    bad = 'the %s conversion is selected in %s for a text that %s with `-`' % ('signed' if signed else 'unsigned', caller['n'], 'does not start' if signed else 'starts')
        site = U.site(fn0, 'integer event (%s)' % ('signed' if signed else 'unsigned'))
        if ok_ev and ok_big and not bad:
            chk.ok('R04.3', site, {'function': fn0['q'], 'integer_type': ity}); kinds.add(signed)
        else: chk.fail('R04.3', site, fn0['file'], fn0['l'], bad or '%s: integer event under success=%s, bigint string under overflow && lossless_bignum_=%s' % (fn0['n'], ok_ev, ok_big), None, fn0['q'])
    chk.require(len(seen) >= 2 and {True, False} <= set(k[2] for k in seen), 'R04.3: signed and unsigned integer conversion sites of basic_json_parser not both found (%d sites)' % len(seen))
    nfrac = 0
    for fn in U.one_per_inst(allf):
        evs = [c for c in A.walk_no_lambda(fn['body']) if A.is_call(c) and A.callee_name(c) == 'string_value' and any('bigdec' in A.text(a) for a in (c.get('args') or []))]
        if not evs: continue
        nfrac += 1
        chk.analysed(fn)
        g = C.CFG(fn['body'])
        ok = any(any(A.text(a) == 'lossless_number_' and lab is True for a, lab, e in g.guards(g.node_of(c))) for c in evs if g.node_of(c) is not None)
        site = U.site(fn, 'bigdec')
        if ok: chk.ok('R04.3', site, {'function': fn['q']})
        else: chk.fail('R04.3', site, fn['file'], fn['l'], '%s does not emit a bigdec string under `lossless_number_`' % fn['n'], None, fn['q'])
    chk.require(nfrac >= 1, 'R04.3: no bigdec-tagged string event found in basic_json_parser')

def r04_8(chk, tier, units=('core', 'cbor', 'msgpack', 'ubjson', 'bson', 'csv')):
    """Every constructor of a parser or encoder copies each option into the member that is named after it."""
    chk.rule('R04.8', 'option wiring: a constructor initialiser `member_(options.accessor())` copies the option into the member of the same name '
                      '(`accessor_`, or `has_accessor_` for a flag derived from it), in every constructor overload; a sibling constructor '
                      'that reads a neighbouring accessor (lossless_bignum_ from lossless_number()) makes the behaviour depend on which '
                      'entry point built the parser', floor=60)
    n = 0
    for unit in units:
        facts = F.load([unit], tier)
        if unit not in chk.units: chk.units.append(unit)
        seen = set()
        for f in facts.functions:
            if f.get('fk') != 'CXXConstructor' or not f.get('inits') or f.get('dep') or (f['file'], f['l']) in seen: continue
            seen.add((f['file'], f['l']))
            opts = set(p_['id'] for p_ in f['params'] if 'options' in F.tname(f, p_['t']))
            if not opts: continue
            for ini in f['inits']:
                m = ini.get('m'); e = ini.get('init')
                if not m or e is None: continue
                calls = [c for c in A.walk(e) if c.get('k') == 'CXXMemberCallExpr' and (A.strip(c.get('obj'), casts=True) or {}).get('id') in opts]
                if len(calls) != 1: continue
                acc = A.callee_name(calls[0]); n += 1
                site = U.site(f, 'init %s' % m)
                if m.rstrip('_') in (acc, 'has_' + acc): chk.ok('R04.8', site, {'member': m, 'accessor': acc} if n % 20 == 1 else None)
                else:
                    chk.analysed(f)
                    chk.fail('R04.8', site, f['file'], calls[0].get('l') or f['l'], 'constructor of %s (line %s) initialises `%s` from options.%s(): the member is named after another option' % (
                        A.strip_targs(f.get('cls') or f['q']).split('::')[-1], f['l'], m, acc), None, f['q'])
    chk.require(n >= 60, 'R04.8: only %d option initialisers found' % n)

def r04_9(chk, facts):
    """An out-of-range number text gives an infinity whatever the character type of the text."""
    chk.rule('R04.9', 'out-of-range doubles, char and wchar_t alike: every decstr_to_double overload that converts with std::from_chars - which '
                      'leaves the value untouched when it reports result_out_of_range - assigns the out-parameter itself under a test of that '
                      'error (val = +/-HUGE_VAL); an overload without it hands back whatever the caller initialised the value with '
                      '(wjson::parse(L"1e400") gives 0 where json::parse("1e400") gives inf)', floor=2)
    fns = [f for f in facts.functions if f['n'] == 'decstr_to_double' and f['file'].endswith('read_number.hpp') and f.get('body') is not None and not f.get('dep')]
    n = 0
    for fn in U.one_per_inst(fns):
        if not any(A.is_call(c) and A.callee_name(c) == 'from_chars' for c in A.walk_no_lambda(fn['body'])): continue
        outp = [p_ for p_ in fn['params'] if F.tname(fn, p_['t']).replace(' ', '') == 'double&']
        if not outp: continue
        n += 1
        chk.analysed(fn)
        g = C.CFG(fn['body'])
        ok = False
        for nd in g.rpo:
            if nd.kind != 'stmt' or not isinstance(nd.ast, dict): continue
            x = A.strip(nd.ast)
            if x is None or x.get('k') != 'BinaryOperator' or x.get('op') != '=' or (A.strip(x.get('lhs'), casts=True) or {}).get('id') != outp[0]['id']: continue
            for a, lab, e in g.guards(nd):
                if lab is True and 'result_out_of_range' in A.text(a) and '==' in (A.strip(a, casts=True) or {}).get('oop', (A.strip(a, casts=True) or {}).get('op', '')): ok = True
        ct = F.tname(fn, fn['params'][0]['t'])
        site = U.site(fn, 'out of range (%s)' % ct)
        if ok: chk.ok('R04.9', site, {'function': fn['q'], 'text_type': ct})
        else:
            chk.fail('R04.9', site, fn['file'], fn['l'], 'decstr_to_double(%s, ...) converts with std::from_chars and never assigns `%s` when the result is out of range: the caller keeps its initial value '
                     '(0) where the other overload gives +/-HUGE_VAL, so the same number text decodes differently as wide text' % (ct, outp[0]['n']), None, fn['q'])
    chk.require(n >= 2, 'R04.9: only %d from_chars based decstr_to_double overloads found' % n)

def r04_4(chk, facts):
    """Multi-word addition/subtraction of basic_bigint: every wrapping word operation feeds the carry/borrow."""
    chk.rule('R04.4', 'bigint carry capture: in the word loops of basic_bigint::operator+= and operator-=, every `x = a + b` (resp. `a - b`) on words is '
                      'followed in the same iteration by the wrap test `x < a|b` (resp. `x > a`) so that no carry or borrow is lost', floor=6)
    fns = [f for f in facts.functions if f['file'].endswith('utility/bigint.hpp') and f['n'] in ('operator+=', 'operator-=') and f.get('body') is not None and not f.get('dep')
           and 'basic_bigint' in (f.get('cls') or '') and f.get('params') and 'basic_bigint' in F.tname(f, f['params'][0]['t'])]
    chk.require(len(fns) >= 2, 'basic_bigint::operator+=/-=(const basic_bigint&) not found')
    n = 0
    for fn in U.one_per_inst(fns):
        chk.analysed(fn)
        want_op = '+' if fn['n'] == 'operator+=' else '-'
        k = 0
        for lp in A.walk_no_lambda(fn['body']):
            if lp.get('k') != 'ForStmt': continue
            body = lp.get('body')
            for x in A.walk_no_lambda(body):
                if not (x.get('k') == 'BinaryOperator' and x.get('op') == '='): continue
                r = A.strip(x.get('rhs'), casts=True)
                if r is None or r.get('k') != 'BinaryOperator' or r.get('op') != want_op: continue
                lt = A.text(A.strip(x.get('lhs'), casts=True)); a = A.text(A.strip(r.get('lhs'), casts=True)); b = A.text(A.strip(r.get('rhs'), casts=True))
                k += 1; n += 1
                ok = False
                for y in A.walk_no_lambda(body):
                    c = None
                    if y.get('k') == 'BinaryOperator' and y.get('op') in ('<', '>'): c = (y['op'], A.text(A.strip(y.get('lhs'), casts=True)), A.text(A.strip(y.get('rhs'), casts=True)))
                    if not c or y.get('l', 0) < x.get('l', 0): continue
                    op, cl, cr = c
                    if cl != lt: op, cl, cr = ('<' if op == '>' else '>'), cr, cl
                    if cl != lt: continue
                    if want_op == '+' and op == '<' and cr in (a, b): ok = True
                    if want_op == '-' and op == '>' and cr == a: ok = True
                site = U.site(fn, 'word %s #%d' % ('addition' if want_op == '+' else 'subtraction', k))
                if ok: chk.ok('R04.4', site, {'line': x.get('l'), 'operation': '%s = %s %s %s' % (lt, a, want_op, b)})
                else: chk.fail('R04.4', site, fn['file'], x.get('l'), '%s: `%s = %s %s %s` can wrap and no test `%s %s %s` follows in the iteration: the %s out of this word is lost' % (
                    fn['n'], lt, a, want_op, b, lt, '<' if want_op == '+' else '>', a, 'carry' if want_op == '+' else 'borrow'), None, fn['q'])
    chk.require(n >= 6, 'R04.4: only %d word operations found in the bigint add/subtract loops' % n)

def r04_6(chk, facts):
    """bigint storage growth: capacity first, length second."""
    chk.rule('R04.6', 'bigint storage growth order: in every member function of the bigint storage that both calls reserve() on *this and assigns '
                      'the length field, the reserve() call dominates the assignment - reserve() copies `size_` words from the old block, so a '
                      'length that already counts the new words makes it read past the old block', floor=1)
    n = 0; seen = set()
    for fn in facts.functions:
        if not fn['file'].endswith('utility/bigint.hpp') or fn.get('body') is None or fn.get('dep') or (fn['file'], fn['l']) in seen: continue
        res = [c for c in A.calls_in(fn['body'], no_lambda=True) if c.get('k') == 'CXXMemberCallExpr' and A.callee_name(c) == 'reserve'
               and (A.strip(c.get('obj'), casts=True) or {'k': 'CXXThisExpr'}).get('k') == 'CXXThisExpr']
        if not res: continue
        g = C.CFG(fn['body'])
        sizes = []
        for nd in g.rpo:
            if nd.kind != 'stmt' or not isinstance(nd.ast, dict): continue
            x = A.strip(nd.ast, casts=True)
            if x is not None and x.get('k') == 'BinaryOperator' and x.get('op') == '=':
                l = A.strip(x.get('lhs'), casts=True)
                if l is not None and l.get('k') == 'MemberExpr' and l.get('n') in ('size_', 'length_'): sizes.append(nd)
        if not sizes: continue
        seen.add((fn['file'], fn['l']))
        chk.analysed(fn)
        rn = [g.node_of(c) for c in res]
        for i, sn in enumerate(sizes):
            n += 1
            site = U.site(fn, 'length assignment #%d' % (i + 1))
            if any(r is not None and g.dominates(r, sn) for r in rn): chk.ok('R04.6', site, {'function': fn['q'], 'line': sn.line})
            else:
                chk.fail('R04.6', site, fn['file'], sn.line, '%s assigns the length at line %s before (or without) the reserve() of the new capacity: reserve() then copies that '
                         'many words out of the old, smaller block' % (fn['n'], sn.line), None, fn['q'])
    chk.require(n >= 1, 'R04.6: no function of the bigint storage grows and sets its length')

def r04_7(chk, facts):
    """A character is a digit if it is between '0' and '9' - in its own type."""
    chk.rule('R04.7', 'digit tests of the integer readers: no reader decides "is a digit" from a difference `c - \'0\'` that was first narrowed to '
                      '8 bits (`uint8_t(c - \'0\') <= 9`) when c has a character type wider than char (wchar_t or the CharT of the template): '
                      'every code point congruent to a digit modulo 256 (U+0130, U+0131 ...) would be read as that digit; the digit value may be '
                      'narrowed after a range test on the character itself', floor=2)
    n = 0; seen = set()
    def wide(t):
        return any(w in t for w in ('wchar_t', 'char16_t', 'char32_t', 'type-parameter', 'CharT', 'char_type', 'dependent'))
    for fn in sorted(facts.functions, key=lambda f: bool(f.get('dep'))):
        if fn.get('body') is None or not fn['file'].endswith('utility/read_number.hpp'): continue
        for x in A.walk_no_lambda(fn['body']):
            if x.get('k') != 'BinaryOperator' or x.get('op') not in ('<=', '<', '>', '>='): continue
            for side, other in ((x.get('lhs'), x.get('rhs')), (x.get('rhs'), x.get('lhs'))):
                if A.const(other) not in (9, 10): continue
                # a narrowing cast of (something - '0') anywhere in the compared expression (possibly through an assignment)
                for y in A.walk(side):
                    if y.get('k') not in A.EXPLICIT_CASTS: continue
                    ct = fn['_types'][y['t'] - 1] if y.get('t') else ''
                    if not any(w in ct for w in ('unsigned char', 'uint8_t', 'char')) or wide(ct): continue
                    sub = A.strip(y.get('sub'), casts=True)
                    if sub is None or sub.get('k') != 'BinaryOperator' or sub.get('op') != '-' or A.const(sub.get('rhs')) != 48: continue
                    opnd = A.strip(sub.get('lhs'))
                    ot = fn['_types'][opnd['t'] - 1] if opnd is not None and opnd.get('t') else ''
                    inner = A.strip(sub.get('lhs'), casts=True)
                    it = fn['_types'][inner['t'] - 1] if inner is not None and inner.get('t') else ot
                    key = (fn['file'], x.get('l'), wide(it) or wide(ot))
                    if key in seen: continue
                    seen.add(key); n += 1
                    site = U.site(fn, 'digit test at line %s (%s)' % (x.get('l'), (it or ot)[:20]))
                    if wide(it) or wide(ot):
                        chk.analysed(fn)
                        chk.fail('R04.7', site, fn['file'], x.get('l'), '%s tests `%s`: the difference of a `%s` character is narrowed to 8 bits before the range test, so every code point '
                                 'congruent to a digit modulo 256 is accepted as that digit' % (fn['n'], A.text(x)[:60], (it or ot)[:30]), None, fn['q'])
                    else: chk.ok('R04.7', site, None)
    # readers that test the character itself: is_digit(c) calls on the scanned character
    for fn in sorted(facts.functions, key=lambda f: bool(f.get('dep'))):
        if fn.get('body') is None or not fn['file'].endswith('utility/read_number.hpp') or fn['n'] not in ('dec_to_integer', 'to_integer', 'hex_to_integer'): continue
        for c in A.calls_in(fn['body'], no_lambda=True):
            if A.callee_name(c) in ('is_digit', 'is_nonzero_digit') and (fn['file'], c.get('l'), 'call') not in seen:
                seen.add((fn['file'], c.get('l'), 'call')); n += 1
                chk.ok('R04.7', U.site(fn, 'is_digit at line %s' % c.get('l')), None)
    chk.require(n >= 2, 'R04.7: no digit tests found in read_number.hpp')

def r04_5(chk, facts):
    """bigint storage views: a view taken before resize()/reserve() is refreshed before it is used again."""
    chk.rule('R04.5', 'bigint view freshness: a local holding get_storage_view() of *this is not read after a resize()/reserve() of *this '
                      'without being re-assigned from get_storage_view() (the view keeps the old pointer and the old length)', floor=8)
    n = 0; seen = set()
    for fn in facts.functions:
        if not fn['file'].endswith('utility/bigint.hpp') or fn.get('body') is None or fn.get('dep') or (fn['file'], fn['l']) in seen: continue
        if 'basic_bigint' not in (fn.get('cls') or ''): continue
        # view locals of *this
        views = {}
        for x in A.walk_no_lambda(fn['body']):
            if x.get('k') == 'VarDecl' and x.get('init') is not None:
                for c in A.calls_in(x['init']):
                    o = A.strip(c.get('obj'), casts=True) if c.get('obj') is not None else None
                    if A.callee_name(c) == 'get_storage_view' and (o is None or o.get('k') == 'CXXThisExpr'): views[x['id']] = x['n']
        if not views: continue
        seen.add((fn['file'], fn['l']))
        g = C.CFG(fn['body'])
        inval = []; defs = {v: [] for v in views}; uses = {v: [] for v in views}
        for nd in g.rpo:
            if nd.kind not in ('stmt', 'cond', 'return', 'switch') or not isinstance(nd.ast, dict): continue
            for c in A.calls_in(nd.ast):
                o = A.strip(c.get('obj'), casts=True) if c.get('obj') is not None else None
                if A.callee_name(c) in ('resize', 'reserve') and c.get('k') == 'CXXMemberCallExpr' and (o is None or o.get('k') == 'CXXThisExpr'): inval.append(nd)
            am = U.assigned_member(nd.ast) if nd.kind == 'stmt' else None
            for vid, vn in views.items():
                is_def = False
                if nd.ast.get('k') == 'DeclStmt' and any(d.get('id') == vid for d in nd.ast.get('decls') or []): is_def = True
                if am and am[0] == vn and any(A.callee_name(c) == 'get_storage_view' for c in A.calls_in(am[1])): is_def = True
                if is_def: defs[vid].append(nd)
                elif any(y.get('k') == 'DeclRefExpr' and y.get('id') == vid for y in A.walk_no_lambda(nd.ast)): uses[vid].append(nd)
        if not inval: continue
        chk.analysed(fn)
        for vid, vn in views.items():
            n += 1
            site = U.site(fn, 'view %s' % vn)
            bad = None
            for i_ in inval:
                for u in uses[vid]:
                    if u is i_: continue
                    if any(g.can_reach(s2, [u], avoid=defs[vid]) for s2 in i_.succ): bad = (i_, u); break
                if bad: break
            if bad is None: chk.ok('R04.5', site, {'function': fn['n'], 'invalidations': len(inval), 'uses': len(uses[vid])})
            else: chk.fail('R04.5', site, fn['file'], bad[1].line, '%s: `%s` is read at line %s after the storage was resized at line %s without `%s = get_storage_view()`: it still describes the old block' % (
                fn['n'], vn, bad[1].line, bad[0].line, vn), None, fn['q'])
    chk.require(n >= 8, 'R04.5: only %d storage views crossing a resize found' % n)

def _fe_form(e, vname, consts):
    """(coefficient of v.f or v.e, constant) of an expression linear in one field of the local `vname`; shifts by constants are multiplications."""
    from fractions import Fraction
    x = A.strip(e, casts=True)
    if x is None: return None
    c = A.const(x)
    if c is not None: return (Fraction(0), Fraction(c), None)
    k = x.get('k')
    if k == 'DeclRefExpr' and x.get('id') in consts: return (Fraction(0), Fraction(consts[x['id']]), None)
    if k == 'MemberExpr' and (A.strip(x.get('base')) or {}).get('n') == vname: return (Fraction(1), Fraction(0), x.get('n'))
    if k == 'BinaryOperator' and x.get('op') in ('+', '-', '*', '<<'):
        a, b = _fe_form(x.get('lhs'), vname, consts), _fe_form(x.get('rhs'), vname, consts)
        if a is None or b is None: return None
        fld = a[2] or b[2]
        if a[2] and b[2] and a[2] != b[2]: return None
        if x['op'] in ('+', '-'):
            sg = 1 if x['op'] == '+' else -1
            return (a[0] + sg * b[0], a[1] + sg * b[1], fld)
        if x['op'] == '<<':
            if b[0] != 0 or b[1] < 0 or b[1] > 8: return None
            m = Fraction(2) ** int(b[1]); return (a[0] * m, a[1] * m, fld)
        if a[0] == 0: return (b[0] * a[1], b[1] * a[1], fld)
        if b[0] == 0: return (a[0] * b[1], a[1] * b[1], fld)
    return None

def r04_10(chk, facts):
    """Grisu boundaries: m+ = v + ulp/2, m- = v - ulp/2, or v - ulp/4 exactly when the significand is the hidden bit (IEEE 754 neighbours)."""
    from fractions import Fraction
    from .. import guards as G
    chk.rule('R04.10', 'Grisu boundaries: normalized_boundaries computes the half-way points to the neighbouring doubles of v = f*2^e as '
                       '(2f+1)*2^(e-1) above and (2f-1)*2^(e-1) below, and as (4f-1)*2^(e-2) below exactly when f equals the hidden bit 2^52 (the '
                       'lower neighbour of a power of two is half as far); compared as value offsets in units of 2^e after normalising '
                       'shifts and multiplications, so `(f<<2)-1`, `4*f-1` and `(4f-2)` with e-2 are told apart by value, not by spelling', floor=3)
    fns = [f for f in facts.functions if f['n'] == 'normalized_boundaries' and f.get('body') is not None and f['file'].endswith('detail/grisu3.hpp')]
    chk.require(len(fns) >= 1, 'R04.10: normalized_boundaries not found in detail/grisu3.hpp')
    consts = {v['id']: A.const(v.get('init')) for v in facts.vars if v.get('const') and v.get('init') is not None and A.const(v.get('init')) is not None}
    n = 0
    for fn in U.one_per_inst(fns)[:1]:
        chk.analysed(fn)
        g = C.CFG(fn['body'])
        # the local that holds the decomposed double: initialised from the double parameter by a call
        vdecl = [x for x in A.walk(fn['body']) if x.get('k') == 'VarDecl' and x.get('init') is not None and A.is_call(A.strip(x['init'], casts=True) or {})
                 and 'diy_fp' in A.callee_name(A.strip(x['init'], casts=True))]
        chk.require(len(vdecl) == 1, 'R04.10: the decomposition `v = double2diy_fp(d)` not found')
        if len(vdecl) != 1: return
        vname = vdecl[0]['n']
        locals_init = {x['id']: x['init'] for x in A.walk(fn['body']) if x.get('k') == 'VarDecl' and x.get('init') is not None}
        def closer_test(cond, lab):
            """True/False: the branch is the 'significand == hidden bit' / its negation; None: some other test."""
            c = A.strip(cond, casts=True)
            if c is not None and c.get('k') == 'DeclRefExpr' and c.get('id') in locals_init: c = A.strip(locals_init[c['id']], casts=True)
            neg = False
            while c is not None and c.get('k') == 'UnaryOperator' and c.get('op') == '!':
                neg = not neg; c = A.strip(c.get('sub'), casts=True)
                if c is not None and c.get('k') == 'DeclRefExpr' and c.get('id') in locals_init: c = A.strip(locals_init[c['id']], casts=True)
            cm = G.comparison(c) if c is not None else None
            if not cm or cm[0] not in ('==', '!='): return None, A.text(c) if c is not None else '?'
            fa, fb = _fe_form(cm[1], vname, consts), _fe_form(cm[2], vname, consts)
            if fa is None or fb is None: return None, A.text(c)
            if fb[2]: fa, fb = fb, fa
            if not (fa[2] == 'f' and fa[0] == 1 and fa[1] == 0 and fb[0] == 0): return None, A.text(c)
            if fb[1] != 2 ** 52: return 'wrong-constant', A.text(c)
            val = (cm[0] == '==') == bool(lab)
            return (val != neg), A.text(c)
        # assignments X.f = ..., X.e = ... to locals other than v, grouped by (variable, block)
        groups = {}
        for x in A.walk_no_lambda(fn['body']):
            if x.get('k') == 'BinaryOperator' and x.get('op') == '=':
                l = A.strip(x.get('lhs'))
                if l is None or l.get('k') != 'MemberExpr' or l.get('n') not in ('f', 'e'): continue
                b = A.strip(l.get('base'))
                if b is None or b.get('k') != 'DeclRefExpr' or b.get('n') == vname: continue
                fm = _fe_form(x.get('rhs'), vname, consts)
                if fm is None or fm[2] != l.get('n'): continue          # e.g. mi.e = pl.e (alignment, not a boundary definition)
                nd = g.node_of(x)
                gs = tuple((id(a), lab) for a, lab, e in (g.guards(nd) if nd is not None else []) if isinstance(lab, bool))
                groups.setdefault((b.get('n'), gs), {})[l.get('n')] = (fm, x, nd)
        found = {}; failed = []
        _fail = chk.fail
        def fail_(*a, **k): failed.append(1); _fail(*a, **k)
        for (var, gs), d in sorted(groups.items(), key=lambda kv: kv[1].get('f', kv[1].get('e'))[1].get('l', 0)):
            if 'f' not in d or 'e' not in d: continue
            (cf, c0, _), xf, nd = d['f']; (ce, de, _), xe, _ = d['e']
            if ce != 1 or cf == 0: continue
            n += 1
            scale = Fraction(2) ** int(de)
            value_coef = cf * scale; offset = c0 * scale            # boundary = value_coef * v + offset * 2^e
            branch = None; why = ''
            for a, lab, e in (g.guards(nd) if nd is not None else []):
                if not isinstance(lab, bool): continue
                branch, why = closer_test(a, lab)
                break
            site = U.site(fn, '%s@%d' % (var, xf.get('l')))
            want = {None: None, True: Fraction(-1, 4), False: Fraction(-1, 2)}
            if branch == 'wrong-constant':
                fail_('R04.10', site, fn['file'], xf.get('l'), 'the lower boundary is chosen by the test `%s`, which does not compare the significand with the hidden bit 2^52: the lower '
                         'neighbour is half as far exactly for powers of two' % why, None, fn['q'])
            elif value_coef != 1:
                fail_('R04.10', site, fn['file'], xf.get('l'), 'boundary %s = (%s*f%+d)*2^(e%+d) is not v plus an offset' % (var, cf, c0, de), None, fn['q'])
            elif nd is not None and any(isinstance(lab, bool) for a, lab, e in g.guards(nd)) and branch is None:
                fail_('R04.10', site, fn['file'], xf.get('l'), 'the lower boundary is chosen by the test `%s`, which is not an equality test of the significand v.f with the hidden bit 2^52' % why, None, fn['q'])
            elif branch is None:
                if offset != Fraction(1, 2) and offset != Fraction(-1, 2):
                    fail_('R04.10', site, fn['file'], xf.get('l'), 'unconditional boundary %s = v %+s ulp: the half-way point to a neighbouring double is v +/- 1/2 ulp' % (var, offset), None, fn['q'])
                else: chk.ok('R04.10', site, {'boundary': 'v %+s ulp' % offset, 'branch': 'unconditional'}); found[('u', offset)] = 1
            elif offset != want[branch]:
                fail_('R04.10', site, fn['file'], xf.get('l'), 'lower boundary %s = (%s*f%+d)*2^(e%+d) = v %+s ulp in the branch where the significand %s the hidden bit; IEEE 754 neighbours put it at v %+s ulp'
                         % (var, cf, c0, de, offset, 'equals' if branch else 'differs from', want[branch]), None, fn['q'])
            else: chk.ok('R04.10', site, {'boundary': 'v %+s ulp' % offset, 'branch': 'significand == 2^52' if branch else 'significand != 2^52'}); found[(branch, offset)] = 1
        need = [('u', Fraction(1, 2)), (True, Fraction(-1, 4)), (False, Fraction(-1, 2))]
        if not failed:
            missing = [k for k in need if k not in found]
            chk.require(not missing or n < 3, 'R04.10: boundary definitions found do not include %s' % missing)
    chk.require(n >= 3, 'R04.10: only %d boundary definitions found in normalized_boundaries' % n)

def run(chk, tier, only_rule=None):
    chk.explanation = EXPLANATION
    chk.not_decided = NOT_DECIDED
    facts = F.load(['core'], tier)
    chk.units = ['core']
    r04_1(chk, facts)
    r04_2(chk, facts)
    r04_3(chk, facts)
    r04_8(chk, tier)
    r04_9(chk, facts)
    r04_10(chk, facts)
    r04_4(chk, facts)
    r04_5(chk, facts)
    r04_6(chk, facts)
    r04_7(chk, facts)
    from . import c01
    c01.r01_7(chk, facts)
    c05.r05_1(chk, facts)
