#include <jsoncons/json.hpp>
#include <jsoncons_ext/csv/csv.hpp>
#include <iostream>
using namespace jsoncons;
int main(){
    json j = json::parse(R"([["a\nb","c"],["d\r","e"]])");
    std::string s; csv::encode_csv(j, s);
    std::cout << s << "---\n";
    auto opts = csv::csv_options{}.mapping_kind(csv::csv_mapping_kind::n_rows).infer_types(false);
    json k = csv::decode_csv<json>(s, opts);
    std::cout << k << "\n";
    return k==j?0:1;
}
