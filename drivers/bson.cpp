// instantiation driver: bson
#include <jsoncons/json.hpp>
#include <jsoncons_ext/bson/bson.hpp>
namespace jsoncons { namespace bson {
template class basic_bson_parser<jsoncons::bytes_source>;
template class basic_bson_parser<jsoncons::binary_stream_source>;
template class basic_bson_encoder<jsoncons::bytes_sink<std::vector<uint8_t>>>;
template class basic_bson_encoder<jsoncons::binary_stream_sink>;
template class basic_bson_reader<jsoncons::bytes_source>;
template class basic_bson_reader<jsoncons::binary_stream_source>;
}}
// cursors contain one member that does not compile when instantiated (observation N6); use them instead
void jcsa_use_bson(const std::vector<uint8_t>& v, std::istream& is)
{
    using namespace jsoncons;
    std::error_code ec;
    bson::bson_bytes_cursor c(v, ec);
    c.next(ec); (void)c.done(); (void)c.current();
    json_decoder<json> d;
    c.read_to(d, ec);
    bson::bson_stream_cursor c2(is, ec);
    c2.next(ec); c2.read_to(d, ec);
    json j = bson::decode_bson<json>(v);
    ojson oj = bson::decode_bson<ojson>(is);
    std::vector<uint8_t> out;
    bson::encode_bson(j, out);
    std::ostringstream os;
    bson::encode_bson(oj, os);
}
