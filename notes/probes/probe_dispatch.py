#!/usr/bin/env python3
"""Exploratory probe (design phase, not framework): byte-dispatch table of
basic_msgpack_parser<bytes_source>::read_item by constant propagation on `type`.
usage: probe_dispatch.py dump.json"""
import json, sys, re

def load(path):
    s = open(path).read(); dec = json.JSONDecoder(); i = 0; out = []
    while i < len(s):
        while i < len(s) and s[i].isspace(): i += 1
        if i >= len(s): break
        o, j = dec.raw_decode(s, i); out.append(o); i = j
    return out
def kids(n): return [c for c in (n.get('inner') or []) if isinstance(c, dict)]
def find(n, pred, out):
    if pred(n): out.append(n)
    for c in kids(n): find(c, pred, out)
    return out

UNK = object()
def ev(e, env):
    k = e.get('kind')
    if k in ('ImplicitCastExpr', 'ParenExpr', 'ConstantExpr', 'CStyleCastExpr', 'CXXStaticCastExpr', 'CXXFunctionalCastExpr', 'ExprWithCleanups'):
        if k == 'ConstantExpr' and 'value' in e: return int(e['value'])
        return ev(kids(e)[-1], env)
    if k == 'IntegerLiteral': return int(e['value'])
    if k == 'DeclRefExpr':
        nm = e['referencedDecl']['name']
        return env.get(nm, UNK)
    if k == 'BinaryOperator':
        a, b = [ev(x, env) for x in kids(e)]
        op = e['opcode']
        if op == '&&':
            if a is not UNK and not a: return 0
            if b is not UNK and not b: return 0
        if op == '||':
            if a is not UNK and a: return 1
            if b is not UNK and b: return 1
        if a is UNK or b is UNK: return UNK
        return {'<=': a <= b, '<': a < b, '>=': a >= b, '>': a > b, '==': a == b, '!=': a != b,
                '&': a & b, '|': a | b, '&&': bool(a and b), '||': bool(a or b), '+': a + b, '-': a - b}.get(op, UNK)
    return UNK

class Ret(Exception): pass
class Brk(Exception): pass

def effects_of_expr(e, env, eff, methods, depth):
    # record interesting calls inside an expression
    for c in find(e, lambda n: n.get('kind') in ('CXXMemberCallExpr', 'CallExpr'), []):
        callee = kids(c)[0]
        names = find(callee, lambda n: n.get('kind') in ('MemberExpr', 'DeclRefExpr'), [])
        nm = names[0].get('name') or names[0].get('referencedDecl', {}).get('name') if names else None
        if nm == 'big_to_native':
            eff.append('big_to_native<%s>' % c['type']['qualType'].split('::type')[0].split(',')[-1].strip(' >'))
        elif nm == 'read':
            args = kids(c)[1:]
            sz = ev(args[1], env) if len(args) > 1 else UNK
            if sz is UNK:
                so = find(args[1], lambda n: n.get('kind') == 'UnaryExprOrTypeTraitExpr', []) if len(args) > 1 else []
                sz = 'sizeof(%s)' % so[0].get('argType', {}).get('qualType') if so else '?'
            eff.append('read(%s)' % sz)
        elif nm == 'read_span': eff.append('read_span(len)')
        elif nm and (nm.endswith('_value') or nm in ('begin_array', 'begin_object', 'key')) and names[0].get('kind') == 'MemberExpr':
            # visitor event or helper method
            tgt = [m for m in methods if m.get('name') == nm]
            base = find(callee, lambda n: n.get('kind') == 'DeclRefExpr', [])
            if base and base[0]['referencedDecl']['name'] == 'visitor':
                eff.append('EVENT ' + nm)
            elif tgt and depth < 3:
                run_method(tgt[0], c, env, eff, methods, depth + 1)
        elif nm == 'get_size' and depth < 3:
            tgt = [m for m in methods if m.get('name') == nm]
            run_method(tgt[0], c, env, eff, methods, depth + 1)

def run_method(m, call, env, eff, methods, depth):
    params = [p for p in kids(m) if p['kind'] == 'ParmVarDecl']
    args = kids(call)[1:]
    env2 = {}
    for p, a in zip(params, args):
        v = ev(a, env)
        if v is not UNK: env2[p['name']] = v
    eff.append('>' + m['name'])
    try: run(kids([c for c in kids(m) if c['kind'] == 'CompoundStmt'][0]), env2, eff, methods, depth)
    except Ret: pass
    eff.append('<')

def run(stmts, env, eff, methods, depth):
    for s in stmts:
        k = s['kind']
        if k == 'CompoundStmt': run(kids(s), env, eff, methods, depth)
        elif k == 'IfStmt':
            c = kids(s); cond = ev(c[0], env)
            if cond is UNK:
                # unknown guard: summarise error exits only
                errs = find(c[1], lambda n: n.get('kind') == 'DeclRefExpr' and n.get('referencedDecl', {}).get('kind') == 'EnumConstantDecl' and 'errc' in n.get('type', {}).get('qualType', ''), [])
                effects_of_expr(c[0], env, eff, methods, depth)
                if errs: eff.append('on-fail:' + errs[0]['referencedDecl']['name'])
                else:
                    run([c[1]], env, eff, methods, depth)
            elif cond: run([c[1]], env, eff, methods, depth)
            elif len(c) > 2: run([c[2]], env, eff, methods, depth)
        elif k == 'SwitchStmt':
            c = kids(s); v = ev(c[0], env)
            body = kids(c[-1])
            if v is UNK: eff.append('switch(?)'); continue
            # flatten case chains
            active = False; dflt = None; seq = []
            def unwrap(st):
                labels = []
                while st['kind'] in ('CaseStmt', 'DefaultStmt'):
                    if st['kind'] == 'CaseStmt': labels.append(ev(kids(st)[0], env))
                    else: labels.append('default')
                    st = kids(st)[-1]
                return labels, st
            items = [unwrap(st) for st in body]
            start = None
            for i, (labels, st) in enumerate(items):
                if v in labels: start = i; break
            if start is None:
                for i, (labels, st) in enumerate(items):
                    if 'default' in labels: start = i; break
            if start is None: continue
            try:
                for labels, st in items[start:]: run([st], env, eff, methods, depth)
            except Brk: pass
        elif k == 'BreakStmt': raise Brk()
        elif k == 'ReturnStmt':
            for c in kids(s): effects_of_expr(c, env, eff, methods, depth)
            raise Ret()
        elif k == 'DeclStmt':
            for d in kids(s):
                for c in kids(d): effects_of_expr(c, env, eff, methods, depth)
                if d.get('kind') == 'VarDecl' and kids(d):
                    v = ev(kids(d)[-1], env)
                    if v is not UNK: env[d['name']] = v
        else:
            effects_of_expr(s, env, eff, methods, depth)

objs = load(sys.argv[1])
spec = [o for o in objs if o['kind'] == 'ClassTemplateSpecializationDecl'][0]
methods = find(spec, lambda n: n.get('kind') == 'CXXMethodDecl' and n.get('name') in ('read_item', 'get_size', 'begin_array', 'begin_object'), [])
read_item = [m for m in methods if m['name'] == 'read_item'][0]
body = kids([c for c in kids(read_item) if c['kind'] == 'CompoundStmt'][0])
table = {}
for v in range(256):
    eff = []
    try: run(body, {'type': v}, eff, methods, 0)
    except Ret: pass
    # drop the common prefix (source error check + read of the type byte)
    table[v] = ' '.join(e for e in eff if not e.startswith('on-fail:source_error'))
# print compressed by runs
prev = None; start = 0
for v in range(257):
    cur = table.get(v)
    if cur != prev:
        if prev is not None: print('%02x-%02x: %s' % (start, v - 1, prev))
        prev = cur; start = v
