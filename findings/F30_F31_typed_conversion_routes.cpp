#include <jsoncons/json.hpp>
#include <jsoncons_ext/cbor/cbor.hpp>
#include <jsoncons_ext/bson/bson.hpp>
#include <iostream>
namespace ns { struct B { std::vector<uint8_t> data; int n; }; }
JSONCONS_ALL_MEMBER_TRAITS(ns::B, data, n)
using namespace jsoncons;
int main(){
  auto v = json::parse("[1,2,3]").as<std::vector<json>>();
  std::cout << "as<vector<json>> size=" << v.size() << " first=" << (v.empty()? json() : v[0]) << "\n";
  auto v2 = decode_json<std::vector<json>>(std::string("[1,2,3]"));
  std::cout << "decode_json<vector<json>> size=" << v2.size() << "\n";
  // CBOR byte string member through streaming route
  json j; j["data"] = json(byte_string_arg, std::vector<uint8_t>{1,2,3}); j["n"] = 7;
  std::vector<uint8_t> cb; cbor::encode_cbor(j, cb);
  try { auto b = cbor::decode_cbor<ns::B>(cb); std::cout << "cbor stream: data=" << b.data.size() << " n=" << b.n << "\n"; } catch (const std::exception& e) { std::cout << "cbor stream error: " << e.what() << "\n"; }
  try { auto b = cbor::decode_cbor<json>(cb).as<ns::B>(); std::cout << "cbor via json: data=" << b.data.size() << " n=" << b.n << "\n"; } catch (const std::exception& e) { std::cout << "cbor json error: " << e.what() << "\n"; }
  // BSON top-level vector
  std::vector<int> vi{1,2,3}; std::vector<uint8_t> bb;
  try { bson::encode_bson(vi, bb); auto r = bson::decode_bson<std::vector<int>>(bb); std::cout << "bson vector<int> size=" << r.size() << "\n"; } catch (const std::exception& e) { std::cout << "bson error: " << e.what() << "\n"; }
}
