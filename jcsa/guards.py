"""Recognition of limit comparisons (nesting depth, item counts, sizes) on CFG edges."""
from . import ast as A

FLIP = {'<': '>', '>': '<', '<=': '>=', '>=': '<=', '==': '==', '!=': '!='}
NEG = {'<': '>=', '>': '<=', '<=': '>', '>=': '<', '==': '!=', '!=': '=='}

def mentions(e, names):
    """True if expression e refers to a member/variable/callee whose name is in `names`."""
    for x in A.walk(e):
        k = x.get('k')
        if k in ('MemberExpr', 'DeclRefExpr', 'CXXDependentScopeMemberExpr', 'UnresolvedMemberExpr') and x.get('n') in names:
            return True
    return False

def comparison(cond):
    """(op, lhs, rhs) if cond is a builtin comparison, else None."""
    s = A.strip(cond)
    if s is None: return None
    if s.get('k') == 'BinaryOperator' and s.get('op') in FLIP:
        return s['op'], s['lhs'], s['rhs']
    if s.get('k') == 'CXXOperatorCallExpr' and s.get('oop') in FLIP and len(s.get('args') or []) == 2:
        return s['oop'], s['args'][0], s['args'][1]
    return None

def limit_test(cond, limit_names):
    """If `cond` compares a quantity X against a limit L (an expression mentioning one of limit_names),
    return (op, X, L) normalised so that the condition reads `X op L`; else None."""
    c = comparison(cond)
    if c is None: return None
    op, l, r = c
    if mentions(r, limit_names) and not mentions(l, limit_names):
        return op, l, r
    if mentions(l, limit_names) and not mentions(r, limit_names):
        return FLIP[op], r, l
    return None

def quantity_shape(x):
    """Classify the compared quantity: ('preinc', name) ++n ; ('postinc', name) n++ ; ('size', name) c.size() ;
    ('plain', name) n ; ('plus1', name) n+1 ; (None, text)."""
    s = A.strip(x, casts=True)
    if s is None: return (None, '')
    if s.get('k') == 'UnaryOperator' and s.get('op') == '++':
        return ('postinc' if s.get('postfix') else 'preinc', A.ref_name(s.get('sub')))
    if A.is_call(s) and A.callee_name(s) == 'size':
        return ('size', A.ref_name(s.get('obj')))
    if s.get('k') in ('MemberExpr', 'DeclRefExpr'):
        return ('plain', s.get('n'))
    if s.get('k') == 'BinaryOperator' and s.get('op') == '+' and A.const(s.get('rhs')) == 1:
        return ('plus1', A.ref_name(s.get('lhs')))
    return (None, A.text(s))

def assigns_enumerator(stmt, target_names, enumerator):
    """stmt is `target = <enumerator>` (through the error_code conversion)."""
    s = A.strip(stmt)
    if s is None: return False
    tgt = None; rhs = None
    if s.get('k') == 'BinaryOperator' and s.get('op') == '=':
        tgt, rhs = s.get('lhs'), s.get('rhs')
    elif s.get('k') == 'CXXOperatorCallExpr' and s.get('oop') == '=' and len(s.get('args') or []) == 2:
        tgt, rhs = s['args']
    else:
        return False
    if A.ref_name(tgt) not in target_names: return False
    for x in A.walk(rhs):
        if x.get('k') == 'DeclRefExpr' and x.get('dk') == 'EnumConstant' and x.get('n') == enumerator:
            return True
    return False

def region_of_edge(g, edge):
    """CFG nodes dominated by `edge` (inclusive)."""
    out = []
    for n in g.rpo:
        if n is edge or edge in g.dominators(n):
            out.append(n)
    return out


def block_after(edge, limit=12):
    """Straight-line nodes entered through `edge` (followed while there is a single successor): the block an if-branch
    jumps to, even when the block is shared with another edge of a short-circuit condition."""
    out = []
    cur = edge.succ[0] if edge.succ else None
    n = 0
    while cur is not None and n < limit:
        out.append(cur); n += 1
        if cur.kind in ('return', 'exit', 'throw', 'unreach') or len(cur.succ) != 1: break
        cur = cur.succ[0]
    return out


def call_truth(cond):
    """(call, polarity) when cond is `f(...)` or `!f(...)` possibly wrapped in __builtin_expect / !! / casts: cond is true exactly when
    the call's truth value equals `polarity`.  None otherwise."""
    s = cond; pol = True
    for _ in range(12):
        s = A.strip(s, casts=True)
        if s is None: return None
        k = s.get('k')
        if k == 'UnaryOperator' and s.get('op') == '!':
            pol = not pol; s = s.get('sub'); continue
        if k == 'CallExpr' and A.callee_name(s) == '__builtin_expect':
            s = (s.get('args') or [None])[0]; continue
        if k in ('CallExpr', 'CXXMemberCallExpr'): return s, pol
        return None
    return None


def implied_by_call(facts, fn, cond_ast, label, _cache={}):
    """A condition that is a call of a bool helper (`if (!read_count(length, ec)) return;`): the comparisons the helper itself made on
    every path on which it returns the value that the caller's branch requires.  Yields (callee, callee CFG, condition, label, edge,
    {callee parameter name: caller argument variable name}) for each such comparison - the caller's node is guarded by them exactly
    as if the helper's statements stood in its place."""
    from . import cfg as C
    ct = call_truth(cond_ast)
    if not ct or not isinstance(label, bool): return []
    call, pol = ct
    callee = facts.callee(fn, call)
    if callee is None or callee.get('body') is None or callee.get('dep'): return []
    want = (label == pol)            # the truth value the helper returned on this branch
    key = (callee['_unit'], callee['id'])
    if key not in _cache:
        _cache[key] = C.CFG(callee['body'])
    g2 = _cache[key]
    rets = [n for n in g2.rpo if n.kind == 'return' and isinstance(n.ast, dict) and n.ast.get('val') is not None]
    if not rets or any(A.const(n.ast['val']) is None for n in rets): return []
    sel = [n for n in rets if bool(A.const(n.ast['val'])) == want]
    if not sel: return []
    common = None
    per = []
    for n in sel:
        gs = [(id(e.src), lab, a, e) for a, lab, e in g2.guards(n) if isinstance(lab, bool) and e.src is not None]
        per.append(gs)
        keys = set((k, lab) for k, lab, a, e in gs)
        common = keys if common is None else (common & keys)
    names = {}
    for p, a in zip(callee['params'], call.get('args') or []):
        rn = A.ref_name(a)
        if rn: names[p['n']] = rn
    out = []
    for k, lab, a, e in per[0]:
        if (k, lab) in common: out.append((callee, g2, a, lab, e, names))
    return out
