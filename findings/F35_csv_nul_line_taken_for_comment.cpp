#include <jsoncons/json.hpp>
#include <jsoncons_ext/csv/csv.hpp>
#include <iostream>
using namespace jsoncons;
int main(){
  json t(json_array_arg); 
  json r1(json_array_arg); r1.push_back("a"); r1.push_back("b"); t.push_back(r1);
  json r2(json_array_arg); r2.push_back(std::string("\0x",2)); r2.push_back("y"); t.push_back(r2);
  auto opts = csv::csv_options{}.mapping_kind(csv::csv_mapping_kind::n_rows).infer_types(false);
  std::string text; csv::encode_csv(t, text, opts);
  json r = csv::decode_csv<json>(text, opts);
  std::cout << "rows written 2, rows read " << r.size() << (r==t?" equal":" DIFFERENT") << "\n"; return r==t?0:1;
}
