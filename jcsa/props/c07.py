"""C07 Binary decoders implement their specifications - dispatch tables vs specification tables."""
import json, os
from .. import frontend as F, ast as A, util as U, peval as P

EXPLANATION = ('For each binary decoder the function that dispatches on the initial byte / type marker is partially evaluated '
               'once per byte value 0..255 (constant propagation of the byte through the if-chains, switches and helper '
               'functions, callees of the same class inlined); the guarded effects found for each byte - bytes read, integer type '
               'and byte order of the conversion, UTF-8 validation, visitor event and tag, error stored - are compared with the row of '
               'the specification table in /verif/spec written from the standard.  Nothing is executed.')
NOT_DECIDED = ('the decoded value beyond width/signedness/byte order; half/float conversion arithmetic; bigfloat/decimal-fraction text; '
               'behaviour on all inputs (only the per-byte dispatch rows are decided)')

CTYPE = {'uint8': 'unsigned char', 'int8': 'signed char', 'uint16': 'unsigned short', 'int16': 'short',
         'uint32': 'unsigned int', 'int32': 'int', 'uint64': 'unsigned long', 'int64': 'long',
         'float': 'float', 'double': 'double', 'half': 'unsigned short'}
WIDTH = {'uint8': 1, 'int8': 1, 'uint16': 2, 'int16': 2, 'uint32': 4, 'int32': 4, 'uint64': 8, 'int64': 8, 'float': 4, 'double': 8, 'half': 2}

def spec(name):
    return json.load(open(os.path.join(F.VERIF, 'spec', name)))

class Obs:
    """Observation of one partial evaluation: what the code does for one discriminant value."""
    def __init__(self, effects, skip_first_read=True):
        self.events = []     # (name, args, guards, line)
        self.reads = []      # (nbytes, guards, pointee type, line)
        self.spans = []      # (len, guards, line)
        self.conv = []       # (fn, T, nbytes, guards, line)
        self.errors = []     # (enumerator, guards, line)
        self.validates = []  # guards
        self.calls = []      # other member calls (name,args,guards)
        first = skip_first_read
        for e in effects:
            if e.kind == 'call':
                n = e.name
                if n.startswith('visitor.'):
                    if n != 'visitor.flush': self.events.append((n[8:], e.args, e.guards, e.line))
                elif n == 'source_.read':
                    if first: first = False; continue
                    a0 = (e.extra['ast'].get('args') or [None])[0]
                    pt = ''
                    if a0 is not None:
                        t = a0.get('t')
                        pt = e.extra.get('ptype', '')
                    self.reads.append((e.args[1] if len(e.args) > 1 else None, e.guards, pt, e.line))
                elif n == 'source_.read_span':
                    self.spans.append((e.args[0] if e.args else None, e.guards, e.line))
                elif n in ('big_to_native', 'little_to_native', 'binary::big_to_native', 'binary::little_to_native'):
                    ta = e.extra.get('ta') or ['?']
                    self.conv.append((n.split('::')[-1], ta[0], e.args[1] if len(e.args) > 1 else None, e.guards, e.line))
                elif n == 'validate' or n.endswith('.validate') or n.endswith('validate'):
                    self.validates.append(e.guards)
                else:
                    self.calls.append((n, e.args, e.guards, e.line))
            elif e.kind == 'set' and e.name == 'ec':
                self.errors.append((e.args[0], e.guards, e.line))

    def main_events(self):
        return [x for x in self.events if not x[2]]
    def main_errors(self):
        return [x for x in self.errors if not x[1]]
    def summary(self):
        return {'events': ['%s(%s)%s' % (n, ', '.join(str(a) for a in args[:3]), (' if ' + ' && '.join(g)) if g else '') for n, args, g, l in self.events][:6],
                'reads': [(n, list(g)) for n, g, t, l in self.reads][:6],
                'conv': ['%s<%s>' % (f, t) for f, t, n, g, l in self.conv][:6],
                'spans': [str(s[0]) for s in self.spans][:3],
                'errors': ['%s%s' % (e, (' if ' + ' && '.join(g)) if g else '') for e, g, l in self.errors][:4],
                'utf8_validated': bool(self.validates)}

def tag_of(args):
    for a in args:
        if isinstance(a, str) and a.startswith('semantic_tag::'): return a.split('::')[1]
    return None

def run_byte(facts, fn, bind, follow, pure=None, max_depth=4):
    pe = P.PEval(facts, fn, follow=follow, pure=pure, bind=bind, max_depth=max_depth)
    try:
        pe.exec_body(fn, {})
    except P.Stop:
        pass
    return pe.effects

def same_class_follow(cls_suffix):
    def follow(callee, call):
        return A.strip_targs(callee.get('cls') or '').endswith(cls_suffix)
    return follow

# ------------------------------------------------------------------------------------------------
def check_msgpack(chk, tier):
    rid = 'R07.msgpack'
    chk.rule(rid, 'basic_msgpack_parser::read_item: for every type byte 0..255 the bytes read, conversion type, UTF-8 validation, '
                  'visitor event/tag or error equal the MessagePack specification row', floor=256)
    facts = F.load(['msgpack'], tier); chk.units.append('msgpack')
    sp = spec('msgpack.json')
    rows = {}
    for r in sp['rows']:
        for b in range(r['lo'], r['hi'] + 1): rows[b] = r
    chk.require(len(rows) == 256, 'msgpack spec table does not cover 256 bytes')
    fns = U.functions(facts, cls='basic_msgpack_parser', name='read_item')
    chk.require(fns, 'basic_msgpack_parser::read_item not found')
    follow = same_class_follow('basic_msgpack_parser')
    for fn in fns:
        chk.analysed(fn)
        inst = fn['q']
        for b in range(256):
            o = Obs(run_byte(facts, fn, {'type': b}, follow))
            r = rows[b]
            bad = compare_msgpack(b, r, o)
            site = U.site(fn, 'byte=0x%02x' % b)
            facts_ = {'byte': '0x%02x' % b, 'spec': r, 'observed': o.summary(), 'instantiation': inst}
            if bad:
                chk.fail(rid, U.site(fn, 'family=%s' % r['family']) + ' ' + bad[0], fn['file'], bad[2] or fn['l'],
                         'type byte 0x%02x (%s): %s' % (b, r['family'], bad[1]), facts_, inst)
            else:
                chk.ok(rid, site, facts_ if b in (0x00, 0xa5, 0xc1, 0xcd, 0xd9, 0xdc, 0xe0) else None)

def first_line(o):
    for coll in (o.events, o.reads, o.conv, o.errors):
        for x in coll:
            return x[-1]
    return 0

def expect_single_event(o, name):
    ev = o.main_events()
    if len(ev) != 1 or ev[0][0] != name:
        return ('event', 'expected exactly one unconditional %s event, found %s' % (name, [e[0] for e in ev] or 'none'), first_line(o))
    return None

def expect_length_read(o, ltype, idx=0):
    """The idx-th data read is a big-endian unsigned length of type ltype."""
    w = WIDTH[ltype]
    reads = [r for r in o.reads if not r[1]]
    if len(reads) <= idx:
        return ('length', 'expected a %d-byte length read, none found' % w, first_line(o))
    if reads[idx][0] != w:
        return ('length', 'length is read as %s bytes, specification says %d (%s)' % (reads[idx][0], w, ltype), reads[idx][3])
    if w > 1 or o.conv:
        conv = [c for c in o.conv if not c[3]]
        if len(conv) <= idx:
            return ('length', 'no big-endian conversion of the %d-byte length' % w, reads[idx][3])
        f, t, n, g, l = conv[idx]
        if f != 'big_to_native':
            return ('order', 'length converted with %s (MessagePack is big-endian)' % f, l)
        if t != CTYPE[ltype]:
            return ('length', 'length converted as %s, specification says %s' % (t, ltype), l)
    return None

def compare_msgpack(b, r, o):
    ev = r['event']
    if ev == 'error':
        if o.events: return ('event', 'reserved byte produces event %s' % o.events[0][0], o.events[0][3])
        if not o.main_errors(): return ('error', 'reserved byte stores no error', first_line(o))
        return None
    if o.main_errors():
        return ('error', 'stores error %s unconditionally' % o.main_errors()[0][0], o.main_errors()[0][2])
    if ev in ('uint64', 'int64') and 'value' in r and 'read_type' not in r:
        bad = expect_single_event(o, ev + '_value')
        if bad: return bad
        n, args, g, l = o.main_events()[0]
        want = b if r['value'] == 'byte' else b - 256
        if not args or args[0] != want: return ('value', 'event carries %s, specification says %d' % (args[0] if args else None, want), l)
        if tag_of(args) != 'none': return ('tag', 'tag %s' % tag_of(args), l)
        if o.reads or o.spans: return ('payload', 'reads payload bytes for a fixint', l)
        return None
    if ev == 'null':
        return expect_single_event(o, 'null_value') or ((('payload', 'reads payload', first_line(o)) if o.reads or o.spans else None))
    if ev == 'bool':
        bad = expect_single_event(o, 'bool_value')
        if bad: return bad
        n, args, g, l = o.main_events()[0]
        if args[0] != (1 if r['value'] else 0): return ('value', 'bool value %s, specification says %s' % (args[0], r['value']), l)
        return None
    if 'read_type' in r:
        rt = r['read_type']
        bad = expect_single_event(o, ev + '_value')
        if bad: return bad
        n, args, g, l = o.main_events()[0]
        reads = [x for x in o.reads if not x[1]]
        if len(reads) != 1 or reads[0][0] != WIDTH[rt]:
            return ('payload', 'reads %s payload bytes, specification says %d' % ([x[0] for x in reads], WIDTH[rt]), l)
        conv = [c for c in o.conv if not c[3]]
        if conv:
            f, t, nb, g2, l2 = conv[0]
            if f != 'big_to_native': return ('order', 'payload converted with %s (MessagePack is big-endian)' % f, l2)
            if t != CTYPE[rt]: return ('type', 'payload converted as %s, specification says %s' % (t, rt), l2)
        elif WIDTH[rt] != 1:
            return ('type', 'multi-byte payload is not converted from big-endian', l)
        else:
            if rt == 'int8':
                return ('type', 'int8 payload read without a signed conversion', l)
        if tag_of(args) != 'none': return ('tag', 'tag %s on a plain number' % tag_of(args), l)
        return None
    if ev in ('string', 'byte_string'):
        name = 'string_value' if ev == 'string' else 'byte_string_value'
        bad = expect_single_event(o, name)
        if bad: return bad
        n, args, g, l = o.main_events()[0]
        spans = [s for s in o.spans if not s[1]]
        if len(spans) != 1: return ('payload', 'expected one read_span of the payload', l)
        if r.get('length') == 'low5':
            if spans[0][0] != (b & 0x1f): return ('length', 'fixstr length %s, specification says %d' % (spans[0][0], b & 0x1f), spans[0][2])
        else:
            bad = expect_length_read(o, r['length_type'])
            if bad: return bad
        if r.get('utf8') and not o.validates: return ('utf8', 'text string is not UTF-8 validated before the event', l)
        if tag_of(args) != 'none': return ('tag', 'tag %s' % tag_of(args), l)
        return None
    if ev in ('begin_array', 'begin_object'):
        bad = expect_single_event(o, ev)
        if bad: return bad
        n, args, g, l = o.main_events()[0]
        if r.get('length') == 'low4':
            if args[0] != (b & 0x0f): return ('length', 'fix container length %s, specification says %d' % (args[0], b & 0x0f), l)
            if o.reads: return ('payload', 'reads bytes for a fix container header', l)
        else:
            bad = expect_length_read(o, r['length_type'])
            if bad: return bad
        return None
    if ev == 'ext':
        # header: length (fixed or typed) then a 1-byte signed type
        if 'length_type' in r:
            bad = expect_length_read(o, r['length_type'])
            if bad: return bad
            idx = 1
        else:
            idx = 0
        reads = [x for x in o.reads if not x[1]]
        if len(reads) <= idx or reads[idx][0] != 1:
            return ('ext', 'ext type is not read as one byte', first_line(o))
        conv = [c for c in o.conv if not c[3]]
        if len(conv) > idx and conv[idx][1] != CTYPE['int8']:
            return ('ext', 'ext type converted as %s, specification says int8' % conv[idx][1], conv[idx][4])
        if not any(e[0] == 'byte_string_value' for e in o.events):
            return ('ext', 'no byte_string_value event for a generic ext', first_line(o))
        return None
    return ('spec', 'unhandled spec row kind %s' % ev, 0)

def run(chk, tier, only_rule=None):
    chk.explanation = EXPLANATION
    chk.not_decided = NOT_DECIDED
    check_msgpack(chk, tier)
