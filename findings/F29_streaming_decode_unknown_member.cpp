#include <jsoncons/json.hpp>
#include <jsoncons_ext/cbor/cbor.hpp>
#include <jsoncons_ext/msgpack/msgpack.hpp>
#include <iostream>
namespace ns { struct P { int a; std::string b; jsoncons::optional<std::vector<int>> c; }; struct Q { int a; int b; }; }
JSONCONS_N_MEMBER_TRAITS(ns::P, 2, a, b, c)
JSONCONS_ALL_MEMBER_NAME_TRAITS(ns::Q, (a,"A"), (b,"B"))
using namespace jsoncons;
int main(){
  int bad=0;
  std::vector<std::string> docs = {
    R"({"a":1,"b":"x"})", R"({"x":5,"a":1,"b":"x"})", R"({"a":1,"x":[1,[2,{"y":3}]],"b":"x","c":[1,2]})", R"({"x":{"a":9,"b":"no"},"a":1,"y":null,"b":"x","z":true})",
    R"({"a":1,"x":5})", R"({"x":5})", R"({"a":1,"b":"x","c":[3],"x":{"k":[1,2,3]}})"};
  for (auto& s : docs) {
    json j = json::parse(s);
    std::string r1, r2, r3, r4;
    auto show=[](const ns::P& p){ return std::to_string(p.a)+"/"+p.b+"/"+(p.c? std::to_string(p.c->size()):"-"); };
    try { r1 = show(decode_json<ns::P>(s)); } catch (const std::exception& e) { r1 = "error"; }
    try { r2 = show(j.as<ns::P>()); } catch (const std::exception& e) { r2 = "error"; }
    std::vector<uint8_t> cb; cbor::encode_cbor(j, cb);
    try { r3 = show(cbor::decode_cbor<ns::P>(cb)); } catch (const std::exception& e) { r3 = "error"; }
    std::vector<uint8_t> mb; msgpack::encode_msgpack(j, mb);
    try { r4 = show(msgpack::decode_msgpack<ns::P>(mb)); } catch (const std::exception& e) { r4 = "error"; }
    bool ok = r1==r2 && r3==r2 && r4==r2;
    std::cout << (ok?"ok   ":"DIFF ") << s << "  stream=" << r1 << " json=" << r2 << " cbor=" << r3 << " msgpack=" << r4 << "\n";
    if (!ok) ++bad;
  }
  for (std::string s : {R"({"A":1,"B":2})", R"({"x":[1],"A":1,"y":{"B":7},"B":2})"}) {
    std::string r1,r2;
    try { auto q=decode_json<ns::Q>(s); r1=std::to_string(q.a)+"/"+std::to_string(q.b);} catch(const std::exception&){r1="error";}
    try { auto q=json::parse(s).as<ns::Q>(); r2=std::to_string(q.a)+"/"+std::to_string(q.b);} catch(const std::exception&){r2="error";}
    std::cout << (r1==r2?"ok   ":"DIFF ") << s << " stream=" << r1 << " json=" << r2 << "\n"; if (r1!=r2) ++bad;
  }
  std::cout << "bad=" << bad << "\n"; return bad?1:0;
}
