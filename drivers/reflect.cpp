// instantiation driver: reflection / typed encode-decode (json_traits, decode_traits, encode_traits, macro families)
#include <jsoncons/json.hpp>
#include <jsoncons/json_cursor.hpp>
#include <jsoncons/staj_iterator.hpp>
#include <jsoncons_ext/cbor/cbor.hpp>
#include <jsoncons_ext/msgpack/msgpack.hpp>
#include <array>
#include <bitset>
#include <forward_list>
#include <list>
#include <deque>
#include <unordered_map>
#include <map>
#include <set>
#include <tuple>
#include <valarray>
#include <vector>

namespace jcsa_reflect {
struct all_members { int a; std::string b; std::vector<double> c; };
struct n_members { int a; std::string b; jsoncons::optional<int> c; };
class ctor_getter {
    int a_; std::string b_;
public:
    ctor_getter(int a, const std::string& b) : a_(a), b_(b) {}
    int a() const { return a_; }
    const std::string& b() const { return b_; }
};
class getter_setter {
    int a_{0}; std::string b_;
public:
    int getA() const { return a_; } void setA(int v) { a_ = v; }
    const std::string& getB() const { return b_; } void setB(const std::string& v) { b_ = v; }
};
struct n_members_name { int a; std::string b; jsoncons::optional<int> c; };
class n_ctor_getter {
    int a_; std::string b_; jsoncons::optional<int> c_;
public:
    n_ctor_getter(int a, const std::string& b, const jsoncons::optional<int>& c = jsoncons::optional<int>()) : a_(a), b_(b), c_(c) {}
    int a() const { return a_; }
    const std::string& b() const { return b_; }
    const jsoncons::optional<int>& c() const { return c_; }
};
class n_ctor_getter_name {
    int a_; std::string b_; jsoncons::optional<int> c_;
public:
    n_ctor_getter_name(int a, const std::string& b, const jsoncons::optional<int>& c = jsoncons::optional<int>()) : a_(a), b_(b), c_(c) {}
    int a() const { return a_; }
    const std::string& b() const { return b_; }
    const jsoncons::optional<int>& c() const { return c_; }
};
class n_getter_setter {
    int a_{0}; std::string b_; jsoncons::optional<int> c_;
public:
    int getA() const { return a_; } void setA(int v) { a_ = v; }
    const std::string& getB() const { return b_; } void setB(const std::string& v) { b_ = v; }
    const jsoncons::optional<int>& getC() const { return c_; } void setC(const jsoncons::optional<int>& v) { c_ = v; }
};
class n_getter_setter_name {
    int a_{0}; std::string b_; jsoncons::optional<int> c_;
public:
    int getA() const { return a_; } void setA(int v) { a_ = v; }
    const std::string& getB() const { return b_; } void setB(const std::string& v) { b_ = v; }
    const jsoncons::optional<int>& getC() const { return c_; } void setC(const jsoncons::optional<int>& v) { c_ = v; }
};
enum class colour { red, green, blue };
struct base { virtual ~base() = default; virtual int kind() const = 0; };
struct derived1 : base { int x{0}; int kind() const override { return 1; } };
struct derived2 : base { std::string y; int kind() const override { return 2; } };
}
JSONCONS_ALL_MEMBER_TRAITS(jcsa_reflect::all_members, a, b, c)
JSONCONS_N_MEMBER_TRAITS(jcsa_reflect::n_members, 2, a, b, c)
JSONCONS_N_MEMBER_NAME_TRAITS(jcsa_reflect::n_members_name, 2, (a, "A"), (b, "B"), (c, "C"))
JSONCONS_N_CTOR_GETTER_TRAITS(jcsa_reflect::n_ctor_getter, 2, a, b, c)
JSONCONS_N_CTOR_GETTER_NAME_TRAITS(jcsa_reflect::n_ctor_getter_name, 2, (a, "A"), (b, "B"), (c, "C"))
JSONCONS_N_GETTER_SETTER_TRAITS(jcsa_reflect::n_getter_setter, get, set, 2, A, B, C)
JSONCONS_N_GETTER_SETTER_NAME_TRAITS(jcsa_reflect::n_getter_setter_name, 2, (getA, setA, "a"), (getB, setB, "b"), (getC, setC, "c"))
JSONCONS_ALL_CTOR_GETTER_TRAITS(jcsa_reflect::ctor_getter, a, b)
JSONCONS_ALL_GETTER_SETTER_TRAITS(jcsa_reflect::getter_setter, get, set, A, B)
JSONCONS_ENUM_TRAITS(jcsa_reflect::colour, red, green, blue)
JSONCONS_ALL_MEMBER_TRAITS(jcsa_reflect::derived1, x)
JSONCONS_ALL_MEMBER_TRAITS(jcsa_reflect::derived2, y)
JSONCONS_POLYMORPHIC_TRAITS(jcsa_reflect::base, jcsa_reflect::derived1, jcsa_reflect::derived2)

template <class T>
void jcsa_roundtrip(const std::string& s, const std::vector<uint8_t>& bytes)
{
    using namespace jsoncons;
    T v = decode_json<T>(s);
    std::string out; encode_json(v, out);
    json j = json(v);           // json route
    T w = j.template as<T>();
    bool is = j.template is<T>();
    T c = cbor::decode_cbor<T>(bytes);
    std::vector<uint8_t> cb; cbor::encode_cbor(v, cb);
    T m = msgpack::decode_msgpack<T>(bytes);
    (void)w; (void)is; (void)c; (void)m;
}

template <class T>
void jcsa_json_only(const std::string& s)
{
    using namespace jsoncons;
    T v = decode_json<T>(s);
    std::string out; encode_json(v, out);
    json j = json(v);
    T w = j.template as<T>();
    (void)w;
}

// element type constructible from the container itself (streaming encode of it does not compile, N6)
void jcsa_use_vector_of_json(const jsoncons::json& j, const std::string& s)
{
    auto v = j.as<std::vector<jsoncons::json>>();
    auto v2 = jsoncons::decode_json<std::vector<jsoncons::json>>(s);
    // positive control for the brace-initialisation rule: must be found on every run
    std::vector<jsoncons::json> jcsa_control_brace{std::vector<jsoncons::json>()};
    (void)v2; (void)jcsa_control_brace;
    bool is = j.is<std::vector<jsoncons::json>>();
    (void)v; (void)is;
}

void jcsa_use_reflect(const std::string& s, const std::vector<uint8_t>& b)
{
    jcsa_roundtrip<std::vector<int64_t>>(s, b);
    jcsa_roundtrip<std::vector<std::string>>(s, b);
    jcsa_roundtrip<std::vector<uint8_t>>(s, b);
    jcsa_roundtrip<std::array<int, 3>>(s, b);
    jcsa_roundtrip<std::tuple<int, std::string, double>>(s, b);
    jcsa_roundtrip<std::pair<int, std::string>>(s, b);
    jcsa_roundtrip<std::map<std::string, int>>(s, b);
    jcsa_json_only<std::set<std::string>>(s);   // encoding std::set<int> does not compile (typed-array path, observation N6)
    jcsa_roundtrip<std::valarray<double>>(s, b);
    jcsa_roundtrip<std::forward_list<std::string>>(s, b);   // numeric element types of forward_list/deque do not compile (typed-array path, N6)
    jcsa_roundtrip<std::list<std::string>>(s, b);
    jcsa_roundtrip<std::deque<std::string>>(s, b);
    jcsa_roundtrip<std::unordered_map<std::string, int>>(s, b);
    jcsa_roundtrip<std::bitset<16>>(s, b);
    jcsa_roundtrip<jsoncons::optional<int>>(s, b);
    jcsa_roundtrip<jcsa_reflect::all_members>(s, b);
    jcsa_roundtrip<jcsa_reflect::n_members>(s, b);
    jcsa_roundtrip<jcsa_reflect::ctor_getter>(s, b);
    jcsa_roundtrip<jcsa_reflect::n_members_name>(s, b);
    jcsa_roundtrip<jcsa_reflect::n_ctor_getter>(s, b);
    jcsa_roundtrip<jcsa_reflect::n_ctor_getter_name>(s, b);
    jcsa_roundtrip<jcsa_reflect::n_getter_setter>(s, b);
    jcsa_roundtrip<jcsa_reflect::n_getter_setter_name>(s, b);
    jcsa_roundtrip<jcsa_reflect::getter_setter>(s, b);
    jcsa_roundtrip<jcsa_reflect::colour>(s, b);
    jcsa_roundtrip<std::shared_ptr<jcsa_reflect::base>>(s, b);
    jcsa_roundtrip<std::vector<jcsa_reflect::all_members>>(s, b);
}

// staj array / object iterators over a pull cursor (views of the current event must not outlive it)
void jcsa_use_staj_iterators(const std::string& s)
{
    using namespace jsoncons;
    std::error_code ec;
    json_string_cursor cursor(s);
    auto view = staj_object_iterator<std::string, json>(cursor);
    for (const auto& kv : view) { (void)kv; }
    json_string_cursor cursor2(s);
    auto view2 = staj_array_iterator<json>(cursor2);
    for (const auto& v : view2) { (void)v; }
    json_string_cursor cursor3(s);
    auto view3 = staj_array_iterator<int>(cursor3, ec);
    for (const auto& v : view3) { (void)v; }
    json_string_cursor cursor4(s);
    auto view4 = staj_object_iterator<std::string, std::string>(cursor4, ec);
    for (const auto& kv : view4) { (void)kv; }
}

// strings whose character type differs from the cursor's (decode_traits converts through a buffer)
void jcsa_use_wide_string_decode(const std::string& s)
{
    auto w = jsoncons::decode_json<std::wstring>(s);
    auto v = jsoncons::decode_json<std::vector<std::wstring>>(s);
    (void)w; (void)v;
}

// R17.11 positive example (must be reported inside /verif/drivers on every run, never inside the library): a string handed on
// through a NUL-terminated pointer, which ends it at the first U+0000
namespace jcsa_reflect {
inline std::wstring cstr_truncation_witness(const std::wstring& buf) { return std::wstring(buf.c_str()); }
}
void jcsa_use_cstr_witness() { (void)jcsa_reflect::cstr_truncation_witness(L"a"); }
