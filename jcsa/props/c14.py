"""C14 JSON Pointer operations follow RFC 6901 - escape tables, token automaton, index grammar."""
from .. import frontend as F, ast as A, cfg as C, util as U, peval as P, guards as G, inline as I

EXPLANATION = ('(R14.1) every reference-token escape writer maps ~ to ~0, / to ~1 and copies every other character (all 256 characters, by '
               'partial evaluation); (R14.2) the pointer tokenizer is the inverse automaton: ~0 -> ~, ~1 -> /, any other character after ~ is an '
               'error, / separates tokens, a non-empty pointer must start with /; (R14.3) every conversion of a reference token to an array '
               'index is followed by the RFC 6901 grammar test that rejects leading zeros (and the token "-" is handled before the '
               'conversion).')
NOT_DECIDED = 'that the addressed location is the right one for all documents; only the structural clauses are decided'

def r14_1(chk, facts):
    chk.rule('R14.1', 'escape writers: ~ -> ~0, / -> ~1, every other character copied (256 characters per writer: every character loop of '
                      'jsonpointer.hpp that tests for `~`); the public escaping entry points (escape, basic_json_pointer::to_string) each '
                      'contain such a loop or call a helper that does', floor=256)
    fns = [f for f in facts.functions if f['file'].endswith('jsonpointer.hpp') and not f.get('dep') and f.get('body') is not None]
    def is_writer_loop(lp):
        # tests for `~` and emits the digit of an escape (`0` or `1`): the tokenizer, which also tests for `~`, emits `~` and `/` but never a digit
        tilde = any(A.const(y) == 0x7e for y in A.walk(lp.get('body')) if y.get('k') in ('CharacterLiteral', 'IntegerLiteral') or 'ev' in y)
        digit = any(A.is_call(y) and A.callee_name(y) in ('push_back', 'append', 'operator+=') and any(A.const(a) in (0x30, 0x31) for a in (y.get('args') or [])) for y in A.walk(lp.get('body')))
        return tilde and digit
    entries = 0
    for fn in U.one_per_inst([f for f in fns if f['n'] in ('escape', 'to_string')]):
        if fn['n'] == 'to_string' and 'basic_json_pointer' not in (fn.get('cls') or ''): continue
        entries += 1
        has = any(x.get('k') == 'CXXForRangeStmt' and is_writer_loop(x) for b in I.closure_bodies(facts, fn, depth=2) for x in A.walk_no_lambda(b))
        site = U.site(fn, 'escaping entry point')
        if has: chk.ok('R14.1', site, {'function': fn['q']})
        else: chk.fail('R14.1', site, fn['file'], fn['l'], '%s neither contains nor calls a character loop that escapes `~` and `/`' % fn['n'], None, fn['q'])
    chk.require(entries >= 2, 'R14.1: escaping entry points (escape, basic_json_pointer::to_string) not found')
    nwr = 0
    for fn in U.one_per_inst(fns):
        loops = [x for x in A.walk_no_lambda(fn['body']) if x.get('k') == 'CXXForRangeStmt']
        for lp in loops:
            var = lp.get('var') or {}
            # the character loop: the loop variable is compared with '~'
            cmp_tilde = is_writer_loop(lp)
            inner = lp
            if not cmp_tilde: continue
            # nested loops (to_string iterates tokens, then characters): take the innermost loop that mentions '~'
            for y in A.walk_no_lambda(lp.get('body')):
                if y.get('k') == 'CXXForRangeStmt' and any(A.const(z) == 0x7e for z in A.walk(y.get('body')) if z.get('k') == 'CharacterLiteral' or 'ev' in z):
                    inner = y
            if inner is not lp and lp in [l2 for l2 in loops]: 
                if any(l2 is inner for l2 in loops) and lp is not inner: continue
            var = inner.get('var') or {}
            nwr += 1
            chk.analysed(fn)
            for c in range(256):
                tn = fn['_types'][var['t'] - 1] if var.get('t') else 'char'
                cv = P.wrap(c, tn.replace('const ', '').replace(' &', '').strip()) if 'wchar' not in tn else c
                pe = P.PEval(facts, fn, max_depth=1)
                try:
                    pe.exec_stmt(inner.get('body'), {var.get('id'): cv}, (), 0)
                except P.Stop:
                    chk.broken('R14.1: effect budget exhausted')
                pushes = [e.args[0] for e in pe.effects if e.kind == 'call' and e.name.endswith('.push_back') and not e.guards]
                want = [0x7e, 0x30] if c == 0x7e else ([0x7e, 0x31] if c == 0x2f else [cv])
                chs = repr(chr(c)) if 32 <= c < 127 else '0x%02x' % c
                site = U.site(fn, 'writer@%d char=%s' % (inner.get('l', 0) - fn['l'], chs))
                if pushes == want: chk.ok('R14.1', site, {'function': fn['q'], 'char': chs, 'written': want} if c in (0x7e, 0x2f, 0x41) else None)
                else:
                    chk.fail('R14.1', U.site(fn, 'writer char=%s' % chs), fn['file'], inner.get('l'),
                             '%s writes %s for %s, RFC 6901 needs %s' % (fn['n'], pushes, chs, want), {'function': fn['q']}, fn['q'])
    chk.require(nwr >= 1, 'R14.1: no escape writer (character loop testing for `~`) found in jsonpointer.hpp')

def r14_2(chk, facts):
    chk.rule('R14.2', 'tokenizer automaton (basic_json_pointer::parse): start accepts only /, ~ enters the escaped state, escaped accepts only 0 and 1 '
                      'and pushes ~ and /, / closes a token; end of input inside an escape is an error', floor=3 * 256)
    fns = [f for f in facts.functions if f['n'] == 'parse' and 'basic_json_pointer' in (f.get('cls') or '') and not f.get('dep') and f.get('body') is not None]
    chk.require(fns, 'basic_json_pointer::parse not found')
    en = U.enum_by_suffix(facts, 'pointer_state')
    names = U.enum_value_names(en)
    for fn in U.one_per_inst(fns):
        chk.analysed(fn)
        sw = None
        for x in A.walk_no_lambda(fn['body']):
            if x.get('k') == 'SwitchStmt' and A.ref_name(x.get('cond')) == 'state': sw = x; break
        chk.require(sw is not None, 'parse: switch over state not found')
        items = P.PEval.switch_items(sw['body'])
        state_id = None
        for x in A.walk(fn['body']):
            if x.get('k') == 'VarDecl' and x.get('n') == 'state': state_id = x.get('id')
        # the current character: operand of the inner switches (`*p` of a pointer cursor, or a loop variable such as the range-for `c`)
        cur_key = None
        for x in A.walk_no_lambda(sw['body']):
            if x.get('k') != 'SwitchStmt': continue
            cnd = A.strip(x.get('cond'), casts=True)
            if cnd is not None and cnd.get('k') == 'UnaryOperator' and cnd.get('op') == '*' and (A.strip(cnd.get('sub'), casts=True) or {}).get('k') == 'DeclRefExpr':
                cur_key = ('deref', A.strip(cnd['sub'], casts=True).get('n')); break
            if cnd is not None and cnd.get('k') == 'DeclRefExpr':
                cur_key = cnd.get('id'); break
        chk.require(cur_key is not None, 'parse: the character the state cases switch over was not recognised')
        for sv, sname in sorted(names.items()):
            if sname not in ('start', 'new_token', 'part', 'escaped'): continue
            start = None
            for i, (labels, st) in enumerate(items):
                if any(lo != 'default' and lo <= sv <= hi for lo, hi in labels): start = i
            chk.require(start is not None, 'parse: no case for pointer_state::%s' % sname)
            for c in range(256):
                pe = P.PEval(facts, fn, max_depth=1)
                env = {cur_key: c, state_id: sv}
                pe.run_items(items, start, env, (), 0)
                pushes = [(e.args[0] & 0xff) if isinstance(e.args[0], int) else e.args[0] for e in pe.effects if e.kind == 'call' and e.name == 'buffer.push_back' and not e.guards]
                tokpush = any(e.kind == 'call' and e.name == 'tokens.push_back' and not e.guards for e in pe.effects)
                errs = [e.args[0] for e in pe.effects if e.kind == 'set' and e.name == 'ec' and not e.guards]
                newstate = [e.args[0] for e in pe.effects if e.kind == 'assign' and e.name == 'state' and not e.guards]
                ns = str(newstate[-1]).split('::')[-1] if newstate else None
                if sname == 'start':
                    ok = (c == 0x2f and ns == 'new_token' and not errs) or (c != 0x2f and errs)
                    want = "'/' -> new_token, else error"
                elif sname in ('new_token', 'part'):
                    if c == 0x2f: ok = tokpush and ns == 'part' and not errs
                    elif c == 0x7e: ok = ns == 'escaped' and not pushes and not errs
                    else: ok = pushes == [c] and not errs and not tokpush
                    want = "'/' closes the token, '~' -> escaped, else copy"
                else:
                    if c == 0x30: ok = pushes == [0x7e] and ns == 'new_token' and not errs
                    elif c == 0x31: ok = pushes == [0x2f] and ns == 'new_token' and not errs
                    else: ok = bool(errs) and not pushes
                    want = "'0' -> '~', '1' -> '/', else error"
                chs = repr(chr(c)) if 32 <= c < 127 else '0x%02x' % c
                site = U.site(fn, 'state=%s char=%s' % (sname, chs))
                if ok: chk.ok('R14.2', site, {'state': sname, 'char': chs, 'pushes': pushes, 'next': ns, 'errors': errs} if c in (0x2f, 0x7e, 0x30, 0x41) else None)
                else:
                    chk.fail('R14.2', site, fn['file'], pe.effects[0].line if pe.effects else fn['l'],
                             'tokenizer state %s, character %s: pushes %s, next state %s, errors %s; RFC 6901: %s' % (sname, chs, pushes, ns, errs, want), None, fn['q'])
        # end of input inside an escape
        g = C.CFG(fn['body'])
        ok = False
        for nd in g.rpo:
            if nd.kind == 'cond':
                cmp_ = G.comparison(nd.ast)
                if cmp_ and cmp_[0] == '==' and A.ref_name(cmp_[1]) == 'state' and U.enum_const_name(cmp_[2]) == 'escaped':
                    te = [e for e in nd.succ if e.label is True]
                    if te and any(x.kind == 'stmt' and U.assigned_member(x.ast) and U.assigned_member(x.ast)[0] == 'ec' for x in G.region_of_edge(g, te[0])): ok = True
        site = U.site(fn, 'eof in escape')
        if ok: chk.ok('R14.2', site, {'verdict': 'state == escaped after the loop stores an error'})
        else: chk.fail('R14.2', site, fn['file'], fn['l'], 'a pointer ending in ~ is not rejected after the loop', None, fn['q'])
        # end of input in every other state: the statements after the character loop, evaluated with the state fixed
        top = fn['body'].get('c') or []
        wi = next((i for i, y in enumerate(top) if y.get('k') in ('WhileStmt', 'ForStmt', 'CXXForRangeStmt') and any(z is sw for z in A.walk_no_lambda(y))), None)
        chk.require(wi is not None, 'parse: character loop not found at the top level')
        for sv, sname in sorted(names.items()):
            if sname not in ('new_token', 'part', 'escaped'): continue
            pe = P.PEval(facts, fn, max_depth=1)
            env = {state_id: sv}
            for st in top[wi + 1:]:
                r = pe.exec_stmt(st, env, (), 0)
                if 'next' not in r: break
            tokpush = [e for e in pe.effects if e.kind == 'call' and e.name == 'tokens.push_back' and not e.guards]
            errs = [e for e in pe.effects if e.kind == 'set' and e.name == 'ec' and not e.guards]
            site = U.site(fn, 'end of input in state %s' % sname)
            if sname == 'escaped': ok2 = bool(errs) and not tokpush; want = 'an error (the pointer ends inside an escape)'
            else: ok2 = len(tokpush) == 1 and not errs; want = 'the open token pushed once (a pointer ending in "/" has a final empty token)'
            if ok2: chk.ok('R14.2', site, {'state': sname, 'token_pushed': len(tokpush), 'error': bool(errs)})
            else: chk.fail('R14.2', site, fn['file'], top[wi + 1].get('l') if len(top) > wi + 1 else fn['l'],
                           'end of input in tokenizer state %s: %d token push(es), error stored: %s; RFC 6901 needs %s' % (sname, len(tokpush), bool(errs), want), None, fn['q'])

def r14_3(chk, facts):
    chk.rule('R14.3', 'index grammar: every dec_to_integer conversion of a reference token to an array index is followed by a test that '
                      'rejects a leading zero (token longer than one character starting with 0), whose failing edge stores an error', floor=4)
    fns = [f for f in facts.functions if f['file'].endswith('jsonpointer.hpp') and not f.get('dep') and f.get('body') is not None]
    n = 0
    seen = set()
    # overloads of one name (const and mutable resolve) are distinct sites: number them in source order
    ovl = {}
    for name in set(f['n'] for f in fns):
        for j, key in enumerate(sorted(set((f['file'], f['l']) for f in fns if f['n'] == name))): ovl[key] = 'overload%d' % (j + 1)
    for fn in U.one_per_inst(fns):
        calls = [c for c in A.walk_no_lambda(fn['body']) if c.get('k') == 'CallExpr' and A.callee_name(c) == 'dec_to_integer']
        calls = [c for c in calls if 'buffer' in A.text((c.get('args') or [None])[0])]
        if not calls: continue
        k = (fn['l'], fn['n'])
        chk.analysed(fn)
        g = C.CFG(fn['body'])
        for i, c in enumerate(calls):
            n += 1
            nd = g.node_of(c)
            ok = False
            for m in g.rpo:
                if m.kind != 'cond' or nd is None or not g.dominates(nd, m): continue
                cmp_ = G.comparison(m.ast)
                if not cmp_ or cmp_[0] != '==' or A.const(cmp_[2]) != 0x30: continue
                lhs = A.strip(cmp_[1], casts=True)
                idx_ok = False
                if lhs is not None and ((lhs.get('k') == 'CXXOperatorCallExpr' and lhs.get('oop') == '[]' and 'buffer' in A.text((lhs.get('args') or [None])[0]) and A.const((lhs.get('args') or [None, None])[1]) == 0)
                                        or (lhs.get('k') == 'ArraySubscriptExpr')):
                    idx_ok = True
                if not idx_ok: continue
                te = [e for e in m.succ if e.label is True]
                if te and any(x.kind == 'stmt' and U.assigned_member(x.ast) and U.assigned_member(x.ast)[0] == 'ec' for x in G.block_after(te[0])):
                    # the leading-zero test must only apply to tokens longer than one character
                    if any('length() > 1' in A.text(a) or 'size() > 1' in A.text(a) for a, lab, e in g.guards(m) if lab is True): ok = True
            site = U.site(fn, '%s index conversion#%d' % (ovl[(fn['file'], fn['l'])], i + 1))
            if site in seen: continue
            seen.add(site)
            # the index is parsed into an unsigned type: with a signed one dec_to_integer accepts a leading '-' ("-0" would address element 0)
            a2 = (c.get('args') or [None, None, None])[2] if len(c.get('args') or []) > 2 else None
            it = fn['_types'][a2['t'] - 1].replace('const ', '').strip() if a2 is not None and a2.get('t') else ''
            if ok and not (it.startswith('unsigned') or it in ('size_t', 'std::size_t', 'uint64_t', 'uint32_t')):
                chk.fail('R14.3', site + ' type', fn['file'], c.get('l'), 'the array index in %s is parsed into `%s`: a signed type makes dec_to_integer accept a minus sign, so "-0" addresses element 0 (RFC 6901 array indices are unsigned digit strings)' % (fn['n'], it), None, fn['q'])
                continue
            if ok: chk.ok('R14.3', site, {'function': fn['q'], 'line': c.get('l')})
            else:
                chk.fail('R14.3', site, fn['file'], c.get('l'), 'array index parsed with dec_to_integer in %s without rejecting leading zeros (RFC 6901 section 4: "/01" is not index 1)' % fn['n'], None, fn['q'])
    chk.require(n >= 4, 'R14.3: only %d index conversions found' % n)

# basic_json members that modify the addressed document (frozen vocabulary; accessors such as at()/array_range() are non-const but do not modify)
MUTATORS = {'emplace_back', 'push_back', 'insert', 'insert_or_assign', 'try_emplace', 'emplace', 'erase', 'clear', 'swap', 'merge',
            'merge_or_update', 'resize', 'remove', 'operator='}

def mutating_ops(fn, g):
    """CFG nodes of fn that modify the document through a Json member call or a Json assignment."""
    out = []
    for nd in g.rpo:
        if nd.kind not in ('stmt', 'cond', 'return'): continue
        for c in A.calls_in(nd.ast, no_lambda=True):
            cq = c.get('cq') or ''
            if 'basic_json' not in cq: continue
            nm = A.callee_name(c)
            if c.get('k') == 'CXXOperatorCallExpr' and c.get('oop') == '=': nm = 'operator='
            if nm in MUTATORS and not c.get('cconst'):
                out.append((nd, c, nm))
    return out

def ec_stores(g):
    return [nd for nd in g.rpo if nd.kind == 'stmt' and U.assigned_member(nd.ast) and U.assigned_member(nd.ast)[0] == 'ec']

def r14_4(chk, facts):
    chk.rule('R14.4', 'error before mutation: in add, add_if_absent, replace, remove and the mutable resolve(), no error code is stored on a path '
                      'that has already modified the document (a failing call leaves the document untouched)', floor=6)
    fns = [f for f in facts.functions if f['file'].endswith('jsonpointer.hpp') and not f.get('dep') and f.get('body') is not None
           and f['n'] in ('add', 'add_if_absent', 'replace', 'remove', 'resolve', 'get')]
    n = 0
    for fn in U.one_per_inst(fns):
        g = C.CFG(fn['body'])
        muts = mutating_ops(fn, g)
        if not muts: continue
        errs = ec_stores(g)
        chk.analysed(fn)
        for i, (nd, c, nm) in enumerate(muts):
            n += 1
            site = U.site(fn, 'mutation %s#%d' % (nm, i + 1))
            after = [e for e in errs if e is not nd and any(g.can_reach(s2, [e]) for s2 in nd.succ)]
            if nm == 'try_emplace' and nd.ast.get('k') == 'DeclStmt':
                # try_emplace leaves the object alone when the key exists: an error stored under `!r.second` follows no modification
                rv = [d.get('n') for d in nd.ast.get('decls') or []]
                def under_not_inserted(e):
                    for a, lab, ed in g.guards(e):
                        t = A.text(a)
                        if any(('%s.second' % v) in t for v in rv) and ((lab is False and not t.lstrip('(').startswith('!')) or (lab is True and t.lstrip('(').startswith('!'))):
                            return True
                    return False
                after = [e for e in after if not under_not_inserted(e)]
            if not after: chk.ok('R14.4', site, {'line': c.get('l'), 'error_stores_in_function': len(errs)})
            else:
                chk.fail('R14.4', site, fn['file'], c.get('l'), '%s: the document is modified by %s() at line %s and an error is stored afterwards at line %s: the call fails and leaves the document changed' % (
                    fn['n'], nm, c.get('l'), after[0].ast.get('l')), {'mutation_line': c.get('l'), 'error_line': after[0].ast.get('l')}, fn['q'])
    chk.require(n >= 6, 'R14.4: only %d mutation sites found in the pointer operations' % n)

def r14_5(chk, facts):
    chk.rule('R14.5', 'array positions: every use of a converted index as an array position is dominated by the exact bounds rejection '
                      '(index >= size() for access, replace and erase; index > size() with index == size() appending, for insertion)', floor=6)
    fns = [f for f in facts.functions if f['file'].endswith('jsonpointer.hpp') and not f.get('dep') and f.get('body') is not None]
    n = 0
    for fn in U.one_per_inst(fns):
        convs = [c for c in A.walk_no_lambda(fn['body']) if c.get('k') == 'CallExpr' and A.callee_name(c) == 'dec_to_integer']
        if not convs: continue
        idx_names = set()
        for c in convs:
            args = c.get('args') or []
            if len(args) >= 3 and A.ref_name(args[2]): idx_names.add(A.ref_name(args[2]))
        if not idx_names: continue
        g = C.CFG(fn['body'])
        chk.analysed(fn)
        k = 0
        for nd in g.rpo:
            if nd.kind not in ('stmt', 'cond', 'return'): continue
            for c in A.calls_in(nd.ast, no_lambda=True):
                nm = A.callee_name(c)
                if 'basic_json' not in (c.get('cq') or '') or nm not in ('at', 'erase', 'insert', 'operator[]'): continue
                if not any(A.ref_name(y) in idx_names for a in c.get('args') or [] for y in A.walk(a) if y.get('k') == 'DeclRefExpr'): continue
                k += 1; n += 1
                tests = set()
                # a `const` local that holds the size (`const std::size_t length = current->size();`) stands for the call
                size_locals = {}
                for d in A.walk_no_lambda(fn['body']):
                    if d.get('k') == 'VarDecl' and d.get('init') is not None and F.tname(fn, d.get('t')).startswith('const ') and \
                       any(A.callee_name(z) == 'size' for z in A.calls_in(d['init'])) and 'size() -' not in A.text(d['init']) and 'size() +' not in A.text(d['init']):
                        size_locals[d['id']] = d['init']
                def unalias(e):
                    e2 = A.strip(e, casts=True)
                    return size_locals[e2['id']] if e2 is not None and e2.get('k') == 'DeclRefExpr' and e2.get('id') in size_locals else e
                for a, lab, e in g.guards(nd):
                    cmp_ = G.comparison(a)
                    if not cmp_: continue
                    op, l, r = cmp_
                    l, r = unalias(l), unalias(r)
                    if A.ref_name(l) in idx_names and any(A.callee_name(z) == 'size' for z in A.calls_in(r)) and 'size() -' not in A.text(r) and 'size() +' not in A.text(r):
                        tests.add((op, bool(lab)))
                    elif A.ref_name(r) in idx_names and any(A.callee_name(z) == 'size' for z in A.calls_in(l)):
                        tests.add((G.FLIP[op], bool(lab)))
                if nm == 'insert':
                    # add semantics (RFC 6901 / 6902): index == size() is legal and appends, so the rejection must be `>` and not `>=`
                    ok = (('>', False) in tests or ('<=', True) in tests) and (('==', False) in tests or ('!=', True) in tests) and ('>=', False) not in tests and ('<', True) not in tests
                    want = 'exactly index > size() rejected, index == size() handled by appending'
                else:
                    ok = ('>=', False) in tests or ('<', True) in tests
                    want = 'index >= size() rejected'
                site = U.site(fn, 'position use %s#%d' % (nm, k))
                if ok: chk.ok('R14.5', site, {'line': c.get('l'), 'dominating_tests': sorted(tests)})
                else: chk.fail('R14.5', site, fn['file'], c.get('l'), '%s: %s(…index…) at line %s is not dominated by the bounds test (%s); dominating tests on the index: %s' % (
                    fn['n'], nm, c.get('l'), want, sorted(tests)), {'tests': sorted(tests)}, fn['q'])
    chk.require(n >= 6, 'R14.5: only %d index uses found' % n)

def r14_6(chk, facts):
    """Object member names reach a JSON Pointer string only through the escape writers verified by R14.1."""
    chk.rule('R14.6', 'pointer construction: wherever flatten / the JSON Patch diff extend a pointer string with a member name, the name passes '
                      'through escape() (no raw append of key())', floor=3)
    n = 0; seen = set()
    for fn in facts.functions:
        if fn.get('dep') or fn.get('body') is None or not fn['file'].endswith(('jsonpointer.hpp', 'jsonpatch.hpp')): continue
        if fn['n'] not in ('flatten_', 'from_diff'): continue
        if (fn['file'], fn['l']) in seen: continue
        seen.add((fn['file'], fn['l']))
        pm = None
        k = 0
        for c in A.calls_in(fn['body'], no_lambda=True):
            nm = A.callee_name(c)
            is_str_op = (c.get('k') == 'CXXMemberCallExpr' and nm in ('append', 'push_back', 'insert', 'assign', 'replace')) or \
                        (c.get('k') == 'CXXOperatorCallExpr' and c.get('oop') in ('+=', '+', '<<'))
            is_esc = nm in ('escape', 'escape_string')
            if not (is_str_op or is_esc): continue
            # a string operation on a std::basic_string / stream whose operand mentions key()
            args = c.get('args') or []
            ops = args[1:] if c.get('k') == 'CXXOperatorCallExpr' else args
            keyuse = [y for a in ops for y in A.calls_in(a) if A.callee_name(y) == 'key' and y.get('k') == 'CXXMemberCallExpr']
            if not keyuse: continue
            if is_str_op:
                ot = fn['_types'][(A.strip(c.get('obj') or (args[0] if args else None), casts=True) or {}).get('t', 1) - 1] if (c.get('obj') or args) else ''
                if 'basic_string' not in ot and 'stream' not in ot: continue
                # operands already wrapped in an escape call are fine
                wrapped = all(any(y is z for e2 in A.calls_in(a2) if A.callee_name(e2) in ('escape', 'escape_string') for z in A.walk(e2)) for a2 in ops for y in A.calls_in(a2) if A.callee_name(y) == 'key')
                k += 1; n += 1
                site = U.site(fn, 'member name appended#%d' % k)
                if wrapped: chk.ok('R14.6', site, {'line': c.get('l'), 'via': 'escape'})
                else: chk.fail('R14.6', site, fn['file'], c.get('l'), '%s: a member name is added to the pointer string with %s() without escape(): names containing "/" or "~" give a pointer that addresses something else' % (
                    fn['n'], nm if c.get('k') == 'CXXMemberCallExpr' else 'operator' + c.get('oop')), None, fn['q'])
            else:
                k += 1; n += 1
                chk.ok('R14.6', U.site(fn, 'member name appended#%d' % k), {'line': c.get('l'), 'via': nm})
    chk.require(n >= 3, 'R14.6: only %d member-name insertions found in flatten_/from_diff' % n)

# cross-calls between the public jsonpointer operations that are intended (confirmed by reading)
DELEGATION_EXEMPT = {('contains', 'get'): 'contains() is "get() reports no error"'}

def r14_7(chk, facts):
    """The convenience overloads of a jsonpointer operation end in the worker of the same operation."""
    chk.rule('R14.7', 'overload delegation: each overload of get / add / add_if_absent / remove / replace (string or pointer location, throwing or '
                      'error_code, with or without create_if_missing) that forwards to another public jsonpointer operation forwards to the one '
                      'of its own name; an add_if_absent overload that lands in add() overwrites', floor=20)
    NAMES = {'get', 'contains', 'add', 'add_if_absent', 'remove', 'replace', 'flatten', 'unflatten'}
    n = 0; seen = set()
    for f in facts.functions:
        if not f['file'].endswith('jsonpointer/jsonpointer.hpp') or f.get('body') is None or f['n'] not in NAMES or f.get('cls') or f.get('dep'): continue
        for c in A.calls_in(f['body'], no_lambda=True):
            if c.get('k') != 'CallExpr' or A.callee_name(c) not in NAMES or 'jsonpointer::' not in (c.get('cq') or ''): continue
            key = (f['file'], f['l'], c.get('l'))
            if key in seen: continue
            seen.add(key); n += 1
            chk.analysed(f)
            site = U.site(f, 'forwards to %s (overload at line %s)' % (A.callee_name(c), f['l']))
            if A.callee_name(c) == f['n'] or (f['n'], A.callee_name(c)) in DELEGATION_EXEMPT: chk.ok('R14.7', site, None)
            else:
                chk.fail('R14.7', site, f['file'], c.get('l'), 'the overload of jsonpointer::%s at line %s forwards to jsonpointer::%s: callers of this overload get the other operation' % (
                    f['n'], f['l'], A.callee_name(c)), None, f['q'])
    chk.require(n >= 20, 'R14.7: only %d forwarding calls found among the jsonpointer overloads' % n)

def r14_8(chk, facts):
    """unflatten() keeps the flattened members in a std::map keyed by json_pointer and takes every run of keys with a common prefix as one
    subtree: that is only right if pointers are ordered lexicographically by their tokens (a prefix sorts directly before its extensions)."""
    chk.rule('R14.8', 'pointer ordering: basic_json_pointer operator< is, on its only path, the lexicographic comparison of the two token '
                      'sequences, first operand first (vector operator< or std::lexicographical_compare over tokens_); the container unflatten() '
                      'groups by depends on it', floor=1)
    fns = [f for f in facts.functions if f['file'].endswith('jsonpointer.hpp') and f['n'] == 'operator<' and f.get('body') is not None and len(f.get('params') or []) == 2
           and all('basic_json_pointer' in F.tname(f, p['t']) for p in f['params'])]
    chk.require(fns, 'R14.8: operator< of basic_json_pointer not found')
    for fn in U.one_per_inst(sorted(fns, key=lambda f: bool(f.get('dep')))):
        chk.analysed(fn)
        site = U.site(fn, 'ordering')
        fx = I.expand(facts, fn, depth=1)
        ps = A.path_summaries(C.CFG(fx['body']), fx['body'])
        p0, p1 = fn['params'][0]['id'], fn['params'][1]['id']
        def tokens_of(e):
            """id of the pointer whose token sequence (or an iterator into it) e denotes"""
            ids = [y.get('id') for y in A.walk(e) if y.get('k') == 'DeclRefExpr' and y.get('id') in (p0, p1)]
            mem = [y for y in A.walk(e) if y.get('k') == 'MemberExpr']
            return ids[0] if len(set(ids)) == 1 and mem else None
        ok = False; why = 'it has %s paths' % (len(ps) if ps is not None else 'too many')
        if ps is not None and len(ps) == 1 and not list(ps)[0][0] and not list(ps)[0][1]:
            rets = [y for y in A.walk_no_lambda(fx['body']) if y.get('k') == 'ReturnStmt']
            v = A.strip(rets[0].get('val'), casts=True) if len(rets) == 1 else None
            while v is not None and v.get('k') in ('ExprWithCleanups', 'MaterializeTemporaryExpr', 'ParenExpr'): v = A.strip(v.get('sub'), casts=True)
            why = 'it returns `%s`' % A.text(v)[:70]
            if v is not None and v.get('k') == 'CXXOperatorCallExpr' and v.get('oop') == '<' and len(v.get('args') or []) == 2:
                ok = [tokens_of(a) for a in v['args']] == [p0, p1]
            elif v is not None and A.is_call(v) and A.callee_name(v) == 'lexicographical_compare' and len(v.get('args') or []) in (4, 5):
                ok = [tokens_of(a) for a in v['args'][:4]] == [p0, p0, p1, p1]
        if ok: chk.ok('R14.8', site, {'function': fn['q']})
        else:
            chk.fail('R14.8', site, fn['file'], fn['l'], 'operator< of basic_json_pointer is not the plain lexicographic comparison of lhs.tokens_ with rhs.tokens_ (%s): unflatten() groups the keys of a '
                     'std::map<json_pointer, ...> into subtrees by runs of a common prefix, which are contiguous only under the lexicographic order' % why, None, fn['q'])

def run(chk, tier, only_rule=None):
    chk.explanation = EXPLANATION
    chk.not_decided = NOT_DECIDED
    facts = F.load(['patch'], tier)
    chk.units = ['patch']
    r14_1(chk, facts)
    r14_2(chk, facts)
    r14_3(chk, facts)
    r14_4(chk, facts)
    r14_5(chk, facts)
    r14_6(chk, facts)
    r14_7(chk, facts)
    r14_8(chk, facts)
    from . import c05, c04
    c04.r04_7(chk, F.load(['core'], tier))     # array indices of wide-character pointers go through dec_to_integer
    c05.r05_12(chk, tier, units=('core', 'patch'))     # object keys of wide-character documents are compared whole
