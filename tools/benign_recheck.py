#!/usr/bin/env python3
"""Development tool (not a registered command): behaviour-preserving refactorings of the anchored code, written by sub-agents that saw only
the property text (stored under /verif/benign/<name>/patch.diff with the agent's equivalence argument in notes.md).  Each patch is applied
to a scratch copy of /repo/include and every check is run on the copy: all must exit 0 (no alarm, no analysis-broken).
usage: benign_recheck.py [name ...] [--props C01,C02 | --auto]"""
import os, shutil, subprocess, sys, tempfile
from concurrent.futures import ThreadPoolExecutor
V = os.path.dirname(os.path.dirname(os.path.abspath(__file__)))
ALL = ['C%02d' % i for i in range(1, 21)]

def run_one(name, props):
    tmp = tempfile.mkdtemp(prefix='jcsa-benign-')
    try:
        inc = os.path.join(tmp, 'include')
        shutil.copytree('/repo/include', inc)
        r = subprocess.run(['patch', '-p1', '-s', '-d', tmp, '-i', os.path.join(V, 'benign', name, 'patch.diff')], capture_output=True, text=True)
        if r.returncode != 0: return name, [('apply', 'PATCH-FAILED ' + r.stdout[:200])]
        bad = []
        for p in props:
            env = dict(os.environ, VERIF_REPO_INCLUDE=inc, VERIF_SELFTEST='1', VERIF_OUT_DIR=os.path.join(tmp, 'out-' + p))
            r = subprocess.run([sys.executable, os.path.join(V, 'bin', 'vcheck'), p, '--tier', 'quick'], capture_output=True, text=True, env=env, cwd=V)
            if r.returncode != 0:
                lines = [l for l in r.stdout.splitlines() if l.startswith('include') or 'BROKEN' in l]
                bad.append((p, 'exit=%d %s' % (r.returncode, ' | '.join(l[:200] for l in lines[:2]))))
        return name, bad
    finally:
        shutil.rmtree(tmp, ignore_errors=True)

def auto_props(name):
    """The checks a patch can influence: those that load a fact unit whose emitted facts cover a touched file (a unit emits the functions of
    the files under its `only` prefixes; a check decides from the facts of the units it loads and from nothing else), plus the patch's
    own property.  units_loaded comes from the evidence the checks wrote for the unchanged tree."""
    import json
    sys.path.insert(0, V)
    from jcsa import frontend as F
    touched = [l[6:].strip() for l in open(os.path.join(V, 'benign', name, 'patch.diff')) if l.startswith('+++ b/')]
    units = set(u for u, (drv, only) in F.UNITS.items() if any(o in t for t in touched for o in only))
    props = set([name.split('-')[0]])
    for p in ALL:
        try: loaded = set(json.load(open(os.path.join(V, 'evidence', p + '.json')))['coverage'].get('units_loaded') or ALL_UNITS)
        except Exception: loaded = units
        if loaded & units: props.add(p)
    return sorted(props)

ALL_UNITS = ['core']

def main():
    args = sys.argv[1:]
    props = ALL
    auto = '--auto' in args
    if auto: args.remove('--auto')
    if '--props' in args:
        i = args.index('--props'); props = args[i + 1].split(','); del args[i:i + 2]
    names = args or sorted(n for n in os.listdir(os.path.join(V, 'benign')) if os.path.isdir(os.path.join(V, 'benign', n)))
    wrong = 0
    with ThreadPoolExecutor(max_workers=7) as ex:
        # --auto together with --props: the intersection (re-running only the checks whose rules changed)
        sel = (lambda n: [p for p in auto_props(n) if props is ALL or p in props]) if auto else (lambda n: props)
        for name, bad, used in ex.map(lambda n: (lambda pp: run_one(n, pp) + (pp,))(sel(n)), names):
            print('%-10s %s%s' % (name, 'OK' if not bad else 'ALARM', ('   [' + ','.join(used) + ']') if auto else ''))
            for p, msg in bad:
                print('    %s %s' % (p, msg))
            wrong += bool(bad)
    print('%d refactorings, %d raise an alarm' % (len(names), wrong))
    return 1 if wrong else 0

if __name__ == '__main__':
    sys.exit(main())
