#include <jsoncons/json.hpp>
#include <jsoncons_ext/toon/toon.hpp>
#include <jsoncons_ext/toon/decode_toon.hpp>
#include <iostream>
using namespace jsoncons;
int bad=0;
void rt(const char* js, toon::toon_delimiter_kind dl = toon::toon_delimiter_kind::comma, int ind=2){
  json v = json::parse(js);
  toon::toon_options opt; opt.indent(ind); opt.delimiter(dl);
  std::string out; toon::encode_toon(v,out,opt);
  try { json r = toon::decode_toon<json>(out,opt); if (r!=v){++bad; std::cout<<"MISMATCH "<<js<<"\n"<<out<<"\n -> "<<r<<"\n\n";} else std::cout<<"ok "<<js<<"\n"; }
  catch(const std::exception&e){++bad; std::cout<<"EXC "<<e.what()<<" "<<js<<"\n"<<out<<"\n\n";}
}
int main(){
  auto T=toon::toon_delimiter_kind::tab; auto P=toon::toon_delimiter_kind::pipe;
  rt(R"([{"a\\b":1},{"a\\b":2}])");
  rt(R"([{"a\"b":1},{"a\"b":2}])");
  rt(R"([{"a b":1},{"a b":2}])");
  rt(R"({"k":["x\ty",1]})", T);
  rt(R"([{"a":"x\ty","b":1}])", T);
  rt(R"([{"a\tb":1,"c":2}])", T);
  rt(R"(["s",[{"a":1},{"a":2}],true])");
  rt(R"([[{"a":1},{"a":2}]])");
  rt(R"([[{},1,2]])");
  rt(R"([[[1,2],[3]]])");
  rt(R"([[1,[2,3]]])");
  rt(R"({"a":[[1,2],[3,{"b":1}]]})");
  rt(R"([{"a":[1,2]},{"a":[3]}])");
  rt(R"([{"a":{"b":1}},5])");
  rt(R"([{},{}])");
  rt(R"({"a":{}})");
  rt(R"({"a":[]})");
  rt(R"([[],[]])");
  rt(R"([{"a":[]}])");
  rt(R"([{"a":{},"b":1}])");
  rt(R"({"":1})");
  rt(R"([""])");
  rt(R"([{"x":[{"y":1},{"y":2}],"z":1}])");
  rt(R"([{"x":[{"y":1},{"y":2}]},{"x":[{"y":1,"q":2}]}])");
  rt(R"([[{"0":9,"1":3},{"0":8,"1":"5"}],"e"])", P);
  rt(R"({"a":"x|y","b":["p|q","r"]})", P);
  rt(R"({"a":"x,y","b":["p,q","r"]})", P);
  rt(R"([1,"a",[2,"b"]])", P);
  rt(R"([{"a":1,"b":[1,2]},{"a":2,"b":[3]}])");
  rt(R"({"a":[{"b":1,"c":{"d":1}}]})");
  rt(R"([[1,2],[3,4]])", T);
  rt(R"({"a":" x"})"); rt(R"({"a":"x "})"); rt(R"({" a":1})"); rt(R"({"a ":1})");
  rt(R"({"a":"#x"})"); rt(R"({"a":"- x"})"); rt(R"(["- x","-"])"); rt(R"({"a-b":1})"); rt(R"({"-":1})");
  rt(R"("hello")"); rt(R"(5)"); rt(R"(null)"); rt(R"("")"); rt(R"([])"); rt(R"({})"); rt(R"("a: b")"); rt(R"("[1]: x")");
  rt(R"({"a":"[1]: x"})"); rt(R"(["a: b"])"); rt(R"(["[2]: a,b"])"); rt(R"([{"a":"b: c"}])");
  std::cout<<"bad="<<bad<<"\n";
}
