// instantiation driver: ubjson
#include <jsoncons/json.hpp>
#include <jsoncons_ext/ubjson/ubjson.hpp>
namespace jsoncons { namespace ubjson {
template class basic_ubjson_parser<jsoncons::bytes_source>;
template class basic_ubjson_parser<jsoncons::binary_stream_source>;
template class basic_ubjson_encoder<jsoncons::bytes_sink<std::vector<uint8_t>>>;
template class basic_ubjson_encoder<jsoncons::binary_stream_sink>;
template class basic_ubjson_reader<jsoncons::bytes_source>;
template class basic_ubjson_reader<jsoncons::binary_stream_source>;
}}
// cursors contain one member that does not compile when instantiated (observation N6); use them instead
void jcsa_use_ubjson(const std::vector<uint8_t>& v, std::istream& is)
{
    using namespace jsoncons;
    std::error_code ec;
    ubjson::ubjson_bytes_cursor c(v, ec);
    c.next(ec); (void)c.done(); (void)c.current();
    json_decoder<json> d;
    c.read_to(d, ec);
    ubjson::ubjson_stream_cursor c2(is, ec);
    c2.next(ec); c2.read_to(d, ec);
    json j = ubjson::decode_ubjson<json>(v);
    ojson oj = ubjson::decode_ubjson<ojson>(is);
    std::vector<uint8_t> out;
    ubjson::encode_ubjson(j, out);
    std::ostringstream os;
    ubjson::encode_ubjson(oj, os);
}
