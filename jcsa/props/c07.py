"""C07 Binary decoders implement their specifications - dispatch tables vs specification tables."""
import json, os
from .. import frontend as F, ast as A, util as U, peval as P

EXPLANATION = ('For each binary decoder the function that dispatches on the initial byte / type marker is partially evaluated '
               'once per byte value 0..255 (constant propagation of the byte through the if-chains, switches and helper '
               'functions, callees of the same class inlined); the guarded effects found for each byte - bytes read, integer type '
               'and byte order of the conversion, UTF-8 validation, visitor event and tag, error stored - are compared with the row of '
               'the specification table in /verif/spec written from the standard.  Nothing is executed.')
NOT_DECIDED = ('the decoded value beyond width/signedness/byte order; half/float conversion arithmetic; bigfloat/decimal-fraction text; '
               'behaviour on all inputs (only the per-byte dispatch rows are decided)')

CTYPE = {'uint8': 'unsigned char', 'int8': 'signed char', 'uint16': 'unsigned short', 'int16': 'short',
         'uint32': 'unsigned int', 'int32': 'int', 'uint64': 'unsigned long', 'int64': 'long',
         'float': 'float', 'double': 'double', 'half': 'unsigned short'}
WIDTH = {'uint8': 1, 'int8': 1, 'uint16': 2, 'int16': 2, 'uint32': 4, 'int32': 4, 'uint64': 8, 'int64': 8, 'float': 4, 'double': 8, 'half': 2}

def spec(name):
    return json.load(open(os.path.join(F.VERIF, 'spec', name)))

class Obs:
    """Observation of one partial evaluation: what the code does for one discriminant value."""
    def __init__(self, effects, skip_first_read=True):
        self.events = []     # (name, args, guards, line)
        self.reads = []      # (nbytes, guards, pointee type, line)
        self.spans = []      # (len, guards, line)
        self.conv = []       # (fn, T, nbytes, guards, line)
        self.errors = []     # (enumerator, guards, line)
        self.validates = []  # guards
        self.calls = []      # other member calls (name,args,guards)
        first = skip_first_read
        for e in effects:
            if e.kind == 'call':
                n = e.name
                if n.startswith('visitor.'):
                    if n != 'visitor.flush': self.events.append((n[8:], e.args, e.guards, e.line))
                elif n == 'source_.read':
                    if first: first = False; continue
                    a0 = (e.extra['ast'].get('args') or [None])[0]
                    pt = ''
                    if a0 is not None:
                        t = a0.get('t')
                        pt = e.extra.get('ptype', '')
                    self.reads.append((e.args[1] if len(e.args) > 1 else None, e.guards, pt, e.line))
                elif n == 'source_.read_span':
                    self.spans.append((e.args[0] if e.args else None, e.guards, e.line))
                elif n in ('big_to_native', 'little_to_native', 'binary::big_to_native', 'binary::little_to_native'):
                    ta = e.extra.get('ta') or ['?']
                    self.conv.append((n.split('::')[-1], ta[0], e.args[1] if len(e.args) > 1 else None, e.guards, e.line))
                elif n == 'validate' or n.endswith('.validate') or n.endswith('validate'):
                    self.validates.append(e.guards)
                else:
                    self.calls.append((n, e.args, e.guards, e.line))
            elif e.kind == 'set' and e.name == 'ec':
                self.errors.append((e.args[0], e.guards, e.line))

    def main_events(self):
        return [x for x in self.events if not x[2]]
    def main_errors(self):
        return [x for x in self.errors if not x[1]]
    def summary(self):
        return {'events': ['%s(%s)%s' % (n, ', '.join(str(a) for a in args[:3]), (' if ' + ' && '.join(g)) if g else '') for n, args, g, l in self.events][:6],
                'reads': [(n, list(g)) for n, g, t, l in self.reads][:6],
                'conv': ['%s<%s>' % (f, t) for f, t, n, g, l in self.conv][:6],
                'spans': [str(s[0]) for s in self.spans][:3],
                'errors': ['%s%s' % (e, (' if ' + ' && '.join(g)) if g else '') for e, g, l in self.errors][:4],
                'utf8_validated': bool(self.validates)}

def tag_of(args):
    for a in args:
        if isinstance(a, str) and a.startswith('semantic_tag::'): return a.split('::')[1]
    return None

def run_byte(facts, fn, bind, follow, pure=None, max_depth=4):
    pe = P.PEval(facts, fn, follow=follow, pure=pure, bind=bind, max_depth=max_depth)
    try:
        pe.exec_body(fn, {})
    except P.Stop:
        pass
    return pe.effects

def same_class_follow(cls_suffix, exclude=()):
    def follow(callee, call):
        if callee['n'] in exclude: return False
        c = A.strip_targs(callee.get('cls') or '')
        return c.endswith(cls_suffix) or ('::' + cls_suffix + '::') in c   # the class and its nested helper classes
    return follow

# ------------------------------------------------------------------------------------------------
def check_msgpack(chk, tier):
    rid = 'R07.msgpack'
    chk.rule(rid, 'basic_msgpack_parser::read_item: for every type byte 0..255 the bytes read, conversion type, UTF-8 validation, '
                  'visitor event/tag or error equal the MessagePack specification row', floor=256)
    facts = F.load(['msgpack'], tier); chk.units.append('msgpack')
    sp = spec('msgpack.json')
    rows = {}
    for r in sp['rows']:
        for b in range(r['lo'], r['hi'] + 1): rows[b] = r
    chk.require(len(rows) == 256, 'msgpack spec table does not cover 256 bytes')
    fns = U.functions(facts, cls='basic_msgpack_parser', name='read_item')
    chk.require(fns, 'basic_msgpack_parser::read_item not found')
    follow = same_class_follow('basic_msgpack_parser')
    for fn in fns:
        chk.analysed(fn)
        inst = fn['q']
        for b in range(256):
            o = Obs(run_byte(facts, fn, {'type': b}, follow))
            r = rows[b]
            bad = compare_msgpack(b, r, o)
            site = U.site(fn, 'byte=0x%02x' % b)
            facts_ = {'byte': '0x%02x' % b, 'spec': r, 'observed': o.summary(), 'instantiation': inst}
            if bad:
                chk.fail(rid, U.site(fn, 'family=%s' % r['family']) + ' ' + bad[0], fn['file'], bad[2] or fn['l'],
                         'type byte 0x%02x (%s): %s' % (b, r['family'], bad[1]), facts_, inst)
            else:
                chk.ok(rid, site, facts_ if b in (0x00, 0xa5, 0xc1, 0xcd, 0xd9, 0xdc, 0xe0) else None)

def first_line(o):
    for coll in (o.events, o.reads, o.conv, o.errors):
        for x in coll:
            return x[-1]
    return 0

def expect_single_event(o, name):
    ev = o.main_events()
    if len(ev) != 1 or ev[0][0] != name:
        return ('event', 'expected exactly one unconditional %s event, found %s' % (name, [e[0] for e in ev] or 'none'), first_line(o))
    return None

def expect_length_read(o, ltype, idx=0):
    """The idx-th data read is a big-endian unsigned length of type ltype."""
    w = WIDTH[ltype]
    reads = [r for r in o.reads if not r[1]]
    if len(reads) <= idx:
        return ('length', 'expected a %d-byte length read, none found' % w, first_line(o))
    if reads[idx][0] != w:
        return ('length', 'length is read as %s bytes, specification says %d (%s)' % (reads[idx][0], w, ltype), reads[idx][3])
    if w > 1 or o.conv:
        conv = [c for c in o.conv if not c[3]]
        if len(conv) <= idx:
            return ('length', 'no big-endian conversion of the %d-byte length' % w, reads[idx][3])
        f, t, n, g, l = conv[idx]
        if f != 'big_to_native':
            return ('order', 'length converted with %s (MessagePack is big-endian)' % f, l)
        if t != CTYPE[ltype]:
            return ('length', 'length converted as %s, specification says %s' % (t, ltype), l)
    return None

def compare_msgpack(b, r, o):
    ev = r['event']
    if ev == 'error':
        if o.events: return ('event', 'reserved byte produces event %s' % o.events[0][0], o.events[0][3])
        if not o.main_errors(): return ('error', 'reserved byte stores no error', first_line(o))
        return None
    if o.main_errors():
        return ('error', 'stores error %s unconditionally' % o.main_errors()[0][0], o.main_errors()[0][2])
    if ev in ('uint64', 'int64') and 'value' in r and 'read_type' not in r:
        bad = expect_single_event(o, ev + '_value')
        if bad: return bad
        n, args, g, l = o.main_events()[0]
        want = b if r['value'] == 'byte' else b - 256
        if not args or args[0] != want: return ('value', 'event carries %s, specification says %d' % (args[0] if args else None, want), l)
        if tag_of(args) != 'none': return ('tag', 'tag %s' % tag_of(args), l)
        if o.reads or o.spans: return ('payload', 'reads payload bytes for a fixint', l)
        return None
    if ev == 'null':
        return expect_single_event(o, 'null_value') or ((('payload', 'reads payload', first_line(o)) if o.reads or o.spans else None))
    if ev == 'bool':
        bad = expect_single_event(o, 'bool_value')
        if bad: return bad
        n, args, g, l = o.main_events()[0]
        if args[0] != (1 if r['value'] else 0): return ('value', 'bool value %s, specification says %s' % (args[0], r['value']), l)
        return None
    if 'read_type' in r:
        rt = r['read_type']
        bad = expect_single_event(o, ev + '_value')
        if bad: return bad
        n, args, g, l = o.main_events()[0]
        reads = [x for x in o.reads if not x[1]]
        if len(reads) != 1 or reads[0][0] != WIDTH[rt]:
            return ('payload', 'reads %s payload bytes, specification says %d' % ([x[0] for x in reads], WIDTH[rt]), l)
        conv = [c for c in o.conv if not c[3]]
        if conv:
            f, t, nb, g2, l2 = conv[0]
            if f != 'big_to_native': return ('order', 'payload converted with %s (MessagePack is big-endian)' % f, l2)
            if t != CTYPE[rt]: return ('type', 'payload converted as %s, specification says %s' % (t, rt), l2)
        elif WIDTH[rt] != 1:
            return ('type', 'multi-byte payload is not converted from big-endian', l)
        else:
            if rt == 'int8':
                return ('type', 'int8 payload read without a signed conversion', l)
        if tag_of(args) != 'none': return ('tag', 'tag %s on a plain number' % tag_of(args), l)
        return None
    if ev in ('string', 'byte_string'):
        name = 'string_value' if ev == 'string' else 'byte_string_value'
        bad = expect_single_event(o, name)
        if bad: return bad
        n, args, g, l = o.main_events()[0]
        spans = [s for s in o.spans if not s[1]]
        if len(spans) != 1: return ('payload', 'expected one read_span of the payload', l)
        if r.get('length') == 'low5':
            if spans[0][0] != (b & 0x1f): return ('length', 'fixstr length %s, specification says %d' % (spans[0][0], b & 0x1f), spans[0][2])
        else:
            bad = expect_length_read(o, r['length_type'])
            if bad: return bad
        if r.get('utf8') and not o.validates: return ('utf8', 'text string is not UTF-8 validated before the event', l)
        if tag_of(args) != 'none': return ('tag', 'tag %s' % tag_of(args), l)
        return None
    if ev in ('begin_array', 'begin_object'):
        bad = expect_single_event(o, ev)
        if bad: return bad
        n, args, g, l = o.main_events()[0]
        if r.get('length') == 'low4':
            if args[0] != (b & 0x0f): return ('length', 'fix container length %s, specification says %d' % (args[0], b & 0x0f), l)
            if o.reads: return ('payload', 'reads bytes for a fix container header', l)
        else:
            bad = expect_length_read(o, r['length_type'])
            if bad: return bad
        return None
    if ev == 'ext':
        # header: length (fixed or typed) then a 1-byte signed type
        if 'length_type' in r:
            bad = expect_length_read(o, r['length_type'])
            if bad: return bad
            idx = 1
        else:
            idx = 0
        reads = [x for x in o.reads if not x[1]]
        if len(reads) <= idx or reads[idx][0] != 1:
            return ('ext', 'ext type is not read as one byte', first_line(o))
        conv = [c for c in o.conv if not c[3]]
        if len(conv) > idx and conv[idx][1] != CTYPE['int8']:
            return ('ext', 'ext type converted as %s, specification says int8' % conv[idx][1], conv[idx][4])
        if not any(e[0] == 'byte_string_value' for e in o.events):
            return ('ext', 'no byte_string_value event for a generic ext', first_line(o))
        return None
    return ('spec', 'unhandled spec row kind %s' % ev, 0)


# ------------------------------------------------------------------------------------------------
ARGW = {24: ('uint8', 1), 25: ('uint16', 2), 26: ('uint32', 4), 27: ('uint64', 8)}

def cbor_pure(callee, call):
    return callee['n'] in ('get_major_type', 'get_additional_information_value')

def check_cbor(chk, tier):
    rid = 'R07.cbor'
    chk.rule(rid, 'basic_cbor_parser::read_item: for every initial byte of majors 0-5 and 7 the argument width/type, reserved '
                  'additional-information values, event kind, UTF-8 validation and the simple/float table equal RFC 8949', floor=224)
    facts = F.load(['cbor'], tier); chk.units.append('cbor')
    sp = spec('cbor.json')
    chk.require(sp['argument'].get('28-30', '').startswith('reserved'), 'cbor spec: reserved argument row missing')
    fns = U.functions(facts, cls='basic_cbor_parser', name='read_item')
    chk.require(fns, 'basic_cbor_parser::read_item not found')
    # tagged composite readers are separate constructs (their own items are dispatched through read_item again)
    follow = same_class_follow('basic_cbor_parser', exclude=('read_decimal_fraction', 'read_bigfloat', 'read_mdarray_header', 'read_extents'))
    for fn in fns:
        chk.analysed(fn)
        inst = fn['q']
        for b in range(256):
            major, info = b >> 5, b & 0x1f
            if major == 6: continue      # tags are consumed by read_tags before dispatch (covered by R07.cbor.tags)
            pe = P.PEval(facts, fn, follow=follow, pure=cbor_pure, max_depth=5, max_effects=20000)
            pe.head = b
            try:
                pe.exec_body(fn, {})
            except P.Stop:
                chk.broken('R07.cbor: effect budget exhausted for byte 0x%02x' % b)
            o = Obs(pe.effects, skip_first_read=False)
            bad = compare_cbor(b, major, info, o)
            infoclass = 'info=%d' % info if info >= 20 else 'info<20'
            if major != 7:
                infoclass = 'info<24' if info < 24 else 'info=%d' % info
            facts_ = {'byte': '0x%02x' % b, 'major': major, 'info': info, 'observed': o.summary(), 'instantiation': inst}
            if bad:
                chk.fail(rid, U.site(fn, 'major=%d %s' % (major, infoclass)) + ' ' + bad[0], fn['file'], bad[2] or fn['l'],
                         'initial byte 0x%02x (major %d, info %d): %s' % (b, major, info, bad[1]), facts_, inst)
            else:
                chk.ok(rid, U.site(fn, 'byte=0x%02x' % b), facts_ if b in (0x05, 0x19, 0x3b, 0x65, 0x9f, 0xf9, 0xfb) else None)

PRINCIPAL = {0: 'uint64_value', 1: 'int64_value', 2: 'byte_string_value', 3: 'string_value', 4: 'begin_array', 5: 'begin_object'}

def compare_cbor(b, major, info, o):
    evnames = [e[0] for e in o.events]
    line = first_line(o)
    data_reads = [r for r in o.reads if not r[1]]
    if major == 7:
        want = {20: ('bool_value', 0), 21: ('bool_value', 1), 22: ('null_value', 'none'), 23: ('null_value', 'undefined')}
        if info in want:
            ev = o.main_events()
            if len(ev) != 1 or ev[0][0] != want[info][0]:
                return ('event', 'expected %s, found %s' % (want[info][0], evnames or 'none'), line)
            n, args, g, l = ev[0]
            if n == 'bool_value' and args[0] != want[info][1]: return ('value', 'bool value %s' % args[0], l)
            if n == 'null_value' and tag_of(args) != want[info][1]: return ('tag', 'null tag %s, expected %s' % (tag_of(args), want[info][1]), l)
            return None
        if info in (25, 26, 27):
            name = 'half_value' if info == 25 else 'double_value'
            ev = o.main_events()
            if len(ev) != 1 or ev[0][0] != name: return ('event', 'expected %s, found %s' % (name, evnames or 'none'), line)
            w = {25: 2, 26: 4, 27: 8}[info]
            payload = [r for r in data_reads if r[0] != 1 or w == 1]
            # the initial byte is consumed by a 1-byte read; the payload read follows
            if not any(r[0] == w for r in data_reads): return ('payload', 'float payload of %d bytes not read (reads: %s)' % (w, [r[0] for r in data_reads]), ev[0][3])
            ct = {25: 'unsigned short', 26: 'float', 27: 'double'}[info]
            conv = [c for c in o.conv if not c[3]]
            if not conv or conv[-1][0] != 'big_to_native' or conv[-1][1] != ct:
                return ('type', 'float payload converted as %s, expected big_to_native<%s>' % (['%s<%s>' % (c[0], c[1]) for c in conv], ct), ev[0][3])
            return None
        # simple values 0..19, 24, reserved 28..30 and break (31) in item position: no value may be produced
        if o.events: return ('event', 'major 7 info %d produces %s, expected an error' % (info, evnames), o.events[0][3])
        if not o.main_errors(): return ('error', 'major 7 info %d stores no error' % info, line)
        return None
    # majors 0..5
    reserved = info in (28, 29, 30) or (info == 31 and major in (0, 1))
    if reserved:
        # for arrays, the tag-4/5 composite readers (not inlined) are followed by their own string events: only the
        # array's own event counts there
        evs = [e for e in o.events if major != 4 or e[0] == PRINCIPAL[4]]
        if evs:
            return ('reserved', 'reserved additional information %d is decoded (events %s) instead of being rejected as not well-formed' % (info, sorted(set(e[0] for e in evs))), evs[0][3])
        if not o.errors:
            return ('reserved', 'reserved additional information %d stores no error' % info, line)
        return None
    name = PRINCIPAL[major]
    if name not in evnames:
        return ('event', 'expected a %s event, found %s' % (name, sorted(set(evnames)) or 'none'), line)
    allowed = {name}
    if major in (0, 2, 3): allowed |= {'string_value', 'byte_string_value', 'begin_array', 'end_array', 'uint64_value', 'int64_value', 'double_value', 'half_value', 'typed_array', 'begin_multi_dim', 'end_multi_dim'}
    if major == 4: allowed |= {'string_value', 'byte_string_value', 'begin_array', 'end_array', 'uint64_value', 'int64_value', 'double_value', 'half_value', 'begin_multi_dim', 'end_multi_dim', 'typed_array'}
    extra = [n for n in evnames if n not in allowed]
    if extra: return ('event', 'unexpected events %s for major %d' % (sorted(set(extra)), major), line)
    if info == 31:
        return None    # indefinite length: chunk loop is covered by R07.cbor.chunks
    # argument width
    if info < 24:
        big = [r for r in data_reads if r[0] != 1]
        if big: return ('width', 'reads %s payload bytes for an immediate argument' % [r[0] for r in big], big[0][3])
        if major in (0,):
            ev = [e for e in o.main_events() if e[0] == name]
            if ev and ev[0][1] and ev[0][1][0] != info: return ('value', 'event carries %s, expected %d' % (ev[0][1][0], info), ev[0][3])
        if major in (4, 5):
            ev = [e for e in o.events if e[0] == name and e[1] and isinstance(e[1][0], int)]
            if ev and ev[0][1][0] != info: return ('length', 'container length %s, expected %d' % (ev[0][1][0], info), ev[0][3])
        return None
    t, w = ARGW[info]
    # the argument may be read on each of several tag-dependent paths: accept a read of the right width on any path
    if not any(r[0] == w for r in o.reads):
        return ('width', 'argument of %d bytes not read (reads: %s)' % (w, sorted(set(str(r[0]) for r in o.reads))), line)
    wrong = [r for r in data_reads if r[0] not in (1, w)]
    if wrong: return ('width', 'reads %s bytes, expected %d' % ([r[0] for r in wrong], w), wrong[0][3])
    if w > 1:
        conv = [c for c in o.conv if c[2] == w] or [c for c in o.conv if not c[3]]
        if not conv: return ('type', 'argument not converted from big-endian', line)
        if conv[0][0] != 'big_to_native': return ('order', 'argument converted with %s' % conv[0][0], conv[0][4])
        if conv[0][1] != CTYPE[t]: return ('type', 'argument converted as %s, expected %s' % (conv[0][1], t), conv[0][4])
    if major == 3 and not o.validates:
        return ('utf8', 'text string not UTF-8 validated', line)
    return None

def run(chk, tier, only_rule=None):
    chk.explanation = EXPLANATION
    chk.not_decided = NOT_DECIDED
    check_msgpack(chk, tier)
    check_cbor(chk, tier)
