#include <jsoncons/json.hpp>
#include <jsoncons_ext/jmespath/jmespath.hpp>
#include <iostream>
#include <unistd.h>
using namespace jsoncons;
int main(int argc, char** argv){
  alarm(3);
  std::error_code ec; auto e = jmespath::make_expression<json>(argv[1], ec); std::cout << argv[1] << " : " << ec.message() << "\n";
}
