"""Front end: builds the clang plugin if needed, runs the instantiation drivers
through it (one fact file per driver, in parallel), caches by tree hash, loads facts."""
import hashlib, json, os, subprocess, sys, shutil, time, fcntl
from concurrent.futures import ThreadPoolExecutor

VERIF = os.path.dirname(os.path.dirname(os.path.abspath(__file__)))
REPO = os.environ.get('VERIF_REPO', '/repo')
INCLUDE = os.environ.get('VERIF_REPO_INCLUDE', os.path.join(REPO, 'include'))
PLUGIN_SRC = os.path.join(VERIF, 'plugin', 'jcsa_facts.cpp')
PLUGIN_SO = os.path.join(VERIF, 'build', 'jcsa_facts.so')
DRIVERS = os.path.join(VERIF, 'drivers')
LLVM_LIBS = ['/usr/lib/llvm-14/lib/libclang-cpp.so.14', '/usr/lib/llvm-14/lib/libLLVM-14.so']

# unit name -> (driver file, 'only' path substrings of headers whose definitions are emitted)
UNITS = {
    'core':       ('core.cpp',       ['include/jsoncons/']),
    'cbor':       ('cbor.cpp',       ['jsoncons_ext/cbor/']),
    'msgpack':    ('msgpack.cpp',    ['jsoncons_ext/msgpack/']),
    'ubjson':     ('ubjson.cpp',     ['jsoncons_ext/ubjson/']),
    'bson':       ('bson.cpp',       ['jsoncons_ext/bson/']),
    'csv':        ('csv.cpp',        ['jsoncons_ext/csv/', 'jsoncons/json_encoders.hpp', 'jsoncons/json_options.hpp']),
    'toon':       ('toon.cpp',       ['jsoncons_ext/toon/', 'jsoncons/json_encoders.hpp']),
    'jsonpath':   ('jsonpath.cpp',   ['jsoncons_ext/jsonpath/']),
    'jmespath':   ('jmespath.cpp',   ['jsoncons_ext/jmespath/']),
    'jsonschema': ('jsonschema.cpp', ['jsoncons_ext/jsonschema/']),
    'patch':      ('patch.cpp',      ['jsoncons_ext/jsonpointer/', 'jsoncons_ext/jsonpatch/', 'jsoncons_ext/mergepatch/']),
    'control':    ('control.cpp',    ['drivers/control.cpp']),
    'reflect':    ('reflect.cpp',    ['include/jsoncons/reflect/', 'include/jsoncons/decode_json.hpp', 'include/jsoncons/encode_json.hpp',
                                      'jsoncons_ext/cbor/decode_cbor.hpp', 'jsoncons_ext/cbor/encode_cbor.hpp', 'include/jsoncons/staj_cursor.hpp',
                                      'include/jsoncons/staj_iterator.hpp', 'drivers/']),
}

class AnalysisBroken(Exception):
    pass

def _sha(paths_root_pairs):
    h = hashlib.sha256()
    for root, only_ext in paths_root_pairs:
        if os.path.isfile(root):
            h.update(root.encode()); h.update(open(root, 'rb').read()); continue
        for d, dn, fn in sorted(os.walk(root)):
            dn.sort()
            for f in sorted(fn):
                if only_ext and not f.endswith(only_ext): continue
                p = os.path.join(d, f)
                h.update(os.path.relpath(p, root).encode()); h.update(b'\0')
                with open(p, 'rb') as fh: h.update(fh.read())
                h.update(b'\0')
    return h.hexdigest()[:20]

# The library selects some code by compiler version macros.  The suite is built with g++ 12, for which compiler_support.hpp turns on the
# std::from_chars route of decstr_to_double (__GNUC__ >= 11); clang 14 reports __GNUC__ 4 and would take the strtod fallback.  The
# analysed configuration is made the shipped one (libstdc++ 12 provides from_chars for double under clang as well).
CONFIG_FLAGS = ['-DJSONCONS_HAS_STD_FROM_CHARS=1']

_tree_hash = None
def tree_hash():
    global _tree_hash
    if _tree_hash is None:
        _tree_hash = _sha([(INCLUDE, None), (DRIVERS, '.cpp'), (PLUGIN_SRC, None)]) + hashlib.sha256((repr(sorted(UNITS.items())) + repr(CONFIG_FLAGS)).encode()).hexdigest()[:6]
    return _tree_hash

def cache_root():
    return os.path.join(os.environ.get('TMPDIR', '/tmp'), 'jcsa-cache')

def cache_dir():
    root = cache_root()
    d = os.path.join(root, tree_hash())
    if not os.path.isdir(d):
        os.makedirs(d, exist_ok=True)
    # bound disk use: other trees are dropped once they are older than 20 minutes and not among the 4 newest
    try:
        os.utime(d, None)
        now = time.time()
        others = sorted((e for e in os.scandir(root) if e.is_dir() and e.name != tree_hash()),
                        key=lambda e: e.stat().st_mtime, reverse=True)
        for e in others[4:]:
            if now - e.stat().st_mtime > 1200:
                shutil.rmtree(e.path, ignore_errors=True)
    except OSError:
        pass
    return d

def build_plugin(force=False):
    os.makedirs(os.path.dirname(PLUGIN_SO), exist_ok=True)
    if not force and os.path.exists(PLUGIN_SO) and os.path.getmtime(PLUGIN_SO) >= os.path.getmtime(PLUGIN_SRC):
        return
    lock = open(PLUGIN_SO + '.lock', 'w')
    fcntl.flock(lock, fcntl.LOCK_EX)
    try:
        if not force and os.path.exists(PLUGIN_SO) and os.path.getmtime(PLUGIN_SO) >= os.path.getmtime(PLUGIN_SRC):
            return
        flags = subprocess.check_output(['llvm-config-14', '--cxxflags'], text=True).split()
        cmd = ['clang++'] + flags + ['-fno-rtti', '-fPIC', '-shared', PLUGIN_SRC, '-o', PLUGIN_SO + '.tmp']
        r = subprocess.run(cmd, capture_output=True, text=True)
        if r.returncode != 0:
            raise AnalysisBroken('plugin build failed:\n' + r.stderr[-3000:])
        os.replace(PLUGIN_SO + '.tmp', PLUGIN_SO)
    finally:
        fcntl.flock(lock, fcntl.LOCK_UN)

def clang_cmd(driver, out, only, tier):
    cmd = ['clang++', '-std=gnu++17', '-fsyntax-only', '-UNDEBUG', '-w', '-ferror-limit=5'] + CONFIG_FLAGS + [
           '-I', INCLUDE, '-I', VERIF,
           '-fplugin=' + PLUGIN_SO,
           '-Xclang', '-plugin-arg-jcsa-facts', '-Xclang', 'out=' + out,
           '-Xclang', '-plugin-arg-jcsa-facts', '-Xclang', 'root=' + os.path.dirname(INCLUDE.rstrip('/')) + '/',
           '-Xclang', '-plugin-arg-jcsa-facts', '-Xclang', 'root=' + VERIF + '/',
           '-Xclang', '-plugin-arg-jcsa-facts', '-Xclang', 'only=' + ','.join(only)]
    if tier == 'thorough':
        cmd.append('-DJCSA_THOROUGH=1')
    cmd.append(os.path.join(DRIVERS, driver))
    return cmd

def _unit_path(unit, tier):
    return os.path.join(cache_dir(), '%s.%s.jsonl' % (unit, tier))

LOADED_UNITS = set()

def unit_deps(unit):
    """Project headers (paths relative to the parent of INCLUDE) the driver of `unit` includes, transitively (clang -MM)."""
    driver, only = UNITS[unit]
    cmd = ['clang++', '-std=gnu++17', '-MM', '-UNDEBUG', '-w', '-I', INCLUDE, os.path.join(DRIVERS, driver)]
    r = subprocess.run(cmd, capture_output=True, text=True)
    if r.returncode != 0: raise AnalysisBroken('dependency scan of %s failed:\n%s' % (driver, r.stderr[-2000:]))
    root = os.path.dirname(INCLUDE.rstrip('/')) + '/'
    out = set()
    for tok in r.stdout.replace('\\\n', ' ').split():
        if tok.startswith(root): out.add(tok[len(root):])
    return out

def ensure_unit(unit, tier):
    LOADED_UNITS.add(unit)
    build_plugin()
    path = _unit_path(unit, tier)
    if os.path.exists(path):
        return path
    lock = open(path + '.lock', 'w')
    fcntl.flock(lock, fcntl.LOCK_EX)
    try:
        if os.path.exists(path):
            return path
        driver, only = UNITS[unit]
        # the driver's own definitions (witness structs) live under VERIF/drivers: plugin root is the
        # parent of INCLUDE, so `only` for those is handled by a second root below
        tmp = path + '.tmp.%d' % os.getpid()
        cmd = clang_cmd(driver, tmp, only, tier)
        t = time.time()
        r = subprocess.run(cmd, capture_output=True, text=True)
        if r.returncode != 0 or not os.path.exists(tmp):
            if os.path.exists(tmp): os.unlink(tmp)
            raise AnalysisBroken('driver %s does not compile against %s:\n%s' % (driver, INCLUDE, r.stderr[-4000:]))
        os.replace(tmp, path)
        return path
    finally:
        fcntl.flock(lock, fcntl.LOCK_UN)

def ensure_units(units, tier):
    with ThreadPoolExecutor(max_workers=min(16, len(units) or 1)) as ex:
        return dict(zip(units, ex.map(lambda u: ensure_unit(u, tier), units)))

class Facts:
    """Facts of one or more units.  functions: list of dicts; types resolved lazily per unit."""
    def __init__(self):
        self.functions = []
        self.records = []
        self.enums = []
        self.vars = []
        self.units = []
        self._by_id = {}

    def load(self, unit, path):
        types = None
        items = []
        with open(path) as fh:
            for line in fh:
                o = json.loads(line)
                if o['k'] == 'Types':
                    types = o['types']
                else:
                    items.append(o)
        if types is None:
            raise AnalysisBroken('fact file %s is truncated (no type table)' % path)
        for o in items:
            o['_unit'] = unit
            o['_types'] = types
            k = o['k']
            if k == 'Function':
                if o.get('body') is not None:
                    # calls of local by-reference lambdas in statement position are analysed as the statements of the lambda body
                    from . import inline as _I
                    try: o['body'] = _I.desugar_lambdas(o['body'])
                    except RecursionError: pass
                self.functions.append(o)
                self._by_id[(unit, o['id'])] = o
            elif k == 'Record': self.records.append(o)
            elif k == 'Enum': self.enums.append(o)
            elif k == 'Var': self.vars.append(o)
        self.units.append(unit)

    def callee(self, fn, call):
        """Function record of a call's direct callee (same unit), or None."""
        cid = call.get('cid')
        if cid is None: return None
        return self._by_id.get((fn['_unit'], cid))

    def by_id(self, unit, fid):
        return self._by_id.get((unit, fid))

def load(units, tier='quick'):
    paths = ensure_units(list(units), tier)
    f = Facts()
    for u in units:
        f.load(u, paths[u])
    return f

def tname(owner, tid):
    """Type string of type id `tid` in the unit of `owner` (a function/record/var record)."""
    if not tid: return ''
    return owner['_types'][tid - 1]
