// instantiation driver: jsonpointer, jsonpatch, mergepatch
#include <jsoncons/json.hpp>
#include <jsoncons_ext/jsonpointer/jsonpointer.hpp>
#include <jsoncons_ext/jsonpatch/jsonpatch.hpp>
#include <jsoncons_ext/mergepatch/mergepatch.hpp>
namespace jsoncons { namespace jsonpointer {
template class basic_json_pointer<char>;
}}
void jcsa_use_patch(jsoncons::json& j, const jsoncons::json& cj, jsoncons::ojson& oj, const std::string& p)
{
    using namespace jsoncons;
    std::error_code ec;
    json& r = jsonpointer::get(j, p);
    const json& cr = jsonpointer::get(cj, p);
    json& r2 = jsonpointer::get(j, p, ec);
    const json& cr2 = jsonpointer::get(cj, p, ec);
    json& r3 = jsonpointer::get(j, p, true);
    json& r4 = jsonpointer::get(j, p, true, ec);
    bool b = jsonpointer::contains(cj, p);
    jsonpointer::add(j, p, json(1));
    jsonpointer::add(j, p, json(1), ec);
    jsonpointer::add(j, p, json(1), true);
    jsonpointer::add(j, p, json(1), true, ec);
    jsonpointer::add_if_absent(j, p, json(1));
    jsonpointer::add_if_absent(j, p, json(1), ec);
    jsonpointer::add_if_absent(j, p, json(1), true, ec);
    jsonpointer::remove(j, p);
    jsonpointer::remove(j, p, ec);
    jsonpointer::replace(j, p, json(1));
    jsonpointer::replace(j, p, json(1), ec);
    jsonpointer::replace(j, p, json(1), true, ec);
    json f = jsonpointer::flatten(cj);
    json u = jsonpointer::unflatten(f);
    json u2 = jsonpointer::unflatten(f, jsonpointer::unflatten_options::assume_object);
    jsonpointer::json_pointer ptr(p);
    jsonpointer::json_pointer ptr2 = jsonpointer::json_pointer::parse(p, ec);
    std::string s = ptr.to_string();
    std::string esc1 = jsonpointer::escape<char>(jsoncons::string_view(p));
    std::string esc2 = jsonpointer::escape_string<char>(p);
    ojson& o1 = jsonpointer::get(oj, p);
    jsonpointer::add(oj, p, ojson(1), ec);
    jsonpointer::remove(oj, p, ec);
    jsonpointer::replace(oj, p, ojson(1), ec);

    jsonpatch::apply_patch(j, cj);
    jsonpatch::apply_patch(j, cj, ec);
    json d = jsonpatch::from_diff(cj, cj);
    jsonpatch::apply_patch(oj, oj, ec);
    ojson od = jsonpatch::from_diff(oj, oj);

    mergepatch::apply_merge_patch(j, cj);
    json mp = mergepatch::from_diff(cj, cj);
    mergepatch::apply_merge_patch(oj, oj);
    ojson omp = mergepatch::from_diff(oj, oj);
    (void)r;(void)cr;(void)r2;(void)cr2;(void)r3;(void)r4;(void)b;(void)o1;
}
