// instantiation driver: jsonpath
#include <jsoncons/json.hpp>
#include <jsoncons_ext/jsonpath/jsonpath.hpp>
namespace jsoncons { namespace jsonpath {
template class jsonpath_expression<json>;
template class basic_json_location<char>;
template class basic_path_node<char>;
}}
void jcsa_use_jsonpath(jsoncons::json& j, const jsoncons::ojson& oj, const std::string& p)
{
    using namespace jsoncons;
    json r = jsonpath::json_query(j, p);
    ojson r2 = jsonpath::json_query(oj, p, jsonpath::result_options::path | jsonpath::result_options::nodups | jsonpath::result_options::sort);
    jsonpath::json_query(j, p, [](const std::string&, const json&){});
    jsonpath::json_replace(j, p, json(1));
    jsonpath::json_replace(j, p, [](const std::string&, json& v){ v = 1; });
    auto aset = make_alloc_set(std::allocator<char>(), std::allocator<char>());
    jsonpath::json_replace(aset, j, p, 1); // with a json value this overload does not compile (N6)
    jsonpath::json_replace(aset, j, p, [](const std::string&, json& v){ v = 1; });
    auto e = jsonpath::make_expression<json>(p);
    json r3 = e.evaluate(j);
    e.evaluate(j, [](const std::string&, const json&){});
    auto e2 = jsonpath::make_expression<json>(p, jsonpath::custom_functions<json>());
    std::error_code ec;
    auto e3 = jsonpath::make_expression<json>(p, ec);
    auto e4 = jsonpath::make_expression<ojson>(p);
    ojson r4 = e4.evaluate(oj);
    json f = jsonpath::flatten(j);
    json u = jsonpath::unflatten(f);
    auto loc = jsonpath::json_location::parse(p);
    auto q = jsonpath::get(j, loc);
    jsonpath::replace(j, loc, json(2), true);
    jsonpath::remove(j, loc);
    std::string s = jsonpath::to_string(loc);
    (void)q;
    e.select(j, [](const jsonpath::path_node&, const json&){});
    e.update(j, [](const jsonpath::path_node&, json&){});
    auto paths = e.select_paths(j);
}
