"""Check harness: obligations, violations, known findings, evidence, exit codes.
exit 0 = all obligations discharged (or only listed known findings); 1 = VIOLATION; 2 = analysis broken."""
import json, os, sys, time, re
from .frontend import VERIF, INCLUDE, AnalysisBroken, tree_hash

KNOWN = os.path.join(VERIF, 'known_findings.json')

def norm_fn(q):
    """Normalise a qualified function name for site keys: drop template args and 'jsoncons::'."""
    from .ast import strip_targs
    s = strip_targs(q)
    return s.replace('jsoncons::', '')

class Check:
    def __init__(self, pid, tier):
        self.pid = pid
        self.tier = tier
        self.t0 = time.time()
        self.obligations = 0
        self.discharged = 0
        self.nontrivial = set()
        self.violations = {}       # key -> record
        self.rules = {}            # rule -> {'desc':..., 'instances':n, 'floor':m}
        self.samples = []
        self.units = []
        self.functions_analysed = set()
        self.notes = []
        self.assumptions = []
        self.explanation = ''
        self.not_decided = ''

    # ---- recording -------------------------------------------------------------
    def rule(self, rid, desc, floor=1):
        self.rules[rid] = {'desc': desc, 'instances': 0, 'floor': floor, 'violations': 0}

    def analysed(self, fn):
        self.functions_analysed.add(fn['q'] if isinstance(fn, dict) else fn)

    def ok(self, rid, site, detail=None, nontrivial=True):
        """One obligation discharged at `site` (string key)."""
        self.obligations += 1
        self.discharged += 1
        self.rules[rid]['instances'] += 1
        if nontrivial:
            self.nontrivial.add((rid, site))
        if detail is not None and len(self.samples) < 40 and sum(1 for s in self.samples if s.get('rule') == rid) < 4:
            self.samples.append({'rule': rid, 'site': site, 'verdict': 'discharged', 'facts': detail})

    def fail(self, rid, site, file, line, msg, facts=None, fn=None):
        """One obligation failed.  `site` is the normalised site key (no line numbers)."""
        self.obligations += 1
        self.rules[rid]['instances'] += 1
        self.rules[rid]['violations'] += 1
        self.nontrivial.add((rid, site))
        key = '%s %s' % (rid, site)
        rec = self.violations.get(key)
        if rec is None:
            self.violations[key] = {'key': key, 'rule': rid, 'site': site, 'file': file, 'line': line,
                                    'message': msg, 'facts': facts, 'instances': [fn] if fn else []}
        elif fn and fn not in rec['instances']:
            rec['instances'].append(fn)

    def broken(self, msg):
        raise AnalysisBroken(msg)

    def require(self, cond, msg):
        if not cond:
            raise AnalysisBroken(msg)

    def note(self, s):
        self.notes.append(s)

    # ---- finishing -------------------------------------------------------------
    def finish(self):
        for rid, r in self.rules.items():
            if r['instances'] < r['floor']:
                raise AnalysisBroken('rule %s matched %d instances, fewer than the %d confirmed by hand '
                                     '(anchor moved or shape no longer recognised)' % (rid, r['instances'], r['floor']))
        known = load_known()
        kf = {k['key']: k for k in known.get('findings', []) if k.get('property') == self.pid}
        new = []
        for key, v in sorted(self.violations.items()):
            if key in kf:
                print('KNOWN-FINDING: property=%s %s -- %s (%s:%s)' % (self.pid, key, kf[key].get('what', v['message']), v['file'], v['line']))
            else:
                new.append(v)
        OUT = os.environ.get('VERIF_OUT_DIR') or VERIF   # scratch runs (self-tests, seed rechecks) keep /verif/evidence intact
        os.makedirs(os.path.join(OUT, 'replay', self.pid), exist_ok=True)
        # stale replays of earlier runs are removed
        rd = os.path.join(OUT, 'replay', self.pid)
        for f in os.listdir(rd):
            if f.endswith('.json'):
                os.unlink(os.path.join(rd, f))
        if len(new) > 30:
            print('%s: %d distinct new violations; the first 30 are written out' % (self.pid, len(new)))
        for i, v in enumerate(new[:30]):
            p = os.path.join(rd, '%s-%d.json' % (re.sub(r'[^A-Za-z0-9.]+', '_', v['rule']), i + 1))
            with open(p, 'w') as fh:
                json.dump({'property': self.pid, 'rule': v['rule'], 'rule_text': self.rules[v['rule']]['desc'],
                           'site': v['site'], 'file': v['file'], 'line': v['line'], 'message': v['message'],
                           'instantiations': v['instances'], 'facts': v['facts'],
                           'include_root': INCLUDE, 'tree_hash': tree_hash(),
                           'rerun': 'python3 /verif/bin/vcheck %s --tier %s --rule %s' % (self.pid, self.tier, v['rule'])}, fh, indent=1, default=str)
            print('%s:%s: %s: %s' % (v['file'], v['line'], v['rule'], v['message']))
            print('VIOLATION property=%s replay=%s' % (self.pid, p))
        self.write_evidence(len(new), len(self.violations) - len(new))
        for rid, r in sorted(self.rules.items()):
            print('  rule %-8s instances=%-4d violations=%-3d %s' % (rid, r['instances'], r['violations'], r['desc'][:100]))
        print('%s: %d obligations, %d discharged, %d known findings, %d new violations, %d functions, %.1fs' % (
            self.pid, self.obligations, self.discharged, len(self.violations) - len(new), len(new),
            len(self.functions_analysed), time.time() - self.t0))
        return 1 if new else 0

    def write_evidence(self, nviol, nknown):
        ev = {
            'property_id': self.pid,
            'tier': self.tier,
            'seed': int(os.environ.get('VERIF_SEED', '0') or 0),
            'level': 'other',
            'coverage': {
                'explanation': self.explanation,
                'not_decided': self.not_decided,
                'obligations': self.obligations,
                'discharged': self.discharged,
                'evaluations': self.obligations,
                'distinct_nontrivial': len(self.nontrivial),
                'rule': 'one obligation per rule instance (code site x instantiation); distinct_nontrivial counts distinct '
                        '(rule, normalised site) pairs whose obligation is not vacuous',
                'rules': {rid: {'text': r['desc'], 'instances': r['instances'], 'floor': r['floor'], 'violations': r['violations']}
                          for rid, r in sorted(self.rules.items())},
                'samples': self.samples[:40] or [{'note': 'no sample recorded'}],
                'checker_cmd': 'python3 /verif/bin/vcheck %s --tier %s' % (self.pid, self.tier),
                'trusted_base': ['clang 14 parser/Sema and constant evaluator', 'jcsa_facts plugin (AST serialiser)',
                                 'Python analysers in /verif/jcsa', 'specification tables in /verif/spec',
                                 'instantiation drivers in /verif/drivers stand for the instantiations users get'],
                'units': self.units,
                'units_loaded': sorted(__import__('jcsa.frontend', fromlist=['x']).LOADED_UNITS),
                'functions': len(self.functions_analysed),
                'known_findings_reported': nknown,
                'include_root': INCLUDE,
                'tree_hash': tree_hash(),
                'notes': self.notes,
                'exhaustive': False,
            },
            'assumptions': self.assumptions or ['structural clauses only; the behaviour itself is not decided (see not_decided)'],
            'wall_s': round(time.time() - self.t0, 2),
            'violations': nviol,
        }
        OUT = os.environ.get('VERIF_OUT_DIR') or VERIF
        os.makedirs(os.path.join(OUT, 'evidence'), exist_ok=True)
        p = os.path.join(OUT, 'evidence', self.pid + '.json')
        with open(p + '.tmp', 'w') as fh:
            json.dump(ev, fh, indent=1, default=str)
        os.replace(p + '.tmp', p)

def load_known():
    try:
        with open(KNOWN) as fh:
            return json.load(fh)
    except FileNotFoundError:
        return {'findings': [], 'fixed': []}
