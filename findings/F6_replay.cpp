#include <jsoncons/json.hpp>
#include <jsoncons_ext/jsonschema/jsonschema.hpp>
#include <jsoncons_ext/jsonpath/jsonpath.hpp>
#include <iostream>
using namespace jsoncons;
int main(){
    int bad=0;
    try { auto s = jsonschema::make_json_schema(json::parse(R"({"pattern":"("})")); bad++; } catch (const jsonschema::schema_error& e) { std::cout<<"schema_error ok\n"; } catch (const std::regex_error&) { std::cout<<"regex_error escaped\n"; bad++; }
    try { auto s = jsonschema::make_json_schema(json::parse(R"({"patternProperties":{"(":{}}})")); bad++; } catch (const jsonschema::schema_error& e) { std::cout<<"schema_error ok\n"; } catch (const std::regex_error&) { std::cout<<"regex_error escaped\n"; bad++; }
    std::error_code ec; auto e = jsonpath::make_expression<json>("$[?(@.a =~ /(/)]", ec); std::cout << "ec=" << ec.message() << "\n"; if(!ec) bad++;
    try { auto e2 = jsonpath::make_expression<json>("$[?(@.a =~ /(/)]"); bad++; } catch (const jsonpath::jsonpath_error& e) { std::cout<<"jsonpath_error ok\n"; } catch (const std::regex_error&) { bad++; }
    json doc = json::parse(R"([{"a":"x,y"}])");
    try { auto r = jsonpath::json_query(doc, "$[?(tokenize(@.a, '(') )]"); std::cout << r << "\n"; } catch (const jsonpath::jsonpath_error& e) { std::cout<<"jsonpath_error(tokenize) "<<e.what()<<"\n"; } catch (const std::regex_error&) { std::cout<<"regex_error escaped tokenize\n"; bad++; }
    auto ok = jsonpath::json_query(json::parse(R"([{"a":"abc"},{"a":"xyz"}])"), "$[?(@.a =~ /a.*/)]"); std::cout << ok << "\n";
    return bad;
}
