"""C17 Typed encoding and decoding are inverse and route-independent - result typestate, arity/size guards."""
from .. import frontend as F, ast as A, cfg as C, util as U, guards as G

EXPLANATION = ('(R17.1) typestate of expected-like results in reflect/*.hpp and in the reflection macro expansions: a conversion_result / '
               'read_result / expected value is dereferenced (*r, r->, r.value()) only where a dominating test established success; '
               '(R17.3) every index access j[k] on a Json parameter in json_traits.hpp is dominated - in the function or at every call site of '
               'its helper - by a comparison with j.size(); (R17.4) the streaming decoder of the fixed-arity std::array<T,N> compares the '
               'number of elements consumed with N and expects end_array before returning; (R17.5) capacity reserved in decode_traits is '
               'capped (shared with C10/R10.4).')
NOT_DECIDED = 'inverse-ness and route equality of values; only the error-discipline and arity clauses are decided'

RESULT_TYPES = ('conversion_result<', 'read_result<', 'expected<', 'write_result')

def is_result_type(t):
    return any(w in t for w in RESULT_TYPES) and not t.endswith('*')

def success_guard(g, node, vid):
    """A dominating edge establishes that variable vid holds a value."""
    for cond_ast, label, edge in g.guards(node):
        s = A.strip(cond_ast, casts=True)
        if s is None or not isinstance(label, bool): continue
        if s.get('k') == 'CXXMemberCallExpr' and A.callee_name(s) in ('operator bool', 'has_value'):
            o = A.strip(s.get('obj'), casts=True)
            if o is not None and o.get('k') == 'DeclRefExpr' and o.get('id') == vid and label is True: return True
        if s.get('k') == 'CXXOperatorCallExpr' and s.get('oop') == '!':
            o = A.strip((s.get('args') or [None])[0], casts=True)
            if o is not None and o.get('k') == 'DeclRefExpr' and o.get('id') == vid and label is False: return True
    return False

def r17_1(chk, facts):
    chk.rule('R17.1', 'expected-like results are dereferenced only under a dominating success test', floor=20)
    n = 0
    seen = set()
    for fn in facts.functions:
        if fn.get('dep') or fn.get('body') is None: continue
        if not (fn['file'].startswith('include/jsoncons/reflect/') or fn['file'].startswith('drivers/reflect.cpp') or
                fn['file'].endswith(('decode_json.hpp', 'encode_json.hpp', 'decode_cbor.hpp', 'encode_cbor.hpp'))): continue
        derefs = []
        for x in A.walk_no_lambda(fn['body']):
            k = x.get('k')
            tgt = None
            if k == 'CXXOperatorCallExpr' and x.get('oop') in ('*', '->') and len(x.get('args') or []) == 1: tgt = x['args'][0]
            elif k == 'CXXMemberCallExpr' and A.callee_name(x) == 'value' and not (x.get('args') or []): tgt = x.get('obj')
            if tgt is None: continue
            o = A.strip(tgt, casts=True)
            if o is None or o.get('k') != 'DeclRefExpr' or o.get('dk') not in ('Var',): continue
            t = fn['_types'][o['t'] - 1] if o.get('t') else ''
            if not is_result_type(t): continue
            derefs.append((x, o))
        if not derefs: continue
        g = C.CFG(fn['body'])
        chk.analysed(fn)
        for i, (x, o) in enumerate(derefs):
            nd = g.node_of(x)
            if nd is None: continue
            n += 1
            site = U.site(fn, 'deref %s#%d' % (o.get('n'), i + 1))
            if site in seen: continue
            seen.add(site)
            ok = success_guard(g, nd, o.get('id'))
            if not ok:
                # same-expression short circuit / conditional: `r ? *r : ...` or `r && *r`
                pm = {}
                stack = [nd.ast]
                while stack:
                    y = stack.pop()
                    for c in A.children(y): pm[id(c)] = y; stack.append(c)
                cur = x; par = pm.get(id(cur))
                while par is not None and not ok:
                    if par.get('k') == 'ConditionalOperator' and any(z is cur for z in A.walk(par.get('then'))):
                        ct = A.text(par.get('cond'))
                        if o.get('n') in ct and '!' not in ct: ok = True
                    if par.get('k') == 'BinaryOperator' and par.get('op') == '&&' and any(z is cur for z in A.walk(par.get('rhs'))):
                        if o.get('n') in A.text(par.get('lhs')) and '!' not in A.text(par.get('lhs')): ok = True
                    cur = par; par = pm.get(id(par))
            facts_ = {'function': fn['q'], 'line': x.get('l'), 'variable': o.get('n')}
            if ok: chk.ok('R17.1', site, facts_ if n % 20 == 1 else None)
            else:
                chk.fail('R17.1', site, fn['file'], x.get('l'), '`%s` (a %s) is dereferenced in %s without a dominating success test' % (
                    o.get('n'), (fn['_types'][o['t'] - 1])[:40], fn['n']), facts_, fn['q'])
    chk.require(n >= 20, 'R17.1: only %d result dereferences found' % n)

def r17_3(chk, facts):
    chk.rule('R17.3', 'index access j[k] on a Json parameter in json_traits.hpp is dominated by a comparison with j.size(), locally or at every caller of the helper', floor=4)
    fns = [f for f in facts.functions if not f.get('dep') and f.get('body') is not None and f['file'].endswith('reflect/json_traits.hpp')]
    callers = {}
    for f in fns:
        for c in A.calls_in(f['body']):
            if c.get('cid') is not None: callers.setdefault(c['cid'], []).append((f, c))
    n = 0
    seen = set()
    def size_guarded(g, nd, pname):
        for cond_ast, label, edge in g.guards(nd):
            if any(c.get('k') == 'CXXMemberCallExpr' and A.callee_name(c) == 'size' and A.ref_name(c.get('obj')) == pname for c in A.calls_in(cond_ast)) or \
               (A.strip(cond_ast) or {}).get('k') == 'CXXMemberCallExpr' and A.callee_name(A.strip(cond_ast)) == 'size':
                return True
        return False
    for fn in fns:
        jparams = [p for p in fn['params'] if 'basic_json<' in fn['_types'][p['t'] - 1]]
        if not jparams: continue
        idx = []
        for x in A.walk_no_lambda(fn['body']):
            if x.get('k') == 'CXXOperatorCallExpr' and x.get('oop') == '[]' and len(x.get('args') or []) == 2:
                o = A.strip(x['args'][0], casts=True)
                if o is not None and o.get('k') == 'DeclRefExpr' and o.get('id') in [p['id'] for p in jparams]:
                    at = fn['_types'][x['args'][1]['t'] - 1] if x['args'][1].get('t') else ''
                    if at in ('unsigned long', 'int', 'unsigned int', 'long', 'const unsigned long', 'const int'):
                        idx.append((x, o))
        if not idx: continue
        chk.analysed(fn)
        g = C.CFG(fn['body'])
        for i, (x, o) in enumerate(idx):
            n += 1
            site = U.site(fn, 'index %s[%s]' % (o.get('n'), A.text(x['args'][1])[:12]))
            if site in seen: continue
            seen.add(site)
            nd = g.node_of(x)
            ok = nd is not None and size_guarded(g, nd, o.get('n'))
            how = 'local size test'
            if not ok:
                # helper: every caller passes its own Json parameter under a size test
                cs = callers.get(fn['id'], [])
                # recursive helper chains (tuple helper calls the next helper): climb until a non-helper caller is found
                todo = list(cs); visited = set(); roots = []
                while todo:
                    cf, cc = todo.pop()
                    key = (cf['id'], cc.get('l'))
                    if key in visited: continue
                    visited.add(key)
                    if A.strip_targs(cf.get('cls') or '') == A.strip_targs(fn.get('cls') or ''):
                        todo += callers.get(cf['id'], [])
                    else:
                        roots.append((cf, cc))
                if roots:
                    ok = True
                    for cf, cc in roots:
                        cg = C.CFG(cf['body'])
                        cn = cg.node_of(cc)
                        jn = None
                        for a in cc.get('args') or []:
                            s0 = A.strip(a, casts=True)
                            if s0 is not None and s0.get('k') == 'DeclRefExpr' and 'basic_json<' in cf['_types'][s0['t'] - 1]: jn = s0.get('n')
                        guarded_here = cn is not None and jn is not None and size_guarded(cg, cn, jn)
                        if not guarded_here and cn is not None and jn is not None:
                            # `return j.is_array() && j.size() == N && helper::is(j)`: the call is the right operand of && whose
                            # left operand compares j.size()
                            pm = {}
                            stack = [cn.ast]
                            while stack:
                                y = stack.pop()
                                for c_ in A.children(y): pm[id(c_)] = y; stack.append(c_)
                            cur = cc; par = pm.get(id(cur))
                            while par is not None and not guarded_here:
                                if par.get('k') == 'BinaryOperator' and par.get('op') == '&&' and any(z is cur for z in A.walk(par.get('rhs'))):
                                    if ('%s.size()' % jn) in A.text(par.get('lhs')): guarded_here = True
                                cur = par; par = pm.get(id(par))
                        if not guarded_here: ok = False
                    how = 'size test at every caller (%d)' % len(roots)
            facts_ = {'function': fn['q'], 'line': x.get('l'), 'how': how}
            if ok: chk.ok('R17.3', site, facts_)
            else:
                chk.fail('R17.3', site, fn['file'], x.get('l'), '%s[%s] in %s is not preceded by a comparison with %s.size() (here or at its callers): a shorter array is read out of bounds' % (
                    o.get('n'), A.text(x['args'][1])[:16], U.site(fn, '').strip(), o.get('n')), facts_, fn['q'])
    chk.require(n >= 4, 'R17.3: only %d index accesses on Json parameters found' % n)

def r17_4(chk, facts):
    chk.rule('R17.4', 'decode_traits<std::array<T,N>>::decode compares the number of elements consumed with N and requires end_array before returning the array', floor=1)
    fns = [f for f in facts.functions if not f.get('dep') and f.get('body') is not None and f['n'] == 'decode' and
           'decode_traits<std::array<' in (f.get('cls') or '')]
    chk.require(fns, 'decode_traits<std::array<T,N>>::decode not instantiated')
    for fn in U.one_per_inst(fns):
        chk.analysed(fn)
        g = C.CFG(fn['body'])
        import re
        m = re.search(r'std::array<.*, (\d+)>', fn.get('cls') or '')
        N = int(m.group(1)) if m else None
        ok_count = False; ok_end = False
        for nd in g.rpo:
            if nd.kind != 'cond': continue
            cmp_ = G.comparison(nd.ast)
            if cmp_ and cmp_[0] in ('!=', '==', '<') and (A.const(cmp_[2]) == N or A.const(cmp_[1]) == N) and not any(k.kind == 'join' for k in []):
                # outside the loop: its failing edge returns an error (not the loop condition i < N)
                fe = [e for e in nd.succ if e.label is (cmp_[0] == '!=' or cmp_[0] == '<')]
                if fe and any(x.kind == 'return' for x in G.block_after(fe[0])): ok_count = True
            t = A.text(nd.ast)
            if 'end_array' in t and 'event_type' in t:
                fe = [e for e in nd.succ if e.kind == 'edge']
                if any(any(x.kind == 'return' for x in G.block_after(e)) for e in fe): ok_end = True
        site = U.site(fn, 'arity N=%s' % N)
        if ok_count and ok_end: chk.ok('R17.4', site, {'function': fn['q'], 'N': N})
        else:
            chk.fail('R17.4', site, fn['file'], fn['l'], 'std::array<T,%s> is returned without checking that exactly %s elements were consumed (count test: %s, end_array test: %s)' % (N, N, ok_count, ok_end), None, fn['q'])

def r17_11(chk, facts):
    """A decoded or converted string keeps its length."""
    chk.rule('R17.11', 'string hand-over: in the typed conversion headers (include/jsoncons/reflect) no string value is handed to a constructor, '
                       'result or call through `x.c_str()` alone - a NUL-terminated pointer ends the value at its first U+0000, which the '
                       'basic_json route (pointer and length) keeps; the rule must find its positive example in /verif/drivers on every run', floor=1)
    def sites(fn):
        out = []
        for y in A.walk_no_lambda(fn['body']):
            if y.get('k') not in ('CXXConstructExpr', 'CXXTemporaryObjectExpr', 'InitListExpr', 'CallExpr', 'CXXMemberCallExpr', 'CXXFunctionalCastExpr', 'CXXUnresolvedConstructExpr'): continue
            args = y.get('args') or y.get('c') or ([y['sub']] if y.get('sub') is not None else [])
            for a in args:
                sa = A.strip(a, casts=True)
                if sa is not None and A.is_call(sa) and A.callee_name(sa) == 'c_str':
                    o = A.ref_name(sa.get('obj'))
                    # the same object's size()/length() among the sibling arguments: pointer and length travel together
                    if any(A.is_call(z) and A.callee_name(z) in ('size', 'length') and A.ref_name(z.get('obj')) == o for b in args if b is not a for z in A.walk(b)): continue
                    out.append((y, sa, o))
        return out
    pos = 0; n = 0; seen = set()
    for fn in facts.functions:
        if fn.get('body') is None or fn.get('dep'): continue
        in_lib = fn['file'].startswith('include/jsoncons/reflect/')
        in_drv = fn['file'].startswith('drivers/reflect.cpp') and fn['n'] == 'cstr_truncation_witness'
        if not (in_lib or in_drv): continue
        for y, sa, o in sites(fn):
            if (fn['file'], sa.get('l'), sa.get('col')) in seen: continue
            seen.add((fn['file'], sa.get('l'), sa.get('col')))
            if in_drv: pos += 1; continue
            n += 1
            chk.analysed(fn)
            chk.fail('R17.11', U.site(fn, 'c_str hand-over@%d' % (sa.get('l', 0) - fn['l'])), fn['file'], sa.get('l'), '%s hands `%s.c_str()` on without its length: a value that contains U+0000 is cut off there, while the '
                     'basic_json route keeps it (the two routes then disagree)' % (A.strip_targs(fn.get('cls') or fn['n']).split('::')[-1] + '::' + fn['n'], o), None, fn['q'])
    chk.require(pos >= 1, 'R17.11: the positive example jcsa_reflect::cstr_truncation_witness in drivers/reflect.cpp was not recognised')
    if not n: chk.ok('R17.11', 'include/jsoncons/reflect no NUL-terminated hand-over', {'positive_example_found': pos, 'sites_in_library': 0})

def r17_2(chk, facts):
    """Mandatory members: in the expansions of the N_* macro families the member with 0-based position i is mandatory iff i < N, in every
    generated function of both routes (json_traits is/try_as/to_json and the streaming encode/decode traits)."""
    from .. import guards as G
    chk.rule('R17.2', 'mandatory members: every test in a macro-generated traits function that compares a member position with num_mandatory_params '
                      'holds exactly for positions 0..N-1 (constant positions are folded with the class constants; run-time positions must use `<`), '
                      'in both routes', floor=60)
    consts = {}
    for v in facts.vars:
        if v.get('n') in ('num_params', 'num_mandatory_params') and not v.get('dep') and v.get('init') is not None:
            c = A.const(v['init'])
            if c is not None: consts[v['q']] = c
    def val(e):
        s2 = A.strip(e, casts=True)
        if s2 is None: return None
        c = A.const(s2)
        if c is not None: return c
        if s2.get('k') == 'DeclRefExpr' and s2.get('q') in consts: return consts[s2['q']]
        if s2.get('k') == 'BinaryOperator' and s2.get('op') in ('-', '+'):
            a, b = val(s2.get('lhs')), val(s2.get('rhs'))
            if a is None or b is None: return None
            return a - b if s2['op'] == '-' else a + b
        return None
    n = 0; fams = set()
    for fn in facts.functions:
        if fn.get('body') is None or fn.get('dep') or not fn['file'].startswith('drivers/reflect.cpp'): continue
        k = 0
        for x in A.walk_no_lambda(fn['body']):
            c = G.comparison(x) if x.get('k') == 'BinaryOperator' else None
            if not c: continue
            op, l, r = c
            def nref(e):
                return [y for y in A.walk(e) if y.get('k') == 'DeclRefExpr' and y.get('n') == 'num_mandatory_params']
            if not nref(l) and not nref(r): continue
            if nref(l) and not nref(r): op, l, r = G.FLIP[op], r, l
            if A.ref_name(l) == 'num_params' and op in ('==', '!='): continue      # "all members are mandatory" shortcut
            N = consts.get(nref(r)[0].get('q'))
            if N is None: continue
            bound = val(r)           # the value the position is compared with (N itself unless the expression was altered)
            k += 1; n += 1
            fams.add(x.get('m') or fn.get('m') or '')
            cls = A.strip_targs(fn.get('cls') or fn['q']).split('::')[-1]
            who = (fn.get('cls') or fn['q'])
            wit = who[who.find('jcsa_reflect::'):].split('>')[0].split(',')[0] if 'jcsa_reflect::' in who else who[-30:]
            site = 'drivers/reflect.cpp %s<%s>::%s mandatory test#%d' % (cls, wit, fn['n'], k)
            i = val(l)
            if i is not None and bound is not None:
                got = {'<': i < bound, '<=': i <= bound, '>': i > bound, '>=': i >= bound, '==': i == bound, '!=': i != bound}[op]
                if got == (i < N): chk.ok('R17.2', site, {'position': i, 'mandatory_count': N, 'operator': op} if k == 1 else None)
                else: chk.fail('R17.2', site, fn['file'], x.get('l'), '%s<%s>::%s treats member %d of a type with %d mandatory members as %s (test `%s %s`)' % (
                    cls, wit, fn['n'], i, N, 'mandatory' if got else 'optional', A.text(l), op + ' ' + A.text(r)), {'macro': x.get('m')}, fn['q'])
            else:
                if op == '<' and A.ref_name(r) == 'num_mandatory_params': chk.ok('R17.2', site, {'position': A.text(l), 'operator': op} if k == 1 else None)
                else: chk.fail('R17.2', site, fn['file'], x.get('l'), '%s<%s>::%s decides whether member `%s` is mandatory with `%s num_mandatory_params`; a member is mandatory iff its position < N' % (
                    cls, wit, fn['n'], A.text(l), op), {'macro': x.get('m')}, fn['q'])
    chk.require(n >= 60, 'R17.2: only %d mandatory-member tests found in the macro expansions' % n)
    # the test distinguishes something: a member that is optional is not handled by the statements that handle a mandatory one
    m2 = 0
    for fn in facts.functions:
        if fn.get('body') is None or fn.get('dep') or not fn['file'].startswith('drivers/reflect.cpp'): continue
        k = 0
        for x in A.walk_no_lambda(fn['body']):
            if x.get('k') != 'IfStmt' or x.get('then') is None or x.get('else') is None: continue
            if not any(y.get('k') == 'DeclRefExpr' and y.get('n') == 'num_mandatory_params' for y in A.walk(x.get('cond'))): continue
            if (A.strip(x['else']) or {}).get('k') == 'IfStmt': continue
            k += 1; m2 += 1
            who = (fn.get('cls') or fn['q'])
            wit = who[who.find('jcsa_reflect::'):].split('>')[0].split(',')[0] if 'jcsa_reflect::' in who else who[-30:]
            site = 'drivers/reflect.cpp %s<%s>::%s mandatory/optional branches#%d' % (A.strip_targs(fn.get('cls') or fn['q']).split('::')[-1], wit, fn['n'], k)
            def callees(b): return sorted(set(A.callee_name(c) for c in A.calls_in(b) if A.callee_name(c) and not A.callee_name(c).startswith('operator')))
            def shape(b): return tuple((y.get('k'), y.get('n') or y.get('op') or y.get('oop') or (A.callee_name(y) if y.get('k') in A.CALLS else None) or y.get('v')) for y in A.walk(b))
            if shape(x['then']) != shape(x['else']): chk.ok('R17.2', site, None)
            else:
                chk.fail('R17.2', site, fn['file'], x.get('l'), '%s<%s>::%s: both outcomes of the mandatory-member test at line %s call %s: an optional member is treated exactly like a mandatory one '
                         '(an absent optional is then written, or demanded)' % (A.strip_targs(fn.get('cls') or fn['q']).split('::')[-1], wit, fn['n'], x.get('l'), callees(x['then'])), {'macro': x.get('m')}, fn['q'])
    chk.require(m2 >= 10, 'R17.2: only %d two-way mandatory/optional branches found in the macro expansions' % m2)

def r17_5(chk, facts):
    """The streaming encode route opens every container with its length: MessagePack has no indefinite-length containers."""
    chk.rule('R17.5', 'typed encoding: every begin_array/begin_object issued by encode_traits and by the macro-generated encode functions resolves to '
                      'the overload that takes the element count first (a length-less open cannot be encoded as MessagePack)', floor=10)
    n = 0; seen = set()
    for fn in facts.functions:
        if fn.get('body') is None or fn.get('dep'): continue
        if not (fn['file'].endswith('reflect/encode_traits.hpp') or fn['file'].startswith('drivers/reflect.cpp')): continue
        key = (fn['file'], fn['l'], fn['n']) if not fn['file'].startswith('drivers/') else (fn['q'],)
        if key in seen: continue
        seen.add(key)
        k = 0
        for c in A.calls_in(fn['body'], no_lambda=True):
            if A.callee_name(c) not in ('begin_array', 'begin_object') or c.get('k') != 'CXXMemberCallExpr': continue
            cal = facts.callee(fn, c)
            if cal is not None: ptypes = [F.tname(cal, p_['t']) for p_ in cal.get('params') or []]
            else:
                a0 = (c.get('args') or [None])[0]
                ptypes = [fn['_types'][a0['t'] - 1]] if a0 is not None and a0.get('t') else []
            k += 1; n += 1
            cls = A.strip_targs(fn.get('cls') or fn['q']).split('::')[-1]
            site = '%s %s::%s %s#%d' % (fn['file'], cls, fn['n'], A.callee_name(c), k)
            first = (ptypes[0] if ptypes else '').replace('std::', '')
            if first in ('size_t', 'unsigned long', 'unsigned long long', 'unsigned int'): chk.ok('R17.5', site, {'first_parameter': first} if k == 1 else None)
            else: chk.fail('R17.5', site, fn['file'], c.get('l'), '%s::%s opens a container with %s(%s, ...): no element count, so the value cannot be written as MessagePack and the routes disagree' % (
                cls, fn['n'], A.callee_name(c), first[:30]), None, fn['q'])
    chk.require(n >= 10, 'R17.5: only %d container opens found in the streaming encode route' % n)

def r17_6(chk, facts):
    """Generated streaming decode: after the cursor moves on, the member name in `key` is re-read before it is compared again."""
    from .. import cfg as C, guards as G
    chk.rule('R17.6', 'generated decode loop: on every path from a cursor advance (read_next_or_end / cursor.next) to the next comparison of `key` '
                      'with a member name, `key` is re-read with get_key(); otherwise an unknown member makes the loop consume the rest of '
                      'the object and report a missing member, while the basic_json route accepts the same text', floor=2)
    n = 0
    for fn in facts.functions:
        if fn.get('body') is None or fn.get('dep') or not fn['file'].startswith('drivers/reflect.cpp') or fn['n'] != 'decode': continue
        calls = [A.callee_name(c) for c in A.calls_in(fn['body'], no_lambda=True)]
        if 'get_key' not in calls: continue
        chk.analysed(fn)
        g = C.CFG(fn['body'])
        adv = []; refresh = []; cmp_nodes = []
        for nd in g.rpo:
            if nd.kind not in ('stmt', 'cond') or not isinstance(nd.ast, dict): continue
            for c in A.calls_in(nd.ast):
                nm = A.callee_name(c)
                if (nm or '').endswith('read_next_or_end') or (nm in ('next', 'read_to') and A.ref_name(c.get('obj')) == 'cursor'): adv.append(nd)
            if nd.kind == 'stmt':
                am = U.assigned_member(nd.ast)
                if am and am[0] == 'key' and any(A.callee_name(c) == 'get_key' for c in A.calls_in(am[1])): refresh.append(nd)
                if nd.ast.get('k') == 'DeclStmt' and any(d.get('n') == 'key' for d in nd.ast.get('decls') or []): refresh.append(nd)
            if nd.kind == 'cond':
                c2 = G.comparison(nd.ast)
                if c2 and c2[0] == '==' and any(y.get('k') == 'DeclRefExpr' and y.get('n') == 'key' for side in (c2[1], c2[2]) for y in A.walk(side)): cmp_nodes.append(nd)
        who = (fn.get('cls') or '')
        wit = who[who.find('jcsa_reflect::'):].split('>')[0] if 'jcsa_reflect::' in who else who[-30:]
        n += 1
        site = 'drivers/reflect.cpp decode_traits<%s>::decode key freshness' % wit
        stale = [a for a in adv if any(g.can_reach(s2, cmp_nodes, avoid=refresh) for s2 in a.succ)]
        # a decode of the member value (decode_traits<...>::decode) between is fine: it is followed by read_next_or_end again
        if not stale: chk.ok('R17.6', site, {'advances': len(adv), 'refreshes': len(refresh), 'comparisons': len(cmp_nodes)})
        else:
            lines = sorted(set(a.line for a in stale))
            macro = next((a.ast.get('m') for a in stale if a.ast.get('m')), None)
            chk.fail('R17.6', site, fn['file'], lines[0], 'decode_traits<%s>::decode: after the cursor advance in the no-match branch (`count++ >= num_params`) the loop can compare `key` again without get_key(): an unknown member before a known one ends in missing_required_member, json(...).as<T>() accepts it' % wit,
                     {'stale_advances': len(stale)}, fn['q'])
    chk.require(n >= 2, 'R17.6: only %d generated streaming decoders found' % n)

SEQ = ('std::vector<', 'std::list<', 'std::deque<', 'std::forward_list<')

def r17_7(chk, facts):
    """T x{expr of type T} for a sequence of basic_json: initializer_list<basic_json> is viable (a basic_json can be built from the whole
    container), so the compilers that prefer the initializer_list constructor (CWG 2137, g++) build a one-element container holding the
    container; clang copies.  Parentheses are unambiguous."""
    chk.rule('R17.7', 'no brace-initialisation `T x{e}` with e of type T where T is a sequence of basic_json (the result differs between '
                      'compilers: one element holding the array versus a copy); found in the typed conversion code it puts a spurious leading '
                      'element into as<std::vector<json>>()', floor=1)
    ctl = False; n = 0; seen = set()
    for fn in facts.functions:
        if fn.get('body') is None or fn.get('dep'): continue
        in_lib = fn['file'].startswith('include/jsoncons/')
        in_ctl = fn['file'].startswith('drivers/reflect.cpp') and fn['n'] == 'jcsa_use_vector_of_json'
        if not (in_lib or in_ctl): continue
        for x in A.walk_no_lambda(fn['body']):
            if x.get('k') != 'InitListExpr' or len(x.get('c') or []) != 1 or not x.get('t') or not x['c'][0].get('t'): continue
            t = fn['_types'][x['t'] - 1]; ct = fn['_types'][x['c'][0]['t'] - 1]
            if t != ct or not t.startswith(SEQ) or 'basic_json' not in t.split('<', 1)[1][:50]: continue
            if in_ctl: ctl = True; continue
            key = (fn['file'], x.get('l'))
            if key in seen: continue
            seen.add(key); n += 1
            chk.analysed(fn)
            chk.fail('R17.7', U.site(fn, 'brace init of %s' % t[:40]), fn['file'], x.get('l'), '%s: `%s x{<%s>}` - with g++ this selects the initializer_list constructor and yields a container with one element (the array itself) instead of a copy' % (
                fn['n'], t[:50], t[:30]), None, fn['q'])
    chk.require(ctl, 'R17.7 positive control (brace-initialised vector<json> in drivers/reflect.cpp) not detected')
    chk.ok('R17.7', 'drivers/reflect.cpp positive control', {'control_found': True, 'library_instances': n})

def r17_8(chk, facts):
    """Cursor protocol of decode_traits<T>::decode: the function returns with the cursor on the last event of the value it decoded
    (containers stop on their end event; the caller advances).  A value that is one event long must therefore not be stepped over."""
    from .. import cfg as C
    chk.rule('R17.8', 'cursor protocol: in decode_traits<T>::decode, a branch selected by a single-event value (case/test of a *_value event type) '
                      'does not advance the cursor before it returns the value; the member loops of the generated decoders advance themselves, '
                      'so an extra step drops the next member name', floor=1)
    en = U.enum_by_suffix(F.load(['core'], 'quick'), '::staj_events')
    names = U.enum_value_names(en)
    n = 0; seen = set()
    for fn in facts.functions:
        if fn.get('body') is None or fn.get('dep') or not fn['file'].endswith('reflect/decode_traits.hpp') or fn['n'] != 'decode': continue
        if (fn['file'], fn['l']) in seen: continue
        g = C.CFG(fn['body'])
        k = 0
        for nd in g.rpo:
            if nd.kind != 'switch' or 'event_type' not in A.text(nd.ast): continue
            for e in nd.succ:
                if e.kind != 'edge' or not isinstance(e.label, tuple) or e.label[0] != 'case': continue
                evn = names.get(e.label[1], '')
                if not evn.endswith('_value'): continue
                if (fn['file'], fn['l']) not in seen: seen.add((fn['file'], fn['l'])); chk.analysed(fn)
                k += 1; n += 1
                site = U.site(fn, 'case %s' % evn)
                steps = []
                reach = g.reachable_from(e, avoid=[x for x in nd.succ if x is not e])
                for m in g.rpo:
                    if m.id in reach and m.kind in ('stmt', 'cond') and isinstance(m.ast, dict):
                        for c in A.calls_in(m.ast):
                            if A.callee_name(c) == 'next' and A.ref_name(c.get('obj')) == 'cursor': steps.append(c)
                if not steps: chk.ok('R17.8', site, {'event': evn})
                else: chk.fail('R17.8', site, fn['file'], steps[0].get('l'), 'decode: the %s branch calls cursor.next() (line %s) after reading the value: the caller advances again and the next member name is lost ("Not a key")' % (evn, steps[0].get('l')), None, fn['q'])
    chk.require(n >= 1, 'R17.8: no single-event value branch found in decode_traits.hpp')

def r17_9(chk, tier):
    """Building a basic_json from cursor events keeps the semantic tag of every scalar event."""
    from .. import cfg as C, guards as G
    chk.rule('R17.9', 'event to value: in the cursor-to-basic_json builders of staj_cursor.hpp every case of a scalar event (string, byte string, '
                      'bool, int64, uint64, half, double) builds the value with cursor.current().tag(); a dropped tag turns an epoch/bigdec/'
                      'base64 value into a plain one on the streaming route only', floor=20)
    facts = F.load(['reflect'], tier)
    en = U.enum_value_names(U.enum_by_suffix(F.load(['core'], tier), '::staj_events'))
    n = 0; seen = set()
    for fn in facts.functions:
        if fn.get('body') is None or fn.get('dep') or not fn['file'].endswith('jsoncons/staj_cursor.hpp') or (fn['file'], fn['l']) in seen: continue
        if not any(A.callee_name(c) == 'tag' for c in A.calls_in(fn['body'], no_lambda=True)): continue
        g = C.CFG(fn['body'])
        first = True
        for nd in g.rpo:
            if nd.kind != 'switch' or 'event_type' not in A.text(nd.ast): continue
            for e in nd.succ:
                if e.kind != 'edge' or not isinstance(e.label, tuple) or e.label[0] != 'case': continue
                evn = en.get(e.label[1], '')
                if not evn.endswith('_value') or evn == 'null_value': continue
                if first: seen.add((fn['file'], fn['l'])); chk.analysed(fn); first = False
                n += 1
                site = U.site(fn, 'switch@%d case %s' % (nd.line - fn['l'], evn))
                has_tag = False; builds = False
                for m in G.region_of_edge(g, e):
                    if isinstance(m.ast, dict) and m.kind in ('stmt', 'return', 'cond'):
                        for c in A.calls_in(m.ast):
                            if A.callee_name(c) == 'tag' and 'current' in A.text(c.get('obj')): has_tag = True
                            if A.callee_name(c) == 'get' and 'current' in A.text(c.get('obj')): builds = True
                if not builds: n -= 1; continue
                if has_tag: chk.ok('R17.9', site, {'event': evn})
                else: chk.fail('R17.9', site, fn['file'], e.src.line if e.src is not None else fn['l'], '%s: the %s case builds the value without cursor.current().tag(): the semantic tag of the event is lost on this route' % (fn['n'], evn), None, fn['q'])
    chk.require(n >= 20, 'R17.9: only %d scalar event cases found in staj_cursor.hpp' % n)

def r17_10(chk, facts):
    """The generated decoders decide "a mandatory member is missing" from the first clear bit of the members-seen set."""
    chk.rule('R17.10', 'first missing member: every value find_first_not_set() returns is either an index tested clear on that path '
                       '(`!indices[i]` / `!indices.test(i)`) or the size of the set; a count of the bits set is the first clear index only '
                       'when the members arrive in declaration order', floor=1)
    fns = [f for f in facts.functions if f['n'] == 'find_first_not_set' and f.get('body') is not None and not f.get('dep')]
    chk.require(fns, 'reflect: find_first_not_set not instantiated')
    for fn in U.one_per_inst(fns)[:3]:
        chk.analysed(fn)
        g = C.CFG(fn['body'])
        pid = fn['params'][0]['id']
        bad = None; nret = 0
        for nd in g.rpo:
            if nd.kind != 'return' or nd.ast.get('val') is None: continue
            nret += 1
            v = A.strip(nd.ast['val'], casts=True)
            ok = False
            if v is not None and v.get('k') == 'CXXMemberCallExpr' and A.callee_name(v) == 'size' and (A.strip(v.get('obj'), casts=True) or {}).get('id') == pid: ok = True
            if v is not None and A.const(v) is not None and 'ev' in v and v.get('k') != 'IntegerLiteral': ok = True      # N folded
            if v is not None and v.get('k') == 'DeclRefExpr':
                for a, lab, e in g.guards(nd):
                    t = A.strip(a, casts=True); lab2 = lab
                    while t is not None and t.get('k') == 'UnaryOperator' and t.get('op') == '!':
                        t = A.strip(t.get('sub'), casts=True); lab2 = not lab2
                    # bitset::operator[] / test(i) on the parameter with the returned variable as index, evaluated false
                    for y in A.walk(t) if t is not None else ():
                        if y.get('k') in ('CXXOperatorCallExpr', 'CXXMemberCallExpr') and (y.get('oop') == '[]' or A.callee_name(y) == 'test'):
                            args_ = y.get('args') or []
                            idx = A.strip(args_[-1], casts=True) if args_ else None
                            if idx is not None and idx.get('k') == 'DeclRefExpr' and idx.get('id') == v.get('id') and lab2 is False: ok = True
            if not ok: bad = nd
        site = U.site(fn, 'returned index')
        if bad is None and nret: chk.ok('R17.10', site, {'returns': nret})
        else:
            chk.fail('R17.10', site, fn['file'], bad.line if bad is not None else fn['l'], 'find_first_not_set returns `%s`, which is not an index found clear on that path: with '
                     'members read out of declaration order the missing mandatory member is not detected (or a present one is reported)' % (A.text(bad.ast.get('val'))[:40] if bad is not None else '?'), None, fn['q'])

def run(chk, tier, only_rule=None):
    chk.explanation = EXPLANATION
    chk.not_decided = NOT_DECIDED
    facts = F.load(['reflect'], tier)
    chk.units = ['reflect']
    r17_1(chk, facts)
    r17_2(chk, facts)
    r17_5(chk, facts)
    r17_6(chk, facts)
    r17_7(chk, facts)
    r17_8(chk, facts)
    r17_9(chk, tier)
    r17_3(chk, facts)
    r17_4(chk, facts)
    r17_10(chk, facts)
    r17_11(chk, facts)
    # the fallback route builds a basic_json from cursor events: each numeric event is read with the getter of its own type (R03.12)
    from . import c03
    c03.r03_12(chk, F.load(['core'], tier))
    # the decoders read keys and strings as views of the current event
    from . import c03
    c03.r03_9(chk, tier)
