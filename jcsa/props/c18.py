"""C18 CSV and TOON text round-trip - quote-trigger set vs parser special set; quote escaping inverse."""
from .. import frontend as F, ast as A, cfg as C, util as U, peval as P, guards as G

EXPLANATION = ('(R18.1) CSV: the set of characters that trigger quoting under quote_style minimal (targets of the find() calls in the '
               'quoting condition of csv_encoder::write_string_value) contains every character the parser treats specially inside an '
               'unquoted field (case labels and member comparisons of the unquoted_string state: field delimiter, CR, LF) and the quote '
               'character; (R18.2) the escape writer turns exactly the quote character into quote_escape_char followed by the quote character, '
               'and the parser quoted_string/escaped_value states undo exactly that.')
NOT_DECIDED = 'table equality after a round trip; column/type inference; the TOON encoder/reader pair beyond the listed rules'

def run(chk, tier, only_rule=None):
    chk.explanation = EXPLANATION
    chk.not_decided = NOT_DECIDED
    facts = F.load(['csv'], tier)
    chk.units = ['csv']
    chk.rule('R18.1', 'CSV minimal quoting: trigger set of the encoder is a superset of the characters special in an unquoted field plus the quote character', floor=4)
    chk.rule('R18.2', 'CSV quote escaping: writer emits quote_escape_char + quote_char exactly for quote_char; parser escaped_value accepts exactly quote_char', floor=4)
    # ---- parser special set in unquoted_string
    pf = [f for f in U.functions(facts, cls='basic_csv_parser', name='parse_some') if f.get('body') is not None]
    chk.require(pf, 'basic_csv_parser::parse_some not found')
    special = set()
    pfn = pf[0]
    chk.analysed(pfn)
    en = U.enum_value_names(U.enum_by_suffix(facts, '::csv_parse_state'))
    inv = {v: k for k, v in en.items()}
    found_state = False
    for sw in A.walk_no_lambda(pfn['body']):
        if sw.get('k') != 'SwitchStmt' or A.ref_name(sw.get('cond')) != 'state_': continue
        items = P.PEval.switch_items(sw['body'])
        for labels, st in items:
            if not any(lo != 'default' and lo == inv.get('unquoted_string') for lo, hi in labels): continue
            # the main-loop version switches over curr_char
            inner = [y for y in A.walk_no_lambda(st) if y.get('k') == 'SwitchStmt' and A.ref_name(y.get('cond')) == 'curr_char'] if st else []
            if not inner: continue
            found_state = True
            for lbls, s2 in P.PEval.switch_items(inner[0]['body']):
                for lo, hi in lbls:
                    if lo != 'default': special.add(lo)
            for y in A.walk_no_lambda(inner[0]):
                if y.get('k') == 'BinaryOperator' and y.get('op') == '==' and A.ref_name(y.get('lhs')) == 'curr_char':
                    n = A.ref_name(y.get('rhs'))
                    if n: special.add(n)
    chk.require(found_state and special, 'csv parser: unquoted_string state with a switch over curr_char not found')
    # subfield_delimiter_ is a decode-only option (the encoder never writes sub-fields)
    required = set(x for x in special if x != 'subfield_delimiter_') | {'quote_char_'}
    # ---- encoder trigger set
    ef = [f for f in U.functions(facts, cls='basic_csv_encoder', name='write_string_value') if f.get('body') is not None]
    chk.require(ef, 'basic_csv_encoder::write_string_value not found')
    for fn in U.one_per_inst(ef):
        chk.analysed(fn)
        triggers = set()
        for c in A.walk_no_lambda(fn['body']):
            if c.get('k') in A.CALLS and A.callee_name(c) == 'find':
                args = c.get('args') or []
                if len(args) >= 3:
                    v = A.const(args[2])
                    triggers.add(v if v is not None else A.ref_name(args[2]))
        for r in sorted(required, key=str):
            site = U.site(fn, 'trigger %s' % (r if isinstance(r, str) else '0x%02x' % r))
            if r in triggers: chk.ok('R18.1', site, {'special_in_parser': sorted(map(str, special)), 'encoder_triggers': sorted(map(str, triggers))})
            else:
                chk.fail('R18.1', site, fn['file'], fn['l'], 'a field containing %s is written unquoted under quote_style minimal, but the parser treats it specially inside an unquoted field' % (
                    r if isinstance(r, str) else repr(chr(r))), {'encoder_triggers': sorted(map(str, triggers))}, fn['q'])
    # ---- escape writer
    wf = [f for f in U.functions(facts, cls='basic_csv_encoder', name='escape_string') if f.get('body') is not None]
    chk.require(wf, 'basic_csv_encoder::escape_string not found')
    for fn in U.one_per_inst(wf):
        chk.analysed(fn)
        loop = [x for x in A.walk_no_lambda(fn['body']) if x.get('k') == 'ForStmt']
        chk.require(loop, 'escape_string: loop not found')
        pid = {p['n']: p['id'] for p in fn['params']}
        for c, q, e in ((0x22, 0x22, 0x22), (0x41, 0x22, 0x22), (0x27, 0x27, 0x5c), (0x5c, 0x27, 0x5c)):
            pe = P.PEval(facts, fn, max_depth=1, bind={'c': c})
            pe.exec_stmt(loop[0]['body'], {pid['quote_char']: q, pid['quote_escape_char']: e}, (), 0)
            pushes = [x.args[0] for x in pe.effects if x.kind == 'call' and x.name == 'sink.push_back' and not x.guards]
            want = [e, q] if c == q else [c]
            site = U.site(fn, 'char=%r quote=%r escape=%r' % (chr(c), chr(q), chr(e)))
            if pushes == want: chk.ok('R18.2', site, {'written': pushes})
            else: chk.fail('R18.2', site, fn['file'], loop[0].get('l'), 'escape_string writes %s for %r (quote %r, escape %r), expected %s' % (pushes, chr(c), chr(q), chr(e), want), None, fn['q'])
    # ---- parser escaped_value accepts quote_char
    g = C.CFG(pfn['body'])
    ok = False
    for nd in g.rpo:
        if nd.kind == 'cond':
            cmp_ = G.comparison(nd.ast)
            if cmp_ and cmp_[0] == '==' and A.ref_name(cmp_[1]) == 'curr_char' and A.ref_name(cmp_[2]) == 'quote_char_':
                # under the escaped_value case, the true edge pushes the character
                under = any(e.src.kind == 'switch' and e.label[0] == 'case' and e.label[1] == inv.get('escaped_value') for a, lab, e in g.guards(nd) if e.src is not None and isinstance(e.label, tuple))
                te = [e for e in nd.succ if e.label is True]
                if under and te and any(x.kind == 'stmt' and any(A.callee_name(c) == 'push_back' for c in A.calls_in(x.ast)) for x in G.block_after(te[0])): ok = True
    site = U.site(pfn, 'escaped_value accepts quote_char')
    if ok: chk.ok('R18.2', site, {'verdict': 'escaped_value: curr_char == quote_char_ -> push'})
    else: chk.fail('R18.2', site, pfn['file'], pfn['l'], 'parser state escaped_value does not restore the quote character', None, pfn['q'])
