// jcsa-facts: clang 14 frontend plugin that reduces the type-checked AST of one
// translation unit to compact per-function facts (JSON lines).
//
// usage: clang++ -fsyntax-only -fplugin=jcsa_facts.so
//          -Xclang -plugin-arg-jcsa-facts -Xclang out=<file>
//          -Xclang -plugin-arg-jcsa-facts -Xclang root=<include root prefix>
//          [-Xclang -plugin-arg-jcsa-facts -Xclang only=<substr>[,<substr>...]]
//
// Every function definition (including every template instantiation, and the
// uninstantiated patterns, flagged "dep") whose definition lies in a file under
// `root` (and, if given, whose file path contains one of the `only` substrings)
// is written as one JSON object per line: qualified name, template arguments,
// signature facts, and the statement tree with resolved callees, referenced
// declarations, folded integer constants, case-label values, cast kinds and
// macro origins.  Records, enums and variables of static storage duration are
// written as their own lines.  The last line is the interned type table.
//
// The plugin evaluates nothing of jsoncons; it only serialises what Sema resolved.

#include "clang/AST/ASTConsumer.h"
#include "clang/AST/ASTContext.h"
#include "clang/AST/DeclTemplate.h"
#include "clang/AST/ExprCXX.h"
#include "clang/AST/RecursiveASTVisitor.h"
#include "clang/AST/StmtCXX.h"
#include "clang/Basic/SourceManager.h"
#include "clang/Frontend/CompilerInstance.h"
#include "clang/Frontend/FrontendPluginRegistry.h"
#include "clang/Lex/Lexer.h"
#include "llvm/Support/raw_ostream.h"

#include <map>
#include <set>
#include <string>
#include <vector>

using namespace clang;

namespace {

struct Config {
  std::string Out;
  std::vector<std::string> Roots;
  std::vector<std::string> Only;
};

static void jsonEscape(llvm::raw_ostream &OS, llvm::StringRef S) {
  OS << '"';
  for (unsigned char C : S) {
    switch (C) {
    case '"': OS << "\\\""; break;
    case '\\': OS << "\\\\"; break;
    case '\n': OS << "\\n"; break;
    case '\r': OS << "\\r"; break;
    case '\t': OS << "\\t"; break;
    default:
      if (C < 0x20 || C >= 0x7f) {
        char B[8];
        snprintf(B, sizeof B, "\\u%04x", (unsigned)C);
        OS << B;
      } else
        OS << (char)C;
    }
  }
  OS << '"';
}

class Emitter {
public:
  Emitter(ASTContext &Ctx, const Config &Cfg, llvm::raw_ostream &OS)
      : Ctx(Ctx), SM(Ctx.getSourceManager()), Cfg(Cfg), OS(OS),
        PP(Ctx.getLangOpts()) {
    PP.SuppressTagKeyword = true;
    PP.Bool = true;
    PP.SuppressUnwrittenScope = false;
    PP.FullyQualifiedName = true;
  }

  bool wantFile(SourceLocation L, std::string *FileOut = nullptr) {
    if (L.isInvalid())
      return false;
    SourceLocation E = SM.getExpansionLoc(L);
    llvm::StringRef F = SM.getFilename(E);
    if (F.empty())
      return false;
    std::string Matched;
    bool InRoot = false;
    for (auto &R : Cfg.Roots)
      if (F.startswith(R)) {
        InRoot = true;
        Matched = R;
        break;
      }
    if (!InRoot)
      return false;
    if (!Cfg.Only.empty()) {
      bool Ok = false;
      for (auto &S : Cfg.Only)
        if (F.contains(S)) {
          Ok = true;
          break;
        }
      if (!Ok)
        return false;
    }
    if (FileOut)
      *FileOut = F.substr(Matched.size()).str();
    return true;
  }

  unsigned line(SourceLocation L) {
    if (L.isInvalid())
      return 0;
    return SM.getExpansionLineNumber(L);
  }

  unsigned typeId(QualType T) {
    if (T.isNull())
      return 0;
    std::string S = T.getCanonicalType().getAsString(PP);
    auto It = TypeIds.find(S);
    if (It != TypeIds.end())
      return It->second;
    unsigned Id = Types.size() + 1;
    Types.push_back(S);
    TypeIds[S] = Id;
    return Id;
  }

  unsigned declId(const Decl *D) {
    if (!D)
      return 0;
    D = D->getCanonicalDecl();
    auto It = DeclIds.find(D);
    if (It != DeclIds.end())
      return It->second;
    unsigned Id = DeclIds.size() + 1;
    DeclIds[D] = Id;
    return Id;
  }

  // class name with its template arguments (qname() prints arguments of enclosing contexts only)
  std::string recordName(const CXXRecordDecl *RD) {
    if (isa<ClassTemplateSpecializationDecl>(RD) && !RD->isDependentContext())
      return Ctx.getTypeDeclType(RD).getCanonicalType().getAsString(PP);
    return qname(RD);
  }

  std::string qname(const NamedDecl *ND) {
    std::string S;
    llvm::raw_string_ostream SS(S);
    ND->printQualifiedName(SS, PP);
    return SS.str();
  }

  void emitTemplateArgs(const TemplateArgumentList *L) {
    OS << '[';
    bool First = true;
    if (L)
      for (const TemplateArgument &A : L->asArray()) {
        if (!First)
          OS << ',';
        First = false;
        std::string S;
        llvm::raw_string_ostream SS(S);
        if (A.getKind() == TemplateArgument::Type)
          SS << A.getAsType().getCanonicalType().getAsString(PP);
        else
          A.print(PP, SS, true);
        jsonEscape(OS, SS.str());
      }
    OS << ']';
  }

  std::string macroName(SourceLocation L) {
    if (!L.isMacroID())
      return "";
    // outermost macro of the expansion stack
    SourceLocation Cur = L;
    std::string Name;
    while (Cur.isMacroID()) {
      if (SM.isMacroArgExpansion(Cur)) {
        Cur = SM.getImmediateExpansionRange(Cur).getBegin();
        continue;
      }
      Name = Lexer::getImmediateMacroName(Cur, SM, Ctx.getLangOpts()).str();
      Cur = SM.getImmediateExpansionRange(Cur).getBegin();
    }
    return Name;
  }

  // ---- statements ----------------------------------------------------------

  void key(const char *K) { OS << ",\"" << K << "\":"; }

  void emitChildren(const Stmt *S) {
    OS << ",\"c\":[";
    bool First = true;
    for (const Stmt *C : S->children()) {
      if (!First)
        OS << ',';
      First = false;
      emitStmt(C);
    }
    OS << ']';
  }

  void emitList(const char *K, llvm::ArrayRef<const Stmt *> L) {
    key(K);
    OS << '[';
    bool First = true;
    for (const Stmt *C : L) {
      if (!First)
        OS << ',';
      First = false;
      emitStmt(C);
    }
    OS << ']';
  }

  void emitSlot(const char *K, const Stmt *S) {
    key(K);
    emitStmt(S);
  }

  void emitDeclRef(const ValueDecl *D) {
    key("n");
    jsonEscape(OS, D->getDeclName().getAsString());
    key("q");
    jsonEscape(OS, qname(D));
    key("dk");
    jsonEscape(OS, D->getDeclKindName());
    key("id");
    OS << declId(D);
    if (auto *EC = dyn_cast<EnumConstantDecl>(D)) {
      key("v");
      OS << EC->getInitVal();
    }
    if (auto *FD = dyn_cast<FunctionDecl>(D)) {
      if (auto *TA = FD->getTemplateSpecializationArgs()) {
        key("ta");
        emitTemplateArgs(TA);
      }
    }
  }

  void emitVarDecl(const VarDecl *VD) {
    OS << "{\"k\":\"VarDecl\"";
    key("l");
    OS << line(VD->getLocation());
    key("n");
    jsonEscape(OS, VD->getNameAsString());
    key("id");
    OS << declId(VD);
    key("t");
    OS << typeId(VD->getType());
    if (VD->isStaticLocal()) {
      key("static");
      OS << 1;
    }
    if (VD->getType().isConstQualified()) {
      key("const");
      OS << 1;
    }
    if (VD->hasInit()) {
      key("init");
      emitStmt(VD->getInit());
    }
    OS << '}';
  }

  void emitCallee(const FunctionDecl *FD) {
    if (!FD)
      return;
    key("cq");
    jsonEscape(OS, qname(FD));
    key("cid");
    OS << declId(FD);
    if (auto *TA = FD->getTemplateSpecializationArgs()) {
      key("ta");
      emitTemplateArgs(TA);
    }
    if (auto *MD = dyn_cast<CXXMethodDecl>(FD)) {
      if (MD->isConst()) {
        key("cconst");
        OS << 1;
      }
      if (MD->isVirtual()) {
        key("cvirt");
        OS << 1;
      }
    }
    if (auto *FPT = FD->getType()->getAs<FunctionProtoType>()) {
      if (FPT->isNothrow()) {
        key("cnothrow");
        OS << 1;
      }
    }
    if (unsigned B = FD->getBuiltinID()) {
      key("builtin");
      OS << B;
    }
  }

  void tryFold(const Expr *E) {
    if (FoldDepth > 0)
      return;
    if (E->isValueDependent() || E->isTypeDependent())
      return;
    QualType T = E->getType();
    if (T.isNull() || !(T->isIntegralOrEnumerationType()))
      return;
    if (isa<IntegerLiteral>(E) || isa<CharacterLiteral>(E) ||
        isa<CXXBoolLiteralExpr>(E))
      return;
    Expr::EvalResult R;
    if (E->EvaluateAsInt(R, Ctx, Expr::SE_NoSideEffects, false) &&
        !R.HasSideEffects && R.Val.isInt()) {
      key("ev");
      OS << R.Val.getInt();
      Folded = true;
    }
  }

  void emitStmt(const Stmt *S) {
    if (!S) {
      OS << "null";
      return;
    }
    // transparent wrappers
    if (auto *CE = dyn_cast<ConstantExpr>(S)) {
      emitStmt(CE->getSubExpr());
      return;
    }
    if (auto *EWC = dyn_cast<ExprWithCleanups>(S)) {
      emitStmt(EWC->getSubExpr());
      return;
    }
    if (auto *BT = dyn_cast<CXXBindTemporaryExpr>(S)) {
      emitStmt(BT->getSubExpr());
      return;
    }
    if (auto *MT = dyn_cast<MaterializeTemporaryExpr>(S)) {
      emitStmt(MT->getSubExpr());
      return;
    }
    if (auto *SNT = dyn_cast<SubstNonTypeTemplateParmExpr>(S)) {
      emitStmt(SNT->getReplacement());
      return;
    }

    OS << "{\"k\":\"" << S->getStmtClassName() << '"';
    unsigned L = line(S->getBeginLoc());
    key("l");
    OS << L;
    {
      SourceLocation B = S->getBeginLoc();
      if (B.isMacroID()) {
        std::string M = macroName(B);
        if (!M.empty() && M != CurMacro) {
          key("m");
          jsonEscape(OS, M);
        }
      }
    }
    std::string SavedMacro = CurMacro;
    if (S->getBeginLoc().isMacroID()) {
      std::string M = macroName(S->getBeginLoc());
      if (!M.empty())
        CurMacro = M;
    } else {
      CurMacro.clear();
    }

    bool SavedFolded = Folded;
    Folded = false;
    if (auto *E = dyn_cast<Expr>(S)) {
      key("t");
      OS << typeId(E->getType());
      if (E->isLValue()) {
        key("lv");
        OS << 1;
      }
      tryFold(E);
    }
    bool ThisFolded = Folded;
    if (ThisFolded)
      ++FoldDepth;

    switch (S->getStmtClass()) {
    case Stmt::IfStmtClass: {
      auto *I = cast<IfStmt>(S);
      if (I->isConstexpr()) {
        key("constexpr");
        OS << 1;
      }
      if (I->getInit())
        emitSlot("init", I->getInit());
      if (I->getConditionVariable()) {
        key("var");
        emitVarDecl(I->getConditionVariable());
      }
      emitSlot("cond", I->getCond());
      emitSlot("then", I->getThen());
      emitSlot("else", I->getElse());
      break;
    }
    case Stmt::SwitchStmtClass: {
      auto *W = cast<SwitchStmt>(S);
      if (W->getInit())
        emitSlot("init", W->getInit());
      emitSlot("cond", W->getCond());
      emitSlot("body", W->getBody());
      break;
    }
    case Stmt::CaseStmtClass: {
      auto *C = cast<CaseStmt>(S);
      Expr::EvalResult R;
      if (C->getLHS() && !C->getLHS()->isValueDependent() &&
          C->getLHS()->EvaluateAsInt(R, Ctx)) {
        key("lo");
        OS << R.Val.getInt();
      }
      if (C->getRHS() && !C->getRHS()->isValueDependent() &&
          C->getRHS()->EvaluateAsInt(R, Ctx)) {
        key("hi");
        OS << R.Val.getInt();
      }
      emitSlot("lhs", C->getLHS());
      emitSlot("sub", C->getSubStmt());
      break;
    }
    case Stmt::DefaultStmtClass:
      emitSlot("sub", cast<DefaultStmt>(S)->getSubStmt());
      break;
    case Stmt::WhileStmtClass: {
      auto *W = cast<WhileStmt>(S);
      emitSlot("cond", W->getCond());
      emitSlot("body", W->getBody());
      break;
    }
    case Stmt::DoStmtClass: {
      auto *D = cast<DoStmt>(S);
      emitSlot("body", D->getBody());
      emitSlot("cond", D->getCond());
      break;
    }
    case Stmt::ForStmtClass: {
      auto *F = cast<ForStmt>(S);
      emitSlot("init", F->getInit());
      emitSlot("cond", F->getCond());
      emitSlot("inc", F->getInc());
      emitSlot("body", F->getBody());
      break;
    }
    case Stmt::CXXForRangeStmtClass: {
      auto *F = cast<CXXForRangeStmt>(S);
      key("var");
      emitVarDecl(F->getLoopVariable());
      emitSlot("range", F->getRangeInit());
      emitSlot("body", F->getBody());
      break;
    }
    case Stmt::ReturnStmtClass:
      emitSlot("val", cast<ReturnStmt>(S)->getRetValue());
      break;
    case Stmt::GotoStmtClass: {
      auto *G = cast<GotoStmt>(S);
      key("label");
      jsonEscape(OS, G->getLabel()->getName());
      break;
    }
    case Stmt::LabelStmtClass: {
      auto *Lb = cast<LabelStmt>(S);
      key("label");
      jsonEscape(OS, Lb->getDecl()->getName());
      emitSlot("sub", Lb->getSubStmt());
      break;
    }
    case Stmt::DeclStmtClass: {
      auto *DS = cast<DeclStmt>(S);
      key("decls");
      OS << '[';
      bool First = true;
      for (const Decl *D : DS->decls()) {
        if (auto *VD = dyn_cast<VarDecl>(D)) {
          if (!First)
            OS << ',';
          First = false;
          emitVarDecl(VD);
        }
      }
      OS << ']';
      break;
    }
    case Stmt::CXXTryStmtClass: {
      auto *T = cast<CXXTryStmt>(S);
      emitSlot("body", T->getTryBlock());
      key("handlers");
      OS << '[';
      for (unsigned I = 0; I < T->getNumHandlers(); ++I) {
        if (I)
          OS << ',';
        emitStmt(T->getHandler(I));
      }
      OS << ']';
      break;
    }
    case Stmt::CXXCatchStmtClass: {
      auto *C = cast<CXXCatchStmt>(S);
      key("ct");
      if (C->getExceptionDecl())
        OS << typeId(C->getCaughtType());
      else
        OS << 0;
      emitSlot("body", C->getHandlerBlock());
      break;
    }
    case Stmt::DeclRefExprClass: {
      auto *D = cast<DeclRefExpr>(S);
      emitDeclRef(D->getDecl());
      break;
    }
    case Stmt::MemberExprClass: {
      auto *M = cast<MemberExpr>(S);
      emitDeclRef(M->getMemberDecl());
      if (M->isArrow()) {
        key("arrow");
        OS << 1;
      }
      emitSlot("base", M->getBase());
      break;
    }
    case Stmt::CXXDependentScopeMemberExprClass: {
      auto *M = cast<CXXDependentScopeMemberExpr>(S);
      key("n");
      jsonEscape(OS, M->getMember().getAsString());
      if (!M->isImplicitAccess())
        emitSlot("base", M->getBase());
      break;
    }
    case Stmt::UnresolvedMemberExprClass: {
      auto *M = cast<UnresolvedMemberExpr>(S);
      key("n");
      jsonEscape(OS, M->getMemberName().getAsString());
      if (!M->isImplicitAccess())
        emitSlot("base", M->getBase());
      break;
    }
    case Stmt::UnresolvedLookupExprClass: {
      auto *U = cast<UnresolvedLookupExpr>(S);
      key("n");
      jsonEscape(OS, U->getName().getAsString());
      break;
    }
    case Stmt::DependentScopeDeclRefExprClass: {
      auto *U = cast<DependentScopeDeclRefExpr>(S);
      key("n");
      jsonEscape(OS, U->getDeclName().getAsString());
      break;
    }
    case Stmt::IntegerLiteralClass:
      key("v");
      OS << llvm::toString(cast<IntegerLiteral>(S)->getValue(), 10, false);
      break;
    case Stmt::CharacterLiteralClass:
      key("v");
      OS << cast<CharacterLiteral>(S)->getValue();
      break;
    case Stmt::CXXBoolLiteralExprClass:
      key("v");
      OS << (cast<CXXBoolLiteralExpr>(S)->getValue() ? 1 : 0);
      break;
    case Stmt::FloatingLiteralClass: {
      llvm::SmallString<32> Buf;
      cast<FloatingLiteral>(S)->getValue().toString(Buf);
      key("fv");
      jsonEscape(OS, Buf);
      break;
    }
    case Stmt::StringLiteralClass: {
      auto *SL = cast<StringLiteral>(S);
      key("s");
      if (SL->getCharByteWidth() == 1)
        jsonEscape(OS, SL->getString());
      else {
        std::string Tmp;
        for (unsigned I = 0; I < SL->getLength(); ++I) {
          unsigned CU = SL->getCodeUnit(I);
          Tmp.push_back(CU < 0x80 ? (char)CU : '?');
        }
        jsonEscape(OS, Tmp);
      }
      break;
    }
    case Stmt::BinaryOperatorClass:
    case Stmt::CompoundAssignOperatorClass: {
      auto *B = cast<BinaryOperator>(S);
      key("op");
      jsonEscape(OS, B->getOpcodeStr());
      emitSlot("lhs", B->getLHS());
      emitSlot("rhs", B->getRHS());
      break;
    }
    case Stmt::UnaryOperatorClass: {
      auto *U = cast<UnaryOperator>(S);
      key("op");
      jsonEscape(OS, UnaryOperator::getOpcodeStr(U->getOpcode()));
      if (U->isPostfix()) {
        key("postfix");
        OS << 1;
      }
      emitSlot("sub", U->getSubExpr());
      break;
    }
    case Stmt::ConditionalOperatorClass: {
      auto *C = cast<ConditionalOperator>(S);
      emitSlot("cond", C->getCond());
      emitSlot("then", C->getTrueExpr());
      emitSlot("else", C->getFalseExpr());
      break;
    }
    case Stmt::UnaryExprOrTypeTraitExprClass: {
      auto *U = cast<UnaryExprOrTypeTraitExpr>(S);
      key("trait");
      OS << (int)U->getKind();
      key("at");
      OS << typeId(U->getTypeOfArgument());
      break;
    }
    case Stmt::ImplicitCastExprClass:
    case Stmt::CStyleCastExprClass:
    case Stmt::CXXStaticCastExprClass:
    case Stmt::CXXFunctionalCastExprClass:
    case Stmt::CXXConstCastExprClass:
    case Stmt::CXXReinterpretCastExprClass:
    case Stmt::CXXDynamicCastExprClass: {
      auto *C = cast<CastExpr>(S);
      key("ck");
      jsonEscape(OS, C->getCastKindName());
      emitSlot("sub", C->getSubExpr());
      break;
    }
    case Stmt::ParenExprClass:
      emitSlot("sub", cast<ParenExpr>(S)->getSubExpr());
      break;
    case Stmt::CallExprClass:
    case Stmt::CXXMemberCallExprClass:
    case Stmt::CXXOperatorCallExprClass:
    case Stmt::UserDefinedLiteralClass: {
      auto *C = cast<CallExpr>(S);
      emitCallee(C->getDirectCallee());
      if (auto *OC = dyn_cast<CXXOperatorCallExpr>(S)) {
        key("oop");
        jsonEscape(OS, getOperatorSpelling(OC->getOperator()));
      }
      if (auto *MC = dyn_cast<CXXMemberCallExpr>(S)) {
        emitSlot("obj", MC->getImplicitObjectArgument());
      }
      emitSlot("callee", C->getCallee());
      key("args");
      OS << '[';
      for (unsigned I = 0; I < C->getNumArgs(); ++I) {
        if (I)
          OS << ',';
        emitStmt(C->getArg(I));
      }
      OS << ']';
      break;
    }
    case Stmt::CXXConstructExprClass:
    case Stmt::CXXTemporaryObjectExprClass: {
      auto *C = cast<CXXConstructExpr>(S);
      emitCallee(C->getConstructor());
      key("args");
      OS << '[';
      for (unsigned I = 0; I < C->getNumArgs(); ++I) {
        if (I)
          OS << ',';
        emitStmt(C->getArg(I));
      }
      OS << ']';
      break;
    }
    case Stmt::CXXNewExprClass: {
      auto *N = cast<CXXNewExpr>(S);
      key("at");
      OS << typeId(N->getAllocatedType());
      if (N->isArray()) {
        key("array");
        OS << 1;
      }
      if (N->getNumPlacementArgs() > 0) {
        key("placement");
        OS << N->getNumPlacementArgs();
      }
      emitChildren(S);
      break;
    }
    case Stmt::CXXThrowExprClass:
      emitSlot("sub", cast<CXXThrowExpr>(S)->getSubExpr());
      break;
    case Stmt::LambdaExprClass: {
      auto *LE = cast<LambdaExpr>(S);
      emitSlot("body", LE->getBody());
      // parameters of the call operator and whether everything is captured by reference: lets the analyses treat a call of a
      // local lambda in statement position as the statements of its body
      if (const CXXMethodDecl *CO = LE->getCallOperator()) {
        key("params");
        OS << '[';
        for (unsigned I = 0; I < CO->getNumParams(); ++I) {
          if (I)
            OS << ',';
          const ParmVarDecl *P = CO->getParamDecl(I);
          OS << "{\"n\":";
          jsonEscape(OS, P->getNameAsString());
          OS << ",\"id\":" << declId(P) << ",\"t\":" << typeId(P->getType()) << '}';
        }
        OS << ']';
      }
      {
        bool AllRef = true;
        for (const LambdaCapture &C : LE->captures())
          if (C.capturesVariable() && C.getCaptureKind() != LCK_ByRef)
            AllRef = false;
        key("capref");
        OS << (AllRef ? 1 : 0);
      }
      break;
    }
    case Stmt::CXXDefaultArgExprClass:
      emitSlot("sub", cast<CXXDefaultArgExpr>(S)->getExpr());
      break;
    case Stmt::CXXDefaultInitExprClass:
      emitSlot("sub", cast<CXXDefaultInitExpr>(S)->getExpr());
      break;
    case Stmt::CXXThisExprClass:
      break;
    default:
      emitChildren(S);
      break;
    }
    if (ThisFolded)
      --FoldDepth;
    Folded = SavedFolded;
    CurMacro = SavedMacro;
    OS << '}';
  }

  // ---- declarations ---------------------------------------------------------

  void emitFunction(const FunctionDecl *FD) {
    if (!FD->doesThisDeclarationHaveABody())
      return;
    std::string File;
    if (!wantFile(FD->getLocation(), &File))
      return;
    // skip lambda call operators (emitted inline)
    if (auto *MD = dyn_cast<CXXMethodDecl>(FD))
      if (MD->getParent()->isLambda())
        return;
    if (!Seen.insert(FD).second)
      return;
    bool Dep = FD->isDependentContext();
    CurMacro.clear();
    OS << "{\"k\":\"Function\"";
    key("q");
    jsonEscape(OS, qname(FD));
    key("n");
    jsonEscape(OS, FD->getDeclName().getAsString());
    key("id");
    OS << declId(FD);
    key("file");
    jsonEscape(OS, File);
    key("l");
    OS << line(FD->getLocation());
    key("el");
    OS << line(FD->getEndLoc());
    if (Dep) {
      key("dep");
      OS << 1;
    }
    if (auto *TA = FD->getTemplateSpecializationArgs()) {
      key("ta");
      emitTemplateArgs(TA);
    }
    key("fk");
    jsonEscape(OS, static_cast<const Decl *>(FD)->getDeclKindName());
    if (auto *MD = dyn_cast<CXXMethodDecl>(FD)) {
      key("cls");
      jsonEscape(OS, recordName(MD->getParent()));
      if (MD->isConst()) {
        key("const");
        OS << 1;
      }
      if (MD->isStatic()) {
        key("static");
        OS << 1;
      }
      if (MD->isVirtual()) {
        key("virtual");
        OS << 1;
      }
      if (MD->size_overridden_methods() > 0) {
        key("override");
        OS << 1;
      }
    }
    if (auto *FPT = FD->getType()->getAs<FunctionProtoType>()) {
      if (!Dep && FPT->isNothrow()) {
        key("nothrow");
        OS << 1;
      }
    }
    key("ret");
    OS << typeId(FD->getReturnType());
    key("params");
    OS << '[';
    for (unsigned I = 0; I < FD->getNumParams(); ++I) {
      if (I)
        OS << ',';
      const ParmVarDecl *P = FD->getParamDecl(I);
      OS << "{\"n\":";
      jsonEscape(OS, P->getNameAsString());
      OS << ",\"id\":" << declId(P) << ",\"t\":" << typeId(P->getType())
         << '}';
    }
    OS << ']';
    if (auto *CD = dyn_cast<CXXConstructorDecl>(FD)) {
      key("inits");
      OS << '[';
      bool First = true;
      for (const CXXCtorInitializer *I : CD->inits()) {
        if (!I->isWritten())
          continue;
        if (!First)
          OS << ',';
        First = false;
        OS << "{\"m\":";
        if (I->isAnyMemberInitializer())
          jsonEscape(OS, I->getAnyMember()->getNameAsString());
        else
          OS << "null";
        OS << ",\"init\":";
        emitStmt(I->getInit());
        OS << '}';
      }
      OS << ']';
    }
    key("body");
    emitStmt(FD->getBody());
    OS << "}\n";
    ++NumFunctions;
  }

  void emitRecord(const CXXRecordDecl *RD) {
    if (!RD->isThisDeclarationADefinition() || RD->isLambda())
      return;
    std::string File;
    if (!wantFile(RD->getLocation(), &File))
      return;
    if (!Seen.insert(RD).second)
      return;
    OS << "{\"k\":\"Record\"";
    key("q");
    jsonEscape(OS, recordName(RD));
    key("file");
    jsonEscape(OS, File);
    key("l");
    OS << line(RD->getLocation());
    if (RD->isDependentContext()) {
      key("dep");
      OS << 1;
    }
    if (RD->isUnion()) {
      key("union");
      OS << 1;
    }
    key("bases");
    OS << '[';
    bool First = true;
    for (const CXXBaseSpecifier &B : RD->bases()) {
      if (!First)
        OS << ',';
      First = false;
      OS << typeId(B.getType());
    }
    OS << ']';
    key("fields");
    OS << '[';
    First = true;
    for (const FieldDecl *F : RD->fields()) {
      if (!First)
        OS << ',';
      First = false;
      OS << "{\"n\":";
      jsonEscape(OS, F->getNameAsString());
      OS << ",\"t\":" << typeId(F->getType()) << ",\"l\":"
         << line(F->getLocation());
      if (F->isMutable())
        OS << ",\"mutable\":1";
      if (F->isBitField() && !F->getBitWidth()->isValueDependent())
        OS << ",\"bits\":" << F->getBitWidthValue(Ctx);
      OS << '}';
    }
    OS << ']';
    // static data members
    key("statics");
    OS << '[';
    First = true;
    for (const Decl *D : RD->decls()) {
      if (auto *VD = dyn_cast<VarDecl>(D)) {
        if (!First)
          OS << ',';
        First = false;
        OS << "{\"n\":";
        jsonEscape(OS, VD->getNameAsString());
        OS << ",\"t\":" << typeId(VD->getType()) << ",\"l\":"
           << line(VD->getLocation());
        if (VD->getType().isConstQualified() || VD->isConstexpr())
          OS << ",\"const\":1";
        OS << '}';
      }
    }
    OS << ']';
    OS << "}\n";
  }

  void emitEnum(const EnumDecl *ED) {
    if (!ED->isThisDeclarationADefinition())
      return;
    std::string File;
    if (!wantFile(ED->getLocation(), &File))
      return;
    if (!Seen.insert(ED).second)
      return;
    OS << "{\"k\":\"Enum\"";
    key("q");
    jsonEscape(OS, qname(ED));
    key("file");
    jsonEscape(OS, File);
    key("l");
    OS << line(ED->getLocation());
    key("ut");
    OS << typeId(ED->getIntegerType());
    key("values");
    OS << '[';
    bool First = true;
    for (const EnumConstantDecl *EC : ED->enumerators()) {
      if (!First)
        OS << ',';
      First = false;
      OS << '[';
      jsonEscape(OS, EC->getNameAsString());
      OS << "," << EC->getInitVal() << "]";
    }
    OS << "]}\n";
  }

  void emitGlobalVar(const VarDecl *VD) {
    // variables of static storage duration: namespace scope, static members,
    // function-local statics
    if (!VD->hasGlobalStorage())
      return;
    if (isa<ParmVarDecl>(VD))
      return;
    std::string File;
    if (!wantFile(VD->getLocation(), &File))
      return;
    if (!VD->isThisDeclarationADefinition() && !VD->isStaticLocal())
      return;
    if (!Seen.insert(VD).second)
      return;
    CurMacro.clear();
    OS << "{\"k\":\"Var\"";
    key("q");
    jsonEscape(OS, qname(VD));
    key("n");
    jsonEscape(OS, VD->getNameAsString());
    key("id");
    OS << declId(VD);
    key("file");
    jsonEscape(OS, File);
    key("l");
    OS << line(VD->getLocation());
    key("t");
    OS << typeId(VD->getType());
    if (VD->getType().isConstQualified() || VD->isConstexpr()) {
      key("const");
      OS << 1;
    }
    if (VD->isStaticLocal()) {
      key("local");
      OS << 1;
      if (auto *FD = dyn_cast_or_null<FunctionDecl>(
              VD->getParentFunctionOrMethod())) {
        key("fn");
        jsonEscape(OS, qname(FD));
      }
    }
    if (VD->isStaticDataMember()) {
      key("member");
      OS << 1;
    }
    if (VD->getTLSKind() != VarDecl::TLS_None) {
      key("tls");
      OS << 1;
    }
    if (VD->getDeclContext()->isDependentContext()) {
      key("dep");
      OS << 1;
    }
    // record type facts: does the class have non-static data members?
    if (auto *RD = VD->getType()->getAsCXXRecordDecl()) {
      if (RD->hasDefinition()) {
        key("rec_empty");
        OS << (RD->isEmpty() ? 1 : 0);
      }
    }
    if (VD->hasInit() && !VD->getInit()->isValueDependent()) {
      // integer arrays (lookup tables) are folded element-wise
      if (auto *ILE = dyn_cast<InitListExpr>(VD->getInit()->IgnoreImplicit())) {
        bool AllInt = ILE->getNumInits() > 0;
        std::vector<std::string> Vals;
        for (const Expr *E : ILE->inits()) {
          Expr::EvalResult R;
          if (!E->isValueDependent() && E->getType()->isIntegralOrEnumerationType() &&
              E->EvaluateAsInt(R, Ctx))
            Vals.push_back(llvm::toString(R.Val.getInt(), 10));
          else {
            AllInt = false;
            break;
          }
        }
        if (AllInt) {
          key("ints");
          OS << '[';
          for (size_t I = 0; I < Vals.size(); ++I) {
            if (I)
              OS << ',';
            OS << Vals[I];
          }
          OS << ']';
        }
      }
      key("init");
      emitStmt(VD->getInit());
    }
    OS << "}\n";
  }

  void finish() {
    OS << "{\"k\":\"Types\",\"types\":[";
    for (size_t I = 0; I < Types.size(); ++I) {
      if (I)
        OS << ',';
      jsonEscape(OS, Types[I]);
    }
    OS << "]}\n";
  }

  unsigned NumFunctions = 0;

private:
  ASTContext &Ctx;
  SourceManager &SM;
  const Config &Cfg;
  llvm::raw_ostream &OS;
  PrintingPolicy PP;
  std::map<std::string, unsigned> TypeIds;
  std::vector<std::string> Types;
  std::map<const Decl *, unsigned> DeclIds;
  std::set<const Decl *> Seen;
  std::string CurMacro;
  bool Folded = false;
  int FoldDepth = 0;
};

class Visitor : public RecursiveASTVisitor<Visitor> {
public:
  explicit Visitor(Emitter &E) : E(E) {}
  bool shouldVisitTemplateInstantiations() const { return true; }
  bool shouldVisitImplicitCode() const { return false; }
  bool VisitFunctionDecl(FunctionDecl *FD) {
    E.emitFunction(FD);
    return true;
  }
  bool VisitCXXRecordDecl(CXXRecordDecl *RD) {
    E.emitRecord(RD);
    return true;
  }
  bool VisitEnumDecl(EnumDecl *ED) {
    E.emitEnum(ED);
    return true;
  }
  bool VisitVarDecl(VarDecl *VD) {
    E.emitGlobalVar(VD);
    return true;
  }

private:
  Emitter &E;
};

class FactsConsumer : public ASTConsumer {
public:
  explicit FactsConsumer(Config Cfg) : Cfg(std::move(Cfg)) {}
  void HandleTranslationUnit(ASTContext &Ctx) override {
    if (Ctx.getDiagnostics().hasErrorOccurred()) {
      llvm::errs() << "jcsa-facts: translation unit has errors, no facts written\n";
      return;
    }
    std::error_code EC;
    llvm::raw_fd_ostream OS(Cfg.Out, EC);
    if (EC) {
      llvm::errs() << "jcsa-facts: cannot open " << Cfg.Out << ": "
                   << EC.message() << "\n";
      return;
    }
    Emitter E(Ctx, Cfg, OS);
    Visitor V(E);
    V.TraverseDecl(Ctx.getTranslationUnitDecl());
    E.finish();
    llvm::errs() << "jcsa-facts: " << E.NumFunctions << " functions -> "
                 << Cfg.Out << "\n";
  }

private:
  Config Cfg;
};

class FactsAction : public PluginASTAction {
protected:
  std::unique_ptr<ASTConsumer> CreateASTConsumer(CompilerInstance &,
                                                 llvm::StringRef) override {
    return std::make_unique<FactsConsumer>(Cfg);
  }
  bool ParseArgs(const CompilerInstance &,
                 const std::vector<std::string> &Args) override {
    for (const std::string &A : Args) {
      llvm::StringRef S(A);
      if (S.startswith("out="))
        Cfg.Out = S.substr(4).str();
      else if (S.startswith("root="))
        Cfg.Roots.push_back(S.substr(5).str());
      else if (S.startswith("only=")) {
        llvm::SmallVector<llvm::StringRef, 8> Parts;
        S.substr(5).split(Parts, ',', -1, false);
        for (auto P : Parts)
          Cfg.Only.push_back(P.str());
      }
    }
    if (Cfg.Out.empty() || Cfg.Roots.empty()) {
      llvm::errs() << "jcsa-facts: need out= and root=\n";
      return false;
    }
    return true;
  }
  ActionType getActionType() override { return AddAfterMainAction; }

private:
  Config Cfg;
};

} // namespace

static FrontendPluginRegistry::Add<FactsAction>
    X("jcsa-facts", "emit compact per-function facts as JSON lines");
