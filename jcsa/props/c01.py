"""C01 JSON text round-trip is lossless and canonical - escape tables, \\u structure, data/size pairing."""
from .. import inline as I, frontend as F, ast as A, util as U, peval as P, cfg as C
from . import c02, c03

EXPLANATION = ('(R01.1) The encoder escape table is extracted from detail::escape_string by partial evaluation for every character '
               '0..255 and both settings of escape_solidus, and must be the inverse of the RFC 8259 un-escape table the parser is verified '
               'against in C02/R02.3: named escapes map back to the same character, every other control character takes the \\\\u path, '
               'every other character is copied verbatim; the \\\\u path writes four hex digits with shifts 12,8,4,0 and splits '
               'supplementary code points with the constants 0x10000, >>10, 0xD800, &0x3FF, 0xDC00.  (R01.6) No string view or (pointer,length) '
               'pair in the encoders is built from the data() of one object and the size() of another.  (R03.1/R03.2) The parser resumes '
               'string/number tokens where it left them (shared with C03).')
NOT_DECIDED = ('byte-for-byte canonicity for arbitrary option combinations; correctness of Grisu3/from_chars; the pretty-printer column arithmetic; '
               'only the listed structural clauses are decided')

ESC_INV = {0x22: '"', 0x5c: '\\', 8: 'b', 12: 'f', 10: 'n', 13: 'r', 9: 't'}

def esc_pure(callee, call):
    return callee['n'] in ('is_control_character', 'is_non_ascii_codepoint')

def takes_sink(call, sink_ids):
    return any((A.strip(a, casts=True) or {}).get('k') == 'DeclRefExpr' and (A.strip(a, casts=True) or {}).get('id') in sink_ids for a in call.get('args') or [])

def is_sink_obj(e, sink_ids, sink_tids):
    """push_back effect on the sink: on the sink parameter itself, or (inside a followed helper) on a parameter of the helper."""
    ast_ = e.extra.get('ast') if e.extra else None
    o = A.strip(ast_.get('obj'), casts=True) if ast_ is not None else None
    if o is None or o.get('k') != 'DeclRefExpr': return False
    return o.get('id') in sink_ids or (e.depth > 0 and o.get('dk') == 'ParmVar')

def sink_helpers(facts, fn, sink_ids):
    out = []; seen = set()
    for call in A.calls_in(fn['body'], no_lambda=True):
        if call.get('k') == 'CXXMemberCallExpr' or not takes_sink(call, sink_ids): continue
        callee = facts.callee(fn, call)
        if callee is None or callee.get('body') is None or callee['q'] in seen or callee['file'] != fn['file']: continue
        seen.add(callee['q']); out.append(callee)
    return out

def r01_1(chk, facts):
    chk.rule('R01.1', 'encoder escape table is the inverse of the RFC 8259 un-escape table (all 256 characters x escape_solidus), control '
                      'characters always leave through the \\\\u path, which is written with shifts 12,8,4,0 and the standard surrogate split', floor=512)
    fns = [f for f in facts.functions if f['n'] == 'escape_string' and f['file'].endswith('json_encoders.hpp') and not f.get('dep') and f.get('body') is not None]
    chk.require(fns, 'detail::escape_string not instantiated')
    for fn in U.one_per_inst(fns):
        ct = fn['_types'][fn['params'][0]['t'] - 1]
        wide = 'wchar_t' in ct
        chk.analysed(fn)
        # the per-character region: body of the for loop
        loop = None
        for x in A.walk_no_lambda(fn['body']):
            if x.get('k') == 'ForStmt': loop = x; break
        chk.require(loop is not None, 'escape_string: character loop not found')
        pn = {p['n']: p['id'] for p in fn['params']}
        # the sink is the (reference) parameter the loop pushes characters into; helpers that receive it are followed
        sink_ids = set(p['id'] for p in fn['params'] if fn['_types'][p['t'] - 1].endswith('&') and 'error_code' not in fn['_types'][p['t'] - 1]
                       and any(c.get('k') == 'CXXMemberCallExpr' and A.callee_name(c) == 'push_back' and (A.strip(c.get('obj'), casts=True) or {}).get('id') == p['id']
                               for c in A.walk_no_lambda(fn['body'])) or p['n'] == 'sink')
        chk.require(sink_ids, 'escape_string: sink parameter not found')
        sink_tids = set(p['t'] for p in fn['params'] if p['id'] in sink_ids)
        helpers = sink_helpers(facts, fn, sink_ids)
        bodies = [fn['body']] + [h['body'] for h in helpers]
        for solidus in (0, 1):
            for c in range(256):
                cv = c if (wide or c < 128) else c - 256
                pe = P.PEval(facts, fn, pure=esc_pure, bind={'c': cv}, max_depth=2, follow=lambda callee, call: takes_sink(call, sink_ids))
                env = {pn['escape_all_non_ascii']: 0, pn['escape_solidus']: solidus}
                try:
                    pe.exec_stmt(loop['body'], env, (), 0)
                except P.Stop:
                    chk.broken('R01.1: effect budget exhausted')
                pushes = [e for e in pe.effects if e.kind == 'call' and e.name.endswith('.push_back') and is_sink_obj(e, sink_ids, sink_tids)]
                ung = [e.args[0] for e in pushes if not e.guards]
                chs = repr(chr(c)) if 32 <= c < 127 else '0x%02x' % c
                site = U.site(fn, 'char=%s solidus=%d %s' % (chs, solidus, 'wchar_t' if wide else 'char'))
                want = None; ok = False; got = None
                if c in ESC_INV:
                    want = ['\\', ESC_INV[c]]
                    got = ung
                    ok = ung == [0x5c, ord(ESC_INV[c])]
                elif c == 0x2f and solidus:
                    want = ['\\', '/']; got = ung; ok = ung == [0x5c, 0x2f]
                elif c < 0x20:
                    # \\u path: first two pushes (under the unknown to_codepoint result) are '\\' 'u', and no verbatim copy is unconditional
                    want = '\\u00XX'
                    seq = [e.args[0] for e in pushes]
                    got = seq[:3]
                    ok = (not ung or ung[0] != cv) and any(seq[i:i + 2] == [0x5c, 0x75] for i in range(len(seq) - 1)) and \
                         not any(e.args[0] == cv and not any('is_non_ascii' in g or 'ec' in g or '>' in g for g in e.guards) for e in pushes if not e.guards)
                elif c == 0x7f:
                    # DEL may be copied or \\u-escaped: both parse back to the same character
                    want = [chs, '\\u007f']; got = ung
                    ok = ung == [cv] or (not ung and any([e.args[0] for e in pushes][i:i + 2] == [0x5c, 0x75] for i in range(max(len(pushes) - 1, 0))))
                else:
                    want = [chs]; got = ung
                    ok = ung == [cv]
                if ok:
                    chk.ok('R01.1', site, {'char': chs, 'escape_solidus': solidus, 'written': want} if c in (0x22, 0x0a, 0x01, 0x41, 0x2f) else None)
                else:
                    chk.fail('R01.1', site, fn['file'], pushes[0].line if pushes else loop.get('l'),
                             'escape_string: character %s (escape_solidus=%d) is written as %s, the parser un-escape table needs %s' % (chs, solidus, got, want),
                             {'char': chs, 'written': got, 'expected': want}, fn['q'])
        # \\u structure
        hexcalls = [x for b in bodies for x in A.walk_no_lambda(b) if x.get('k') in A.CALLS and A.callee_name(x) == 'to_hex_character']
        shifts = []
        for hc in hexcalls:
            sh = 0; mask = None
            for y in A.walk((hc.get('args') or [None])[0]):
                if y.get('k') == 'BinaryOperator' and y.get('op') == '>>': sh = A.const(y.get('rhs'))
                if y.get('k') == 'BinaryOperator' and y.get('op') == '&': mask = A.const(y.get('rhs'))
            shifts.append((sh, mask))
        site = U.site(fn, 'hex digit order %s' % ('wchar_t' if wide else 'char'))
        groups = [shifts[i:i + 4] for i in range(0, len(shifts), 4)]
        okh = len(shifts) >= 4 and len(shifts) % 4 == 0 and all(g == [(12, 15), (8, 15), (4, 15), (0, 15)] for g in groups)
        if okh: chk.ok('R01.1', site, {'groups': len(groups), 'shifts': [12, 8, 4, 0], 'mask': 15})
        else: chk.fail('R01.1', site, fn['file'], hexcalls[0].get('l') if hexcalls else fn['l'], '\\\\u digits are written with (shift, mask) %s, expected four digits 12,8,4,0 with mask 0xF' % groups, None, fn['q'])
        # surrogate split constants
        consts = {}
        def lits(e): return sorted(A.const(y) for y in A.walk(e) if y.get('k') == 'IntegerLiteral')
        for b in bodies:
            for x in A.walk_no_lambda(b):
                # the two halves are recognised by their shape (x >> 10) + K and (x & M) + K', whatever the variables are called
                if x.get('k') == 'BinaryOperator' and x.get('op') == '+':
                    ops = [y.get('op') for y in A.walk(x) if y.get('k') == 'BinaryOperator']
                    if '>>' in ops and 'first' not in consts: consts['first'] = lits(x)
                    elif '&' in ops and '>>' not in ops and 'second' not in consts: consts['second'] = lits(x)
                if x.get('k') == 'CompoundAssignOperator' and x.get('op') == '-=' and A.const(x.get('rhs')) is not None and A.const(x.get('rhs')) >= 0x10000:
                    consts['sub'] = A.const(x.get('rhs'))
                if x.get('k') == 'BinaryOperator' and x.get('op') in ('>', '<') and 'bmp' not in consts:
                    cands = [A.const(x.get('rhs')) if x['op'] == '>' else A.const(x.get('lhs'))]
                    if cands[0] is not None and cands[0] >= 0xFFFF: consts['bmp'] = cands[0]
        site = U.site(fn, 'surrogate split %s' % ('wchar_t' if wide else 'char'))
        oks = consts.get('first') == [10, 0xD800] and consts.get('second') == [0x3FF, 0xDC00] and consts.get('sub') == 0x10000 and consts.get('bmp') == 0xFFFF
        if oks: chk.ok('R01.1', site, consts)
        else: chk.fail('R01.1', site, fn['file'], fn['l'], 'surrogate split constants %s differ from (cp > 0xFFFF; cp -= 0x10000; (cp >> 10) + 0xD800; (cp & 0x3FF) + 0xDC00)' % consts, consts, fn['q'])

def r01_9(chk, facts):
    """The `noesc` tag lets the encoders copy a string without looking at it: it must mean "the text between the quotes had no escape"."""
    chk.rule('R01.9', 'noesc discipline of the parser: the string tag is set to noesc only at an opening quote (inside a `case \'"\'` of a switch over '
                      'the input character - never inside parse_string, which is re-entered in the middle of a string after every escape and '
                      'after every chunk boundary), and the backslash case of the text state of parse_string assigns a tag other than noesc '
                      'before it enters the escape states', floor=3)
    tags = dict(U.enum_by_suffix(facts, '::semantic_tag')['values'])
    noesc = tags.get('noesc')
    chk.require(noesc is not None, 'semantic_tag::noesc not found')
    def assigned_tag(x):
        """(field name, value) for `field = <semantic_tag constant>` on a member"""
        am = U.assigned_member(x)
        if not am: return None
        v = A.const(am[1])
        if v is None:
            r = A.strip(am[1], casts=True)
            # semantic_tag{} value-initialises to the first enumerator (0)
            if r is not None and r.get('k') in ('CXXScalarValueInitExpr', 'InitListExpr', 'CXXFunctionalCastExpr', 'CXXTemporaryObjectExpr', 'CXXConstructExpr') and not (r.get('args') or r.get('c')): v = 0
        return am[0], v
    n = 0
    for fn in U.one_per_inst([f for f in U.functions(facts, cls='basic_json_parser') if f.get('body') is not None]):
        # statements of a switch body belong to the case label(s) that precede them (clang hangs only the first statement under the CaseStmt)
        governing = {}
        for sw in A.walk_no_lambda(fn['body']):
            if sw.get('k') != 'SwitchStmt': continue
            cur = None
            for labels, st in P.PEval.switch_items(sw.get('body')):
                if labels: cur = labels
                if st is None or cur is None: continue
                for y in A.walk_no_lambda(st):
                    if y.get('k') == 'SwitchStmt' and y is not st: pass
                    governing.setdefault(id(y), cur)     # innermost switch wins: inner switches are visited later and overwrite below
            # (walk order is outer-first; overwrite with inner switches in a second pass)
        for sw in A.walk_no_lambda(fn['body']):
            if sw.get('k') != 'SwitchStmt': continue
            cur = None
            for labels, st in P.PEval.switch_items(sw.get('body')):
                if labels: cur = labels
                if st is None or cur is None: continue
                for y in A.walk_no_lambda(st): governing[id(y)] = cur
        for x in A.walk_no_lambda(fn['body']):
            if x.get('k') not in ('BinaryOperator', 'CXXOperatorCallExpr'): continue
            at = assigned_tag(x)
            if not at or 'tag' not in at[0] or at[1] != noesc: continue
            n += 1
            chk.analysed(fn)
            labels = governing.get(id(x)) or []
            under_quote = bool(labels) and all(lo == 0x22 and hi == 0x22 for lo, hi in labels)
            site = U.site(fn, '%s = noesc #%d' % (at[0], n))
            if under_quote: chk.ok('R01.9', site, {'function': fn['q'], 'line': x.get('l')})
            else:
                chk.fail('R01.9', site, fn['file'], x.get('l'), '%s is set to noesc in %s outside a `case \'"\'` (line %s): the function is re-entered inside a string, so a string '
                         'that did contain an escape is handed on as noesc and the encoder writes its control characters and quotes raw' % (at[0], fn['n'], x.get('l')), None, fn['q'])
        if fn['n'] == 'parse_string':
            regs = None
            try:
                from . import c02
                regs = c02.label_regions(fn)
            except Exception:
                regs = None
            chk.require(regs and 'text' in regs, 'parse_string: text region not found')
            ok = False; line = fn['l']
            for st in regs['text']:
                for y in A.walk_no_lambda(st):
                    if y.get('k') == 'CaseStmt' and y.get('lo') == 0x5c:
                        line = y.get('l')
                        # on every way through the case: an assignment nested in an `if` or a loop of the case does not count (the
                        # character after the backslash may be in the next chunk, nothing about it can be a condition here)
                        conditional = set()
                        for z in A.walk_no_lambda(y.get('sub')):
                            if z.get('k') in ('IfStmt', 'ForStmt', 'WhileStmt', 'DoStmt', 'SwitchStmt', 'ConditionalOperator'):
                                for w in A.walk_no_lambda(z):
                                    if w is not z: conditional.add(id(w))
                        for z in A.walk_no_lambda(y.get('sub')):
                            at = assigned_tag(z) if z.get('k') in ('BinaryOperator', 'CXXOperatorCallExpr') else None
                            if at and 'tag' in at[0] and at[1] is not None and at[1] != noesc and id(z) not in conditional: ok = True
            chk.analysed(fn)
            site = U.site(fn, 'backslash clears noesc')
            if ok: chk.ok('R01.9', site, {'function': fn['q']})
            else: chk.fail('R01.9', site, fn['file'], line, 'the backslash case of the text state of parse_string does not replace the noesc tag: escaped strings keep it', None, fn['q'])
    chk.require(n >= 1, 'R01.9: no assignment of noesc found in basic_json_parser')

def r01_10(chk, facts):
    """escape_string returns what it wrote: the pretty printer adds the return value to its column."""
    chk.rule('R01.10', 'escape_string accounting: on every path through the character loop the returned counter advances by exactly the number '
                       'of code units pushed to the sink (helpers that receive the sink are inlined); the noesc fast path of the encoder adds the '
                       'length of what it appends, so both routes give the same column for the same text', floor=2)
    fns = [f for f in facts.functions if f['n'] == 'escape_string' and f['file'].endswith('json_encoders.hpp') and not f.get('dep') and f.get('body') is not None]
    chk.require(fns, 'detail::escape_string not instantiated')
    for fn in U.one_per_inst(fns):
        chk.analysed(fn)
        sink_ids = set(p['id'] for p in fn['params'] if fn['_types'][p['t'] - 1].endswith('&') and 'error_code' not in fn['_types'][p['t'] - 1])
        fx = I.expand(facts, fn, allow=lambda callee, call: takes_sink(call, sink_ids))
        ret = None
        for x in A.walk_no_lambda(fx['body']):
            if x.get('k') == 'ReturnStmt' and x.get('val') is not None:
                r = A.strip(x['val'], casts=True)
                if r is not None and r.get('k') == 'DeclRefExpr': ret = r.get('id')
        chk.require(ret is not None, 'escape_string: returned counter not found')
        loop = next((x for x in A.walk_no_lambda(fx['body']) if x.get('k') == 'ForStmt'), None)
        chk.require(loop is not None, 'escape_string: character loop not found')
        g = C.CFG(loop['body'])
        def delta(nd):
            if nd.kind not in ('stmt', 'cond', 'return', 'switch') or not isinstance(nd.ast, dict): return 0
            d = 0
            for y in A.walk_no_lambda(nd.ast):
                if y.get('k') == 'CXXMemberCallExpr' and A.callee_name(y) == 'push_back':
                    o = A.strip(y.get('obj'), casts=True)
                    if o is not None and o.get('k') == 'DeclRefExpr' and o.get('id') in sink_ids: d += 1
                t = None
                if y.get('k') == 'UnaryOperator' and y.get('op') == '++': t = A.strip(y.get('sub'), casts=True); k = 1
                if y.get('k') == 'CompoundAssignOperator' and y.get('op') == '+=': t = A.strip(y.get('lhs'), casts=True); k = A.const(y.get('rhs'))
                if t is not None and t.get('k') == 'DeclRefExpr' and t.get('id') == ret:
                    if k is None: return None
                    d -= k
            return d
        state = {g.entry.id: {0}}
        work = [g.entry]; broken = None; where = {}
        while work:
            nd = work.pop()
            cur = state.get(nd.id, set())
            dl = delta(nd)
            if dl is None: broken = nd; break
            out = set(v + dl for v in cur)
            for s2 in nd.succ:
                old = state.get(s2.id, set())
                new_ = old | out
                if len(new_) > 32: broken = nd; break
                if new_ != old:
                    state[s2.id] = new_
                    for v in out - old: where.setdefault((s2.id, v), nd)
                    work.append(s2)
            if broken: break
        chk.require(broken is None, 'escape_string: counter update at line %s is not a constant step' % (broken.line if broken else 0))
        ends = set()
        for ex in (g.exit_return,):
            ends |= state.get(ex.id, set())
        ct = fn['_types'][fn['params'][0]['t'] - 1]
        site = U.site(fn, 'count == pushes (%s)' % ('wchar_t' if 'wchar_t' in ct else 'char'))
        if ends == {0}: chk.ok('R01.10', site, {'function': fn['q'], 'paths_balance': 0})
        else:
            off = sorted(v for v in ends if v != 0)
            # the statement where an unbalanced value first appeared
            line = loop.get('l')
            for (nid, v), src in where.items():
                if v in off and src.line: line = src.line
            chk.fail('R01.10', site, fn['file'], line, 'escape_string: a path through the character loop pushes %s code unit(s) more than it adds to the returned count '
                     '(the pretty printer advances its column by the return value, the noesc route by the full length: the same text breaks lines differently)' % off, {'imbalance': off}, fn['q'])

def r01_6(chk, facts):
    chk.rule('R01.6', 'data/size pairing: a (pointer, length) pair passed to a string_view / append / write is taken from one object '
                      '(x.data() with x.size()/x.length()), never from two different objects', floor=10)
    n = 0
    seen = set()
    inst_lines = set((f['file'], f['l']) for f in facts.functions if not f.get('dep'))
    for fn in facts.functions:
        if fn.get('body') is None or not (fn['file'].endswith(('json_encoder.hpp', 'json_encoders.hpp', 'json_options.hpp', 'sink.hpp'))): continue
        k = (fn['file'], fn['l'], bool(fn.get('dep')))
        if k in seen: continue
        seen.add(k)
        if fn.get('dep') and (fn['file'], fn['l']) in inst_lines: continue     # the instantiations carry resolved types
        nodes = [fn['body']] + [ini.get('init') for ini in (fn.get('inits') or []) if ini.get('init') is not None]
        for root in nodes:
            for x in A.walk(root):
                kk = x.get('k')
                args = None
                if kk in A.CALLS or kk in ('CXXConstructExpr', 'CXXTemporaryObjectExpr', 'CXXUnresolvedConstructExpr', 'ParenListExpr', 'InitListExpr'):
                    args = x.get('args') or x.get('c')
                if not args or len(args) < 2: continue
                for a, b in zip(args, args[1:]):
                    sa = A.strip(a, casts=True); sb = A.strip(b, casts=True)
                    if sa is None or sb is None: continue
                    if sa.get('k') in ('CXXMemberCallExpr', 'CallExpr') and A.callee_name(sa) == 'data' and \
                       sb.get('k') in ('CXXMemberCallExpr', 'CallExpr') and A.callee_name(sb) in ('size', 'length'):
                        oa = A.text(sa.get('obj') or (A.strip(sa.get('callee')) or {}).get('base'))
                        ob = A.text(sb.get('obj') or (A.strip(sb.get('callee')) or {}).get('base'))
                        n += 1
                        chk.analysed(fn)
                        site = U.site(fn, 'pair %s/%s' % (oa[:30], ob[:30]))
                        def arr_n(call):
                            o = call.get('obj') or (A.strip(call.get('callee')) or {}).get('base')
                            o = A.strip(o, casts=True)
                            t = fn['_types'][o['t'] - 1] if o is not None and o.get('t') else ''
                            import re as _re
                            m = _re.search(r'std::array<[^,]+, (\d+)>', t)
                            return int(m.group(1)) if m else None
                        if oa == ob: chk.ok('R01.6', site, {'function': fn['q'], 'line': x.get('l'), 'object': oa} if n < 4 else None)
                        elif arr_n(sa) is not None and arr_n(sa) == arr_n(sb):
                            # two different fixed-size arrays of the same extent: the length is the same constant (behaviour-neutral)
                            chk.ok('R01.6', site, {'function': fn['q'], 'line': x.get('l'), 'objects': [oa, ob], 'verdict': 'different objects of identical constant extent %d' % arr_n(sa)})
                            chk.note('R01.6 observation: %s:%s pairs %s.data() with %s.size(); both are std::array of extent %d, so the text written is unaffected' % (fn['file'], x.get('l'), oa, ob, arr_n(sa)))
                        else:
                            chk.fail('R01.6', site, fn['file'], x.get('l'), 'pointer from `%s.data()` is paired with the length of `%s`' % (oa, ob),
                                     {'function': fn['q']}, fn['q'])
    chk.require(n >= 10, 'R01.6: only %d data()/size() pairs found' % n)

# member functions that only the pretty printer has: layout, no value text
LAYOUT_ONLY = {'begin_scalar_value', 'end_value', 'break_line', 'new_line', 'write_indent', 'write_indent1', 'indent', 'unindent'}
PUNCT = (0x2c, 0x3a, 0x20, 0x0a, 0x0d, 0x5b, 0x5d, 0x7b, 0x7d)

R01_3_NAMES = ('visit_null', 'visit_bool', 'visit_int64', 'visit_uint64', 'visit_double', 'visit_string', 'visit_byte_string', 'visit_key',
               'write_bignum_value', 'write_string')

def value_tokens(facts, cls, name, chartype):
    """The value text a visit_* / helper of one encoder class writes: (switch context, callee, arguments) of every call that writes through
    the sink or calls a member helper, layout calls and punctuation excluded."""
    fns = [f for f in U.functions(facts, cls=cls, name=name) if f.get('body') is not None and f['file'].endswith('json_encoder.hpp') and
           ('<%s,' % chartype in (f.get('cls') or '') or '<%s>' % chartype in (f.get('cls') or ''))]
    if not fns: return None, None
    fn = fns[0]
    # statements moved into a private helper of one encoder (not one of the compared functions, not layout) are read where they are called
    from .. import inline as I
    fn = I.expand(facts, fn, allow=lambda callee, call: callee['n'] not in R01_3_NAMES and callee['n'] not in LAYOUT_ONLY, depth=2)
    g = C.CFG(fn['body'])
    out = {}
    inlined = set(id(y['call']) for y in A.walk_no_lambda(fn['body']) if y.get('k') == 'InlinedCall' and isinstance(y.get('call'), dict))
    for nd in g.rpo:
        if nd.kind not in ('stmt', 'cond', 'return') or not isinstance(nd.ast, dict): continue
        for c in A.calls_in(nd.ast):
            if id(c) in inlined: continue
            nm = A.callee_name(c)
            uses_sink = any(A.ref_name(a) == 'sink_' for a in c.get('args') or []) or A.ref_name(c.get('obj')) == 'sink_'
            o = A.strip(c.get('obj'), casts=True) if c.get('obj') is not None else None
            member = c.get('k') == 'CXXMemberCallExpr' and o is not None and o.get('k') == 'CXXThisExpr'
            if not uses_sink and not member: continue
            if member and nm in LAYOUT_ONLY: continue
            if any('_str_' in A.text(a) for a in c.get('args') or []): continue       # comma/colon strings of the pretty printer
            if nm in ('push_back', 'flush'):
                v = [A.const(a) for a in c.get('args') or []]
                if not v or v[0] in PUNCT: continue
            ctx = []
            for a, lab, e in g.guards(nd):
                if e.src is not None and e.src.kind == 'switch' and isinstance(lab, tuple):
                    ctx.append('%s=%s' % (A.text(e.src.ast)[:40], lab[1] if lab[0] == 'case' else 'default'))
                elif lab in (True, False):
                    t = A.text(a)
                    # conditions on the value, its tag and the options select the text; conditions on the container stack / layout do not
                    if any(w in t for w in ('stack_', 'column_', 'line_split', 'indent', 'ec')): continue
                    ctx.append('%s%s' % ('' if lab else '!', t[:60]))
            args = []
            for a in c.get('args') or []:
                v = A.const(a)
                args.append(str(v) if v is not None else A.text(a)[:40])
            out.setdefault((tuple(sorted(ctx)), nm, tuple(args)), c.get('l'))
    return fn, out

def r01_3(chk, facts, tier):
    chk.rule('R01.3', 'sibling agreement: for every value event and value helper, the pretty and the compact JSON encoder write the same value text '
                      '(same writer calls with the same arguments under the same option/tag cases); only layout differs', floor=10)
    names = R01_3_NAMES
    for ct in (('char', 'wchar_t') if tier == 'thorough' else ('char',)):
        for name in names:
            fa, a = value_tokens(facts, 'basic_json_encoder', name, ct)
            fb, b = value_tokens(facts, 'basic_compact_json_encoder', name, ct)
            chk.require(a is not None and b is not None, 'R01.3: %s<%s> missing in one of the two encoders' % (name, ct))
            chk.analysed(fa); chk.analysed(fb)
            site = 'include/jsoncons/json_encoder.hpp %s %s' % (name, ct)
            da = sorted(set(a) - set(b)); db = sorted(set(b) - set(a))
            if not da and not db: chk.ok('R01.3', site, {'value_writes': len(a)})
            else:
                def show(k): return '%s(%s)%s' % (k[1], ', '.join(k[2]), (' under ' + ' & '.join(k[0])) if k[0] else '')
                line = (a[da[0]] if da else b[db[0]])
                chk.fail('R01.3', site, fa['file'], line, '%s: the two JSON encoders write different value text: only basic_json_encoder: [%s]; only basic_compact_json_encoder: [%s]' % (
                    name, '; '.join(show(k) for k in da[:3]), '; '.join(show(k) for k in db[:3])), {'only_pretty': [show(k) for k in da], 'only_compact': [show(k) for k in db]}, fa['q'])

def r01_8(chk, facts, tier):
    """Column accounting of the pretty printer: the column advances by what was appended."""
    from .. import linear as L
    chk.rule('R01.8', 'column accounting: every `column_ += E` of the pretty printer adds, besides constants, only the length of a text that was '
                      'appended to the sink under the same conditions (x.size()/x.length() of an appended x) or the length a writer call returned; '
                      'two paths that write the same text advance the column equally, so line breaks do not depend on how the value was built', floor=25)
    fns = [f for f in facts.functions if f['file'].endswith('json_encoder.hpp') and f.get('body') is not None and not f.get('dep') and
           A.strip_targs(f.get('cls') or '').endswith('basic_json_encoder') and '<char,' in (f.get('cls') or '')]
    chk.require(fns, 'basic_json_encoder<char> not instantiated')
    n = 0; seen = set()
    for fn in fns:
        if (fn['file'], fn['l']) in seen: continue
        seen.add((fn['file'], fn['l']))
        ups = []
        g = None
        for x in A.walk_no_lambda(fn['body']):
            if x.get('k') == 'CompoundAssignOperator' and x.get('op') == '+=' and U.is_member_ref(x.get('lhs'), 'column_'): ups.append(x)
        if not ups: continue
        chk.analysed(fn)
        g = C.CFG(fn['body'])
        # appended texts per node, writer-return locals
        appended = []   # (node, text of the appended object)
        for nd in g.rpo:
            if nd.kind not in ('stmt', 'cond') or not isinstance(nd.ast, dict): continue
            for c in A.calls_in(nd.ast):
                if A.callee_name(c) == 'append' and A.ref_name(c.get('obj')) == 'sink_':
                    for a in c.get('args') or []:
                        for y in A.calls_in(a):
                            if A.callee_name(y) in ('data', 'size', 'length') and y.get('obj') is not None:
                                appended.append((nd, A.text(A.strip(y['obj'], casts=True))))
        writer_locals = set()
        for x in A.walk_no_lambda(fn['body']):
            if x.get('k') == 'VarDecl' and x.get('init') is not None:
                if any(any(A.ref_name(a) == 'sink_' for a in c.get('args') or []) for c in A.calls_in(x['init'])): writer_locals.add(x.get('n'))
                elif any(A.ref_name(c.get('obj')) in ('fp_',) or A.callee_name(c) == 'operator()' for c in A.calls_in(x['init'])) and 'sink_' in A.text(x['init']): writer_locals.add(x.get('n'))
        for i, x in enumerate(ups):
            n += 1
            nd = g.node_of(x)
            site = U.site(fn, 'column_ update #%d' % (i + 1))
            bad = None
            for y in A.walk(x.get('rhs')):
                k = y.get('k')
                if k in A.CALLS:
                    nm = A.callee_name(y)
                    if nm in ('size', 'length') and y.get('obj') is not None:
                        t = A.text(A.strip(y['obj'], casts=True))
                        if not any(t == t2 and (an is nd or (nd is not None and g.dominates(an, nd))) for an, t2 in appended):
                            bad = 'adds %s.%s() but no `sink_.append(%s.data(), …)` precedes it on this path' % (t, nm, t)
                    elif nm in ('null_literal', 'true_literal', 'false_literal', 'nan_to_num', 'inf_to_num', 'neginf_to_num', 'operator+', 'operator()'): pass
                    elif y.get('k') == 'CXXOperatorCallExpr': pass
                    else: bad = 'adds the result of %s(), which is not the length of anything appended' % nm
                elif k == 'DeclRefExpr' and y.get('dk') in ('Var', 'ParmVar'):
                    if y.get('n') not in writer_locals and y.get('n') not in ('sv', 'length') and not any(y.get('n') in t2 for an, t2 in appended):
                        bad = 'adds `%s`, which is not a length returned by a writer' % y.get('n')
                    if y.get('n') == 'length' and 'length' not in writer_locals: bad = 'adds `length`, which is not returned by a writer call on the sink'
                if bad: break
            if bad is None: chk.ok('R01.8', site, {'line': x.get('l'), 'adds': A.text(x.get('rhs'))[:50]} if i == 0 else None)
            else: chk.fail('R01.8', site, fn['file'], x.get('l'), '%s: `column_ += %s` %s: the column no longer tracks the text written' % (fn['n'], A.text(x.get('rhs'))[:60], bad), None, fn['q'])
    chk.require(n >= 25, 'R01.8: only %d column updates found in basic_json_encoder' % n)

def r01_7(chk, facts):
    """Tag-dispatch delegation: an overload that falls back to its sibling forwards its own parameters."""
    chk.rule('R01.7', 'number writers: when an overload of dtoa_general / dtoa_fixed / dtoa_scientific falls back to the sibling overload of the same '
                      'name, each forwarded argument is the caller\'s own parameter in that position (the value, not a local derived from it)', floor=3)
    n = 0; seen = set()
    for fn in facts.functions:
        if not fn['file'].endswith('utility/write_number.hpp') or fn.get('body') is None or fn.get('dep') or (fn['file'], fn['l']) in seen: continue
        seen.add((fn['file'], fn['l']))
        k = 0
        for c in A.calls_in(fn['body'], no_lambda=True):
            if A.callee_name(c) != fn['n'] or c.get('k') != 'CallExpr': continue
            cal = facts.callee(fn, c)
            if cal is None or cal['id'] == fn['id']: continue
            chk.analysed(fn)
            k += 1; n += 1
            bad = None
            for i, (pc, pf, a) in enumerate(zip(cal.get('params') or [], fn.get('params') or [], c.get('args') or [])):
                tc, tf = F.tname(cal, pc['t']), F.tname(fn, pf['t'])
                if tc != tf or 'integral_constant' in tc or 'true_type' in tc or 'false_type' in tc: continue
                s2 = A.strip(a, casts=True)
                if not (s2 is not None and s2.get('k') == 'DeclRefExpr' and s2.get('id') == pf['id']):
                    bad = (i, pf['n'], A.text(a)); break
            site = U.site(fn, 'delegation#%d' % k)
            if bad is None: chk.ok('R01.7', site, {'line': c.get('l')})
            else: chk.fail('R01.7', site, fn['file'], c.get('l'), '%s falls back to its sibling overload with `%s` in the position of its parameter `%s`: the fallback formats a different value' % (
                fn['n'], bad[2][:40], bad[1]), None, fn['q'])
    chk.require(n >= 3, 'R01.7: only %d sibling delegations found in write_number.hpp' % n)

def run(chk, tier, only_rule=None):
    chk.explanation = EXPLANATION
    chk.not_decided = NOT_DECIDED
    facts = F.load(['core'], tier)
    chk.units = facts.units
    r01_1(chk, facts)
    r01_3(chk, facts, tier)
    r01_7(chk, facts)
    r01_8(chk, facts, tier)
    r01_6(chk, facts)
    r01_9(chk, facts)
    r01_10(chk, facts)
    c03.r03_1_2(chk, facts)
    # a parsed object equals the one it was written from only if the decoder's sort and the container's lookups order the names alike
    from . import c09
    c09.r09_10(chk, facts)
