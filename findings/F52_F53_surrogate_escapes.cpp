#include <jsoncons/json.hpp>
#include <iostream>
using namespace jsoncons;
int main(){
  for (std::string in : {std::string("\"\\uD800\\u0041\""), std::string("\"a\\uDC00b\""), std::string("\"\\uD834\\uDD1E\""), std::string("\"\\uD800\""), std::string("\"\\uD800x\"")}) {
    try { json j = json::parse(in); auto s = j.as<std::string>(); std::cout << in << " -> accepted, bytes:"; for (unsigned char c : s) std::cout << std::hex << (int)c << " "; std::cout << "\n"; }
    catch (const std::exception& e) { std::cout << in << " -> " << e.what() << "\n"; }
  }
}
