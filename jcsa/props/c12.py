"""C12 JSONPath queries select exactly the addressed nodes - path/value pairing, shared compile route, slice bounds."""
from .. import frontend as F, ast as A, cfg as C, util as U, guards as G
from . import c05

EXPLANATION = ('(R12.1) in every selector, the path node handed to tail_select/evaluate_tail is generated from the same index or name that is '
               'used to fetch the child value passed with it (current[i] / current.at(i) / find(name) / member.key() with member.value()), '
               'which is the clause "each returned path addresses the value returned with it"; (R12.2) json_query and json_replace are '
               'implemented by compiling with make_expression and evaluating, so compiled and one-shot queries share one implementation; '
               '(R05.5) slice loops clamp the step (shared with C05).')
NOT_DECIDED = 'that the selected node list is the one the selector semantics define; only the listed structural clauses are decided'

def run(chk, tier, only_rule=None):
    chk.explanation = EXPLANATION
    chk.not_decided = NOT_DECIDED
    facts = F.load(['jsonpath'], tier)
    chk.units = ['jsonpath']
    chk.rule('R12.1', 'path/value pairing: generate(context, last, K, options) and the child value passed with it use the same index/name', floor=14)
    chk.rule('R12.2', 'json_query/json_replace compile with make_expression (or the evaluator compile) and evaluate the compiled expression', floor=2)
    n = 0; seen = set()
    for fn in facts.functions:
        if fn.get('dep') or fn.get('body') is None or not fn['file'].endswith('jsonpath_selector.hpp'): continue
        calls = [c for c in A.walk_no_lambda(fn['body']) if c.get('k') in A.CALLS and A.callee_name(c) in ('tail_select', 'evaluate_tail')]
        if not calls: continue
        for i, c in enumerate(calls):
            args = c.get('args') or []
            gen = None
            for a in args:
                s0 = A.strip(a, casts=True)
                for y in A.walk(s0):
                    if y.get('k') in A.CALLS and A.callee_name(y) == 'generate': gen = y; break
                if gen: break
            if gen is None: continue
            gargs = gen.get('args') or []
            if len(gargs) < 3: continue
            K = A.text(A.strip(gargs[2], casts=True))
            # the value argument follows the path argument
            vi = None
            for j, a in enumerate(args):
                if any(y is gen for y in A.walk(a)): vi = j + 1
            if vi is None or vi >= len(args): continue
            V = A.strip(args[vi], casts=True)
            site = U.site(fn, 'pair#%d K=%s' % (i + 1, K[:20]))
            if site in seen: continue
            seen.add(site)
            chk.analysed(fn)
            want = None; how = None
            if V is not None and V.get('k') == 'CXXOperatorCallExpr' and V.get('oop') == '[]':
                want = A.text(A.strip(V['args'][1], casts=True)); how = 'current[%s]' % want
            elif V is not None and V.get('k') == 'CXXMemberCallExpr' and A.callee_name(V) == 'at':
                want = A.text(A.strip((V.get('args') or [None])[0], casts=True)); how = 'at(%s)' % want
            elif V is not None and V.get('k') == 'CXXMemberCallExpr' and A.callee_name(V) == 'value':
                o = A.strip(V.get('obj'), casts=True)
                ot = A.text(o)
                base = None
                for y in A.walk(o):
                    if y.get('k') == 'DeclRefExpr' and y.get('dk') == 'Var': base = y; break
                if base is not None:
                    # iterator from find(name) or range variable
                    for d in A.walk_no_lambda(fn['body']):
                        if d.get('k') == 'VarDecl' and d.get('id') == base.get('id'):
                            ini = d.get('init')
                            fc = [z for z in A.walk(ini) if z.get('k') in A.CALLS and A.callee_name(z) == 'find'] if ini else []
                            if fc:
                                want = A.text(A.strip((fc[0].get('args') or [None])[0], casts=True)); how = 'find(%s)->value()' % want
                            else:
                                want = '%s.key()' % base.get('n'); how = '%s.value()' % base.get('n')
                    if want is None:
                        want = '%s.key()' % base.get('n'); how = '%s.value()' % base.get('n')
            if want is None:
                chk.ok('R12.1', site, {'function': fn['q'], 'line': c.get('l'), 'verdict': 'value is not a child fetched by index/name (%s)' % A.text(V)[:30]}, nontrivial=False)
                continue
            n += 1
            facts_ = {'function': fn['q'], 'line': c.get('l'), 'path_from': K, 'value_from': how}
            # normalise: conversion-operator suffixes, and locals initialised once from an expression stand for that expression
            def norm(t):
                t = t.replace(' ', '')
                for suf in ('.operatorbasic_string_view()',):
                    if t.endswith(suf): t = t[:-len(suf)]
                return t
            def resolve(t):
                for d in A.walk_no_lambda(fn['body']):
                    if d.get('k') == 'VarDecl' and d.get('n') == t and d.get('init') is not None:
                        it = A.strip(d['init'], casts=True)
                        if it is not None and it.get('k') in A.CALLS: return A.text(it)
                return t
            if norm(K) == norm(want) or norm(resolve(K)) == norm(resolve(want)):
                chk.ok('R12.1', site, facts_)
            else:
                chk.fail('R12.1', site, fn['file'], c.get('l'), 'the path node is generated from `%s` but the value passed with it is fetched with `%s`' % (K, how), facts_, fn['q'])
    chk.require(n >= 14, 'R12.1: only %d path/value pairs found' % n)
    # ---- R12.2
    m = 0
    for fn in facts.functions:
        if fn.get('dep') or fn.get('body') is None or fn['n'] not in ('json_query', 'json_replace') or not fn['file'].endswith('json_query.hpp'): continue
        names = [A.callee_name(c) for c in A.calls_in(fn['body'])]
        site = U.site(fn, 'nparams=%d' % len(fn['params']))
        m += 1
        chk.analysed(fn)
        compiles = any(x in names for x in ('make_expression', 'compile'))
        evaluates = any(x in names for x in ('evaluate', 'evaluate_with_replacement', 'select', 'update'))
        if compiles and evaluates: chk.ok('R12.2', site, {'function': fn['q'], 'calls': sorted(set(x for x in names if x in ('make_expression', 'compile', 'evaluate', 'select', 'update')))})
        else: chk.fail('R12.2', site, fn['file'], fn['l'], '%s does not go through make_expression/compile + evaluate (calls: %s)' % (fn['n'], sorted(set(names))[:8]), None, fn['q'])
    chk.require(m >= 2, 'R12.2: json_query/json_replace not found')
    c05.r05_5(chk, tier)
    c05.r05_6(chk, tier, units=['jsonpath'], floor=80)
    c05.r05_7(chk, tier, units=['jsonpath'], floor=100)
