#include <jsoncons/json.hpp>
#include <iostream>
using namespace jsoncons;
int main(){
    json c("a long string that does not fit the short string storage..........");
    json a(0); json b(const_json_ptr_arg,&c); a = b;
    if (a != c) { std::cout << "F3 wrong value\n"; return 1; }
    json h1(half_arg,0x3c00), h2(half_arg,0x3c00), d(1.0), i(1);
    if (!(h1==h2)) {std::cout<<"half==half false\n"; return 1;}
    if (!(h1==d) || !(d==h1)) {std::cout<<"half/double asym "<<(h1==d)<<(d==h1)<<"\n"; return 1;}
    if ((h1==i) != (i==h1)) {std::cout<<"half/int asym\n"; return 1;}
    json h3(half_arg,0x4000);
    if (!(h1<h3) || (h3<h1)) {std::cout<<"half order\n"; return 1;}
    std::cout<<"PASS\n"; return 0;
}
