#include <jsoncons/json.hpp>
#include <jsoncons_ext/cbor/cbor.hpp>
#include <iostream>
using namespace jsoncons;
int main(){
  int bad=0;
  {
    std::vector<uint8_t> buf;
    auto opts = cbor::cbor_options{}.pack_strings(true).use_typed_arrays(true);
    cbor::cbor_bytes_encoder enc(buf, opts);
    enc.begin_array(4);
    std::vector<double> d{1.5,2.5,3.5};
    enc.typed_array(jsoncons::span<const double>(d.data(), d.size()));
    enc.string_value("hello"); enc.string_value("world"); enc.string_value("hello");
    enc.end_array(); enc.flush();
    json r = cbor::decode_cbor<json>(buf);
    std::cout << r << "\n"; if (r[3] != json("hello") || r[1] != json("hello")) { ++bad; std::cout << "typed array + stringref WRONG\n"; }
  }
  {
    std::vector<uint8_t> v{1,2,3,4};
    std::vector<uint8_t> buf; cbor::encode_cbor(v, buf);
    auto r = cbor::decode_cbor<std::vector<uint8_t>>(buf);
    if (r != v) { ++bad; std::cout << "top-level bytes WRONG\n"; }
    json j(byte_string_arg, v); std::vector<uint8_t> b2; cbor::encode_cbor(j, b2);
    auto r2 = cbor::decode_cbor<std::vector<uint8_t>>(b2);
    if (r2 != v) { ++bad; std::cout << "top-level byte string WRONG\n"; }
    // nested: vector<vector<uint8_t>> from array of byte strings
    json a(json_array_arg); a.push_back(j); a.push_back(j); std::vector<uint8_t> b3; cbor::encode_cbor(a, b3);
    auto r3 = cbor::decode_cbor<std::vector<std::vector<uint8_t>>>(b3);
    if (r3.size()!=2 || r3[1]!=v) { ++bad; std::cout << "nested byte strings WRONG size=" << r3.size() << "\n"; }
  }
  std::cout << "bad=" << bad << "\n"; return bad;
}
