#include <jsoncons/json.hpp>
#include <iostream>
#include <array>
#include <tuple>
using namespace jsoncons;
int main(){
    int bad=0;
    try { auto t = json::parse("[1]").as<std::tuple<int,int,int>>(); bad++; std::cout<<"tuple no error\n"; } catch (const std::exception& e) { std::cout << "tuple: " << e.what() << "\n"; }
    if (json::parse("[1]").is<std::tuple<int,int,int>>()) bad++;
    auto t2 = json::parse("[1,2,3]").as<std::tuple<int,int,int>>(); if (std::get<2>(t2)!=3) bad++;
    try { auto a = decode_json<std::array<int,3>>(std::string("[1]")); bad++; std::cout<<"array short no error\n"; } catch (const std::exception& e) { std::cout << "array short: " << e.what() << "\n"; }
    try { auto a = decode_json<std::array<int,2>>(std::string("[1,2,3,4]")); bad++; std::cout<<"array long no error\n"; } catch (const std::exception& e) { std::cout << "array long: " << e.what() << "\n"; }
    auto a3 = decode_json<std::array<int,3>>(std::string("[1,2,3]")); if (a3[2]!=3) bad++;
    auto n = decode_json<std::vector<std::array<int,2>>>(std::string("[[1,2],[3,4]]")); if (n.size()!=2 || n[1][1]!=4) bad++;
    try { auto t = decode_json<std::tuple<int,int,int>>(std::string("[1]")); bad++; } catch (const std::exception& e) { std::cout << "decode tuple: " << e.what() << "\n"; }
    std::cout << (bad?"FAIL":"PASS") << "\n"; return bad;
}
