#include <jsoncons/json.hpp>
#include <jsoncons_ext/jsonpath/jsonpath.hpp>
#include <iostream>
using namespace jsoncons;
int main(){
  json doc = json::parse(R"([{"a":1},{"a":7}])");
  for (std::string q : {"$[?(@.a % 0 == 1)]", "$[?(@.a / 0 == 1)]", "$[?(@.a % 2 == 1)]", "$[?(@.a / 7 == 1)]", "$[?(-9223372036854775807 - 1 / -1 == 1)]"}) {
    json r = jsonpath::json_query(doc, q);
    std::cout << q << " -> " << r << "\n";
  }
}
