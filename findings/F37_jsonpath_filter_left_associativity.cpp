#include <jsoncons/json.hpp>
#include <jsoncons_ext/jsonpath/jsonpath.hpp>
#include <iostream>
using namespace jsoncons;
int main(){
  json doc = json::parse(R"([{"hi":10,"lo":3}])");
  int bad=0;
  struct T { const char* q; bool expect; } tests[] = {
    {"$[?(@.hi - @.lo + 5 == 12)]", true}, {"$[?(@.hi - @.lo - 2 == 5)]", true}, {"$[?(@.hi / 5 * 2 == 4)]", true},
    {"$[?(@.hi - (@.lo + 5) == 2)]", true}, {"$[?(@.hi + @.lo * 2 == 16)]", true}, {"$[?(20 / @.hi / 2 == 1)]", true} };
  for (auto& t : tests) { json r = jsonpath::json_query(doc, t.q); bool got = r.size()==1; std::cout << t.q << " -> " << (got?"match":"no match") << (got==t.expect?"":"   WRONG") << "\n"; if (got!=t.expect) ++bad; }
  std::cout << "bad=" << bad << "\n"; return bad?1:0;
}
