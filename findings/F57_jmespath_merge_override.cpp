#include <jsoncons/json.hpp>
#include <jsoncons_ext/jmespath/jmespath.hpp>
#include <iostream>
using namespace jsoncons;
int main(){
  json doc = json::parse(R"({"a":{"x":[1],"y":1,"z":{"k":1}},"b":{"x":[2],"y":2,"z":{"k":2}}})");
  json r = jmespath::search(doc, "merge(a, b)");
  std::cout << r << "\n";
  return r == json::parse(R"({"x":[2],"y":2,"z":{"k":2}})") ? 0 : 1;
}
