#include <jsoncons/json.hpp>
#include <jsoncons_ext/jsonpath/jsonpath.hpp>
#include <iostream>
using namespace jsoncons;
int main(){
  json doc = json::parse(R"({"a":[{"n":"first value is long enough to be on the heap"},{"n":"second"},{"n":"third"}]})");
  jsonpath::json_replace(doc, "$.a[*].n", json("REPLACEMENT TEXT THAT IS LONG ENOUGH FOR THE HEAP"));
  std::cout << doc << "\n";
  int bad=0; for (auto& e : doc["a"].array_range()) if (e["n"] != json("REPLACEMENT TEXT THAT IS LONG ENOUGH FOR THE HEAP")) ++bad;
  std::cout << "bad=" << bad << "\n"; return bad?1:0;
}
