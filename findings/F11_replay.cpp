#include <jsoncons/json.hpp>
#include <jsoncons_ext/jsonpointer/jsonpointer.hpp>
#include <jsoncons_ext/jsonpatch/jsonpatch.hpp>
#include <iostream>
using namespace jsoncons;
int main(){
    json doc = json::parse("[10,20,30]");
    std::error_code ec;
    auto& r = jsonpointer::get(doc, "/01", ec); std::cout << "get /01: " << ec.message() << "\n"; int bad = ec ? 0 : 1;
    ec.clear(); auto& r2 = jsonpointer::get(doc, "/1", ec); std::cout << "get /1: " << r2 << " " << ec.message() << "\n"; if (ec) bad++;
    ec.clear(); auto& r3 = jsonpointer::get(doc, "/0", ec); std::cout << "get /0: " << r3 << "\n"; if (ec) bad++;
    ec.clear(); jsonpointer::add(doc, "/01", json(99), ec); std::cout << "add /01: " << ec.message() << " doc=" << doc << "\n"; if(!ec) bad++;
    ec.clear(); jsonpointer::replace(doc, "/00", json(1), ec); if(!ec) bad++;
    ec.clear(); jsonpointer::remove(doc, "/02", ec); if(!ec) bad++;
    json d2 = json::parse(R"({"a":1})"); json patch = json::parse(R"([{"op":"bogus","path":"/a"},{"op":"add","path":"/b","value":2}])");
    ec.clear(); jsonpatch::apply_patch(d2, patch, ec); std::cout << "patch: " << ec.message() << " doc=" << d2 << "\n"; if(!ec || d2.contains("b")) bad++;
    return bad;
}
