// instantiation driver: jsoncons core (include/jsoncons/**)
#include <jsoncons/json.hpp>
#include <jsoncons/json_cursor.hpp>
#include <jsoncons/json_reader.hpp>
#include <jsoncons/json_encoder.hpp>
#include <jsoncons/json_parser.hpp>
#include <jsoncons/json_decoder.hpp>
#include <jsoncons/json_filter.hpp>
#include <jsoncons/staj_iterator.hpp>

namespace jsoncons {
template class basic_json_parser<char>;
template class basic_json_encoder<char, string_sink<std::string>>;
template class basic_compact_json_encoder<char, string_sink<std::string>>;
template class basic_json_encoder<char, stream_sink<char>>;
template class basic_compact_json_encoder<char, stream_sink<char>>;
template class json_decoder<json>;
template class json_decoder<ojson>;
template class basic_json_reader<char, stream_source<char>>;
template class basic_json_reader<char, string_source<char>>;
template class basic_json_cursor<char, stream_source<char>>;
template class basic_json_cursor<char, string_source<char>>;
template class basic_json<char, sorted_policy, std::allocator<char>>;
template class basic_json<char, order_preserving_policy, std::allocator<char>>;
#ifdef JCSA_THOROUGH
template class basic_json_parser<wchar_t>;
template class basic_json_encoder<wchar_t, string_sink<std::wstring>>;
template class basic_compact_json_encoder<wchar_t, string_sink<std::wstring>>;
template class json_decoder<wjson>;
template class basic_json_reader<wchar_t, string_source<wchar_t>>;
template class basic_json_cursor<wchar_t, string_source<wchar_t>>;
#endif
}

// source readers (used by the binary parsers; instantiated here so that include/jsoncons/source.hpp is analysed)
void jcsa_use_sources(std::istream& is, const std::vector<uint8_t>& v, std::basic_istream<char>& cs)
{
    using namespace jsoncons;
    binary_stream_source s1(is);
    bytes_source s2(v);
    std::vector<uint8_t> buf;
    source_reader<binary_stream_source>::read(s1, buf, 10);
    source_reader<bytes_source>::read(s2, buf, 10);
    std::string text;
    stream_source<char> s3(cs);
    source_reader<stream_source<char>>::read(s3, text, 10);
    uint8_t tmp[8];
    (void)s1.read(tmp, 8); (void)s1.peek(); s1.ignore(1); (void)s1.read_span(4, buf);
    (void)s2.read(tmp, 8); (void)s2.peek(); s2.ignore(1); (void)s2.read_span(4, buf);
}

// integer readers (all overloads, so that every digit loop of read_number.hpp is analysed)
void jcsa_use_read_number(const char* s, std::size_t n, const wchar_t* w)
{
    using namespace jsoncons;
    uint64_t u64; int64_t i64; uint32_t u32; int32_t i32; uint8_t u8; int16_t i16;
    (void)dec_to_integer(s, n, u64); (void)dec_to_integer(s, n, i64); (void)dec_to_integer(s, n, u32); (void)dec_to_integer(s, n, i32);
    (void)dec_to_integer(s, n, u8); (void)dec_to_integer(s, n, i16); (void)dec_to_integer(w, n, u64); (void)dec_to_integer(w, n, i64);
    (void)to_integer(s, n, u64); (void)to_integer(s, n, i64); (void)to_integer(s, n, u32); (void)to_integer(s, n, i32);
    (void)hex_to_integer(s, n, u64); (void)hex_to_integer(s, n, i64); (void)hex_to_integer(s, n, u32); (void)hex_to_integer(s, n, i32);
}

// object construction / bulk insertion paths of both object policies (duplicate-key handling)
void jcsa_use_object_ranges(const std::vector<std::pair<std::string, jsoncons::ojson>>& items, const std::vector<std::pair<std::string, jsoncons::json>>& items2)
{
    using namespace jsoncons;
    ojson o(json_object_arg, items.begin(), items.end());
    ojson o2(json_object_arg, items.begin(), items.end(), semantic_tag::none, std::allocator<char>());
    o.insert(items.begin(), items.end());
    json j(json_object_arg, items2.begin(), items2.end());
    j.insert(items2.begin(), items2.end());
    // j.insert(sorted_unique_range_tag(), ...) does not compile when instantiated (undeclared `convert`, observation N6)
    o.merge(o2); o.merge_or_update(o2);
    j.merge(j); j.merge_or_update(j);
}

// arbitrary-precision integer: every member (arithmetic, shifts, conversions)
namespace jsoncons { template class basic_bigint<std::allocator<uint64_t>>; }
void jcsa_use_bigint(const std::string& s, std::string& out)
{
    using namespace jsoncons;
    bigint a(s.data(), s.size()), b(7);
    a += b; a -= b; a *= b; a /= b; a %= b; a <<= 70; a >>= 3; a |= b; a &= b; a ^= b;
    a *= int64_t(3); a *= uint64_t(3); a /= int64_t(3);
    out = a.to_string(); out = a.to_string_hex();
    (void)(a < b); (void)(a == b); (void)static_cast<double>(a); (void)static_cast<int64_t>(a);
    bigint c = -a; c = a + b; c = a - b; c = a * b; c = a / b; c = a % b;
    bigint q, r; a.divide(b, q, r, true);
}

// cursor -> basic_json builders (to_json_single / to_json_container)
void jcsa_use_cursor_to_json(const std::string& s, std::istream& is)
{
    using namespace jsoncons;
    json j = decode_json<json>(s);
    ojson o = decode_json<ojson>(is);
    (void)j; (void)o;
}
