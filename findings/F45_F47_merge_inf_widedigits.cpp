#include <jsoncons/json.hpp>
#include <jsoncons_ext/jsonpointer/jsonpointer.hpp>
#include <iostream>
#include <limits>
using namespace jsoncons;
int main(){
  int bad=0;
  { json a = json::parse(R"({"b":1})"); json b = json::parse(R"({"a":2})"); a.merge_or_update(std::move(b)); std::cout << "merge_or_update(rvalue): " << a << "\n"; if (a != json::parse(R"({"a":2,"b":1})")) ++bad; }
  { json a = json::parse(R"({"b":1})"); json b = json::parse(R"({"a":2})"); a.merge_or_update(b); std::cout << "merge_or_update(lvalue): " << a << "\n"; if (a != json::parse(R"({"a":2,"b":1})")) ++bad; }
  { json a = json::parse(R"({"b":1})"); json b = json::parse(R"({"a":2})"); a.merge(std::move(b)); std::cout << "merge(rvalue): " << a << "\n"; if (a != json::parse(R"({"a":2,"b":1})")) ++bad; }
  { double inf = std::numeric_limits<double>::infinity(); json x(inf), y(inf); std::cout << "inf==inf: " << (x==y) << " x<y:" << (x<y) << " y<x:" << (y<x) << "\n"; if (!(x==y)) ++bad; }
  { json i(int64_t(5)); double inf = std::numeric_limits<double>::infinity(); json y(inf); std::cout << "5<inf: " << (i<y) << " inf>5:" << (y>i) << "\n"; }
  { std::wstring p = L"/ı"; wjson arr = wjson::parse(L"[10,20,30]"); std::error_code ec; auto v = jsonpointer::get(arr, p, ec); std::wcout << L"wide index: ec=" << ec.value() << L"\n"; if (!ec) ++bad; }
  std::cout << "bad=" << bad << "\n"; return bad?1:0;
}
