"""C15 JSON Patch is RFC 6902-conformant and atomic - undo-log pairing, commit discipline, total dispatch."""
from .. import frontend as F, ast as A, cfg as C, util as U, guards as G, inline as I

EXPLANATION = ('Path rules over the CFG of jsonpatch::apply_patch and ~operation_unwinder: (R15.1) every mutating jsonpointer call on the '
               'target is followed, on every path that neither returns an error nor reaches another mutation, by exactly the inverse '
               'entry on the undo stack (add/add_if_absent -> remove, replace -> replace with the value read before, remove -> add with the '
               'value read before) at the same path; (R15.2) the commit state is assigned only after the operation loop and every error return '
               'inside the loop marks the state abort; (R15.3) the operation dispatch is total (an unknown op stores an error and returns); '
               '(R15.4) the unwinder replays in reverse and handles every op_type with the matching jsonpointer call.')
NOT_DECIDED = 'that each inverse restores the exact prior state for all documents; the from_diff law; only the structural clauses are decided'

MUT = {'add_if_absent': 'remove', 'add': 'remove', 'replace': 'replace', 'remove': 'add'}

def is_mut(c):
    return A.is_call(c) and A.callee_name(c) in MUT and 'jsonpointer::' in c.get('cq', '') and A.ref_name((c.get('args') or [None])[0]) == 'target'

def undo_push(c):
    """(inverse op name, path text, value text) if c is unwinder.stack.emplace_back(op_type::X, path, value)."""
    if not (A.is_call(c) and A.callee_name(c) == 'emplace_back'): return None
    o = A.strip(c.get('obj'), casts=True)
    if o is None or o.get('k') != 'MemberExpr' or o.get('n') != 'stack': return None
    args = c.get('args') or []
    if len(args) < 3: return None
    return (U.enum_const_name(args[0]), A.text(A.strip(args[1], casts=True)), A.text(A.strip(args[2], casts=True)), args[2])

def r15_5(chk, fn, g, muts):
    """definite_path(target, location) resolves '-' against the array as it is now: the first mutation after it must be the insertion at that path."""
    mut_nodes = {id(nd): (nd, c) for nd, c in muts}
    k = 0
    for nd in g.rpo:
        if nd.kind != 'stmt' or not isinstance(nd.ast, dict) or nd.ast.get('k') != 'DeclStmt': continue
        for d in nd.ast.get('decls') or []:
            if d.get('init') is None or not any(A.callee_name(c) == 'definite_path' for c in A.calls_in(d['init'])): continue
            k += 1
            name = d.get('n'); vid = d.get('id')
            # first mutations reachable from the definition
            seen = set(); stack = list(nd.succ); first = []
            while stack:
                x = stack.pop()
                if x.id in seen: continue
                seen.add(x.id)
                if id(x) in mut_nodes: first.append(mut_nodes[id(x)]); continue
                stack.extend(x.succ)
            site = U.site(fn, 'definite_path#%d' % k)
            bad = [(mn, mc) for mn, mc in first if not any(y.get('k') == 'DeclRefExpr' and y.get('id') == vid for a in mc.get('args') or [] for y in A.walk(a))]
            if first and not bad: chk.ok('R15.5', site, {'line': nd.line, 'first_mutation_lines': sorted(mn.line for mn, mc in first)})
            elif not first: chk.fail('R15.5', site, fn['file'], nd.line, 'the path computed by definite_path at line %s is never used by a mutation' % nd.line, None, fn['q'])
            else:
                chk.fail('R15.5', site, fn['file'], nd.line, 'definite_path(target, ...) is evaluated at line %s but the target is modified by %s at line %s before `%s` is used: "-" is resolved against an array that no longer has that size' % (
                    nd.line, A.callee_name(bad[0][1]), bad[0][0].line, name), {'definition': nd.line, 'intervening_mutation': bad[0][0].line}, fn['q'])
    chk.require(k >= 3, 'R15.5: only %d definite_path definitions found in apply_patch' % k)

def r15_6(chk, facts):
    """The unwinder rolls back in every state except commit (an exception leaves the state at begin)."""
    from .. import peval as P
    chk.rule('R15.6', 'rollback condition: ~operation_unwinder replays the undo log for every state_type value except commit (an exception or an '
                      'early return leaves the state at begin, an error return sets abort); decided by evaluating the destructor for each enumerator', floor=3)
    dts = [f for f in facts.functions if f.get('fk') == 'CXXDestructor' and 'operation_unwinder' in f['q'] and not f.get('dep') and f.get('body') is not None]
    chk.require(dts, '~operation_unwinder not found')
    en = U.enum_by_suffix(facts, 'jsonpatch::detail::state_type')
    names = U.enum_value_names(en)
    chk.require('commit' in names.values() and len(names) >= 3, 'state_type enumerators not found: %s' % names)
    for fn in U.one_per_inst(dts)[:1]:
        chk.analysed(fn)
        for sv, sname in sorted(names.items()):
            pe = P.PEval(facts, fn, max_depth=2, follow=lambda callee, call: callee['file'] == fn['file'] and 'operation_unwinder' in callee['q'])
            try:
                pe.exec_stmt(fn['body'], {('m', 'state'): sv}, (), 0)
            except P.Stop:
                chk.broken('R15.6: effect budget exhausted')
            replays = [e for e in pe.effects if e.kind == 'call' and e.name.split('::')[-1] in ('add', 'remove', 'replace') and e.args and
                       (e.args[0] == 'target' or 'jsonpointer::' in ((e.extra or {}).get('cq') or ''))]
            site = U.site(fn, 'state %s' % sname)
            want = sname != 'commit'
            if bool(replays) == want: chk.ok('R15.6', site, {'state': sname, 'replays_log': bool(replays)})
            else: chk.fail('R15.6', site, fn['file'], fn['l'], '~operation_unwinder %s the undo log when state == %s; every state except commit must roll back (after an exception the state is still begin)' % (
                'replays' if replays else 'does not replay', sname), {'state': sname}, fn['q'])

def r15_7(chk, facts):
    """The contract apply_patch builds its undo entries on: add_if_absent never overwrites."""
    chk.rule('R15.7', 'add_if_absent never overwrites: the worker of jsonpointer::add_if_absent contains no assignment to the document or to the '
                      'node it resolved and no insert_or_assign / operator[]; an object member is added with try_emplace after a contains() '
                      'test that stores key_already_exists.  apply_patch logs `remove` after a successful add_if_absent, which undoes the '
                      'operation only if nothing was overwritten (the whole document, path "", is never absent)', floor=2)
    fns = [f for f in facts.functions if f['n'] == 'add_if_absent' and f['file'].endswith('jsonpointer.hpp') and not f.get('dep') and f.get('body') is not None
           and len(f['params']) == 5 and 'basic_json_pointer' in f['_types'][f['params'][1]['t'] - 1]]
    chk.require(fns, 'jsonpointer::add_if_absent(root, pointer, value, create_if_missing, ec) not instantiated')
    for fn in U.one_per_inst(fns):
        chk.analysed(fn)
        root = fn['params'][0]['id']
        jsonptr_locals = set(d['id'] for d in A.walk_no_lambda(fn['body']) if d.get('k') == 'VarDecl' and fn['_types'][d['t'] - 1].rstrip().endswith('*') and 'basic_json' in fn['_types'][d['t'] - 1]) if True else set()
        bad = []
        for x in A.walk_no_lambda(fn['body']):
            tgt = None
            if x.get('k') == 'BinaryOperator' and x.get('op') == '=': tgt = A.strip(x.get('lhs'), casts=True)
            if x.get('k') == 'CXXOperatorCallExpr' and x.get('oop') == '=' and x.get('args'): tgt = A.strip(x['args'][0], casts=True)
            if tgt is not None:
                if tgt.get('k') == 'DeclRefExpr' and tgt.get('id') == root: bad.append((x.get('l'), 'assigns to the document'))
                if tgt.get('k') == 'UnaryOperator' and tgt.get('op') == '*' and (A.strip(tgt.get('sub'), casts=True) or {}).get('id') in jsonptr_locals:
                    bad.append((x.get('l'), 'assigns through the resolved node pointer'))
            if x.get('k') in A.CALLS and A.callee_name(x) in ('insert_or_assign', 'operator[]') and x.get('k') != 'CXXOperatorCallExpr':
                bad.append((x.get('l'), 'calls %s' % A.callee_name(x)))
            if x.get('k') == 'CXXOperatorCallExpr' and x.get('oop') == '[]' and 'basic_json' in (x.get('cq') or ''):
                bad.append((x.get('l'), 'indexes the node with operator[] (creates or overwrites)'))
        g = C.CFG(fn['body'])
        emplaces = [nd for nd in g.rpo if nd.kind in ('stmt', 'cond') and isinstance(nd.ast, dict) and any(A.callee_name(c) == 'try_emplace' for c in A.calls_in(nd.ast))]
        guarded = all(any(lab is False and any(A.callee_name(c) == 'contains' for c in A.calls_in(a)) for a, lab, e in g.guards(nd)) for nd in emplaces)
        site = U.site(fn, 'no overwrite')
        if bad: chk.fail('R15.7', site, fn['file'], bad[0][0], 'add_if_absent %s (line %s): a value that is already there is replaced and reported as newly '
                         'added, so apply_patch logs `remove` for it and a later failure cannot restore it' % (bad[0][1], bad[0][0]), {'sites': bad}, fn['q'])
        else: chk.ok('R15.7', site, {'function': fn['q']})
        site = U.site(fn, 'member added under !contains')
        if emplaces and guarded: chk.ok('R15.7', site, {'try_emplace_sites': len(emplaces)})
        else: chk.fail('R15.7', site, fn['file'], fn['l'], 'add_if_absent adds an object member %s' % ('outside a `!contains(key)` branch' if emplaces else 'without try_emplace'), None, fn['q'])

def r15_8(chk, facts, rid='R15.8', floor=2):
    """`if (ec)` means failure only if no failure code is zero."""
    chk.rule(rid, 'error enumerations: in every *_errc enumeration of the unit no error enumerator has the value 0 (0 is reserved for an '
                  'enumerator named success / ok, or unused): `ec = jsonpatch_errc::invalid_patch` followed by `if (ec)` must read as an error, '
                  'otherwise the failing operation is reported as success and nothing is rolled back', floor=floor)
    n = 0
    for e in facts.enums:
        nm = e['q'].split('::')[-1]
        if not nm.endswith('errc'): continue
        n += 1
        zero = [k for k, v in e['values'] if v == 0]
        site = '%s enum %s' % (e.get('file', ''), e['q'])
        if not zero or all(z in ('success', 'ok', 'none', 'no_error') for z in zero): chk.ok(rid, site, {'zero': zero or None})
        else: chk.fail(rid, site, e.get('file', ''), e.get('l', 0), 'enumerator %s::%s has the value 0: an error_code holding it converts to false, `if (ec)` takes it for success' % (e['q'], zero[0]), None, e['q'])
    chk.require(n >= min(floor, 2) and n >= 1, '%s: only %d error enumerations found' % (rid, n))

def r19_5(chk, facts):
    """Recording the inverse must not be able to fail once the mutation has happened."""
    chk.rule('R19.5', 'undo recording cannot fail: the undo entry that follows a mutation of the target in apply_patch is recorded without '
                      'allocating (moved from an entry built before the mutation into capacity reserved before it); otherwise an allocation '
                      'failure in the recording leaves the mutation un-logged and the target is not restored', floor=6)
    fns = [f for f in facts.functions if f['n'] == 'apply_patch' and not f.get('dep') and f.get('body') is not None and len(f['params']) == 3]
    chk.require(fns, 'jsonpatch::apply_patch(target, patch, ec) not found')
    for fn in U.one_per_inst(fns)[:1]:
        chk.analysed(fn)
        g = C.CFG(fn['body'])
        muts = []; pushes = []; reserves = []
        for nd in g.rpo:
            if nd.kind not in ('stmt', 'cond') or not isinstance(nd.ast, dict): continue
            for c in A.calls_in(nd.ast):
                if is_mut(c): muts.append((nd, c))
                o = A.strip(c.get('obj'), casts=True) if c.get('obj') is not None else None
                if o is not None and o.get('k') == 'MemberExpr' and o.get('n') == 'stack':
                    if A.callee_name(c) in ('emplace_back', 'push_back'): pushes.append((nd, c))
                    if A.callee_name(c) == 'reserve': reserves.append(nd)
        chk.require(len(muts) >= 6 and pushes, 'R19.5: mutations / undo pushes not found in apply_patch')
        push_nodes = [p_[0] for p_ in pushes]; mut_nodes = [m[0] for m in muts]
        for i, (mn, mc) in enumerate(muts):
            kind = A.callee_name(mc)
            args = mc.get('args') or []
            ptxt = A.text(A.strip(args[1], casts=True)) if len(args) > 1 else '?'
            site = U.site(fn, 'mutation#%d %s(%s) undo recording' % (i + 1, kind, ptxt))
            # the pushes reachable from the mutation before another mutation
            nxt = [(pn, pc) for pn, pc in pushes if any(g.can_reach(s2, [pn], avoid=[x for x in mut_nodes if x is not mn] + [x for x in push_nodes if x is not pn]) for s2 in mn.succ)]
            if not nxt:
                chk.ok('R19.5', site, {'note': 'no undo push follows directly (checked by R15.1)'}); continue
            bad = None
            for pn, pc in nxt:
                a = pc.get('args') or []
                moved_local = len(a) == 1 and any(A.callee_name(y) == 'move' for y in A.calls_in(a[0])) and A.callee_name(pc) == 'push_back'
                reserved = any(g.dominates(r, mn) for r in reserves)
                if not (moved_local and reserved): bad = (pn, pc)
            if bad is None: chk.ok('R19.5', site, {'line': mc.get('l')})
            else: chk.fail('R19.5', site, fn['file'], bad[1].get('l'), 'apply_patch: after %s(target, %s) at line %s the inverse is recorded by stack.%s(op, path, value) at line %s, which copies the path and value and may grow the vector: if that allocation fails the mutation stays applied and is not rolled back' % (
                kind, ptxt, mc.get('l'), A.callee_name(bad[1]), bad[1].get('l')), {'mutation_line': mc.get('l'), 'push_line': bad[1].get('l')}, fn['q'])

def run(chk, tier, only_rule=None):
    chk.explanation = EXPLANATION
    chk.not_decided = NOT_DECIDED
    facts = F.load(['patch'], tier)
    chk.units = ['patch']
    chk.rule('R15.1', 'undo-log pairing: each mutation of the target is logged with its inverse at the same path before the next mutation, the '
                      'next operation or a successful return', floor=6)
    chk.rule('R15.2', 'commit discipline: state commit is assigned only after the operation loop; error returns inside the loop mark abort', floor=10)
    chk.rule('R15.3', 'total dispatch: the final alternative of the op chain stores an error and returns', floor=1)
    chk.rule('R15.5', 'definite_path freshness: the concrete path of an insertion ("-" resolved to the current size) is computed in the state the '
                      'insertion sees: no other mutation of the target lies between definite_path() and the first mutation that uses its result', floor=3)
    chk.rule('R15.4', 'the unwinder replays the log in reverse and has a branch for every op_type calling the matching jsonpointer function', floor=3)
    fns = [f for f in facts.functions if f['n'] == 'apply_patch' and not f.get('dep') and f.get('body') is not None and len(f['params']) == 3]
    chk.require(fns, 'jsonpatch::apply_patch(target, patch, ec) not found')
    for fn in U.one_per_inst(fns):
        chk.analysed(fn)
        g = C.CFG(fn['body'])
        muts = []; pushes = []
        for nd in g.rpo:
            if nd.kind not in ('stmt', 'cond') or not isinstance(nd.ast, dict): continue
            for c in A.calls_in(nd.ast):
                if is_mut(c): muts.append((nd, c))
                up = undo_push(c)
                if up: pushes.append((nd, c, up))
        chk.require(len(muts) >= 6, 'R15.1: only %d mutating calls found in apply_patch' % len(muts))
        loop_conds = [nd for nd in g.rpo if nd.kind == 'cond' and isinstance(nd.ast, dict) and nd.ast.get('k') == 'RangeHasNext']
        chk.require(loop_conds, 'apply_patch: operation loop not found')
        loop = loop_conds[0]
        returns = [nd for nd in g.rpo if nd.kind == 'return']
        r15_5(chk, fn, g, muts)
        for i, (mn, mc) in enumerate(muts):
            kind = A.callee_name(mc)
            inv = MUT[kind]
            args = mc.get('args') or []
            ptxt = A.text(A.strip(args[1], casts=True)) if len(args) > 1 else '?'
            good = [pn for pn, pc, up in pushes if up[0] == inv and up[1] == ptxt]
            site = U.site(fn, 'mutation#%d %s(%s)' % (i + 1, kind, ptxt))
            # value of the inverse: for replace/remove it must be a variable initialised from jsonpointer::get(target, same path) before the mutation
            val_ok = True; val_why = ''
            if inv in ('replace', 'add'):
                val_ok = False
                for pn, pc, up in pushes:
                    if up[0] == inv and up[1] == ptxt and pn in good:
                        vname = A.ref_name(up[3])
                        for dn in g.rpo:
                            if dn.kind == 'stmt' and dn.ast.get('k') == 'DeclStmt' and g.dominates(dn, mn):
                                for d in dn.ast.get('decls') or []:
                                    if d.get('n') == vname and d.get('init') is not None:
                                        for gc in A.calls_in(d['init']):
                                            if A.callee_name(gc) == 'get' and 'jsonpointer::' in gc.get('cq', ''):
                                                ga = gc.get('args') or []
                                                if len(ga) > 1 and A.ref_name(ga[0]) == 'target' and A.text(A.strip(ga[1], casts=True)) == ptxt:
                                                    # a copy: jsonpointer::get returns a reference into the target, which the mutation is about to overwrite
                                                    if F.tname(fn, d.get('t')).rstrip().endswith('&'):
                                                        val_why = 'the logged value `%s` (line %s) is a reference to the element of the target that %s overwrites, not a copy taken before: the undo entry records the new value' % (vname, d.get('l'), kind)
                                                    else: val_ok = True
                        if not val_ok and not val_why: val_why = 'the logged value `%s` is not read with jsonpointer::get(target, %s) before the mutation' % (up[2][:30], ptxt)
            others = [n2 for n2, c2 in muts if n2 is not mn]
            seen = g.reachable_from(mn, avoid=[x for x in returns + others + good])
            # reached without logging: next iteration of the loop or the normal end of the function
            leak = loop.id in seen or any(p.id in seen and p.kind != 'return' for p in g.exit_return.pred)
            # ... nor may anything that can fail stand between the mutation and its undo entry: an error return or another mutation reached
            # before the entry is logged leaves a change the rollback does not know about.  The mutation's own failure branch (the first
            # test of the error code it was given) is exempt: a failed call has changed nothing.
            own_fail = []
            ecarg = A.strip(args[-1], casts=True) if args else None
            if ecarg is not None and ecarg.get('k') == 'DeclRefExpr':
                order = {nd.id: i_ for i_, nd in enumerate(g.rpo)}
                tests = [nd for nd in g.rpo if nd.kind == 'cond' and isinstance(nd.ast, dict) and order[nd.id] > order[mn.id] and g.dominates(mn, nd) and
                         any(y.get('k') == 'DeclRefExpr' and y.get('id') == ecarg.get('id') for y in A.walk(nd.ast))]
                if tests:
                    first = min(tests, key=lambda nd: order[nd.id])
                    own_fail = [e for e in first.succ if e.kind == 'edge' and e.label is True]
            seen2 = g.reachable_from(mn, avoid=good + own_fail)
            early = [r for r in returns if r.id in seen2] + [n2 for n2 in others if n2.id in seen2]
            facts_ = {'function': fn['q'], 'mutation': A.text(mc)[:80], 'line': mc.get('l'), 'inverse_required': inv, 'logged_at': [p.line for p in good]}
            if not good:
                chk.fail('R15.1', site, fn['file'], mc.get('l'), '%s(target, %s) is never logged with its inverse (%s at %s)' % (kind, ptxt, inv, ptxt), facts_, fn['q'])
            elif leak:
                chk.fail('R15.1', site, fn['file'], mc.get('l'), 'after %s(target, %s) a path reaches the next operation without the undo entry (%s): a later failure cannot roll it back' % (kind, ptxt, inv), facts_, fn['q'])
            elif early:
                what = 'returns (line %s)' % early[0].line if early[0].kind == 'return' else 'performs the next mutation of the target (line %s)' % early[0].line
                chk.fail('R15.1', site, fn['file'], mc.get('l'), 'after a successful %s(target, %s) the function %s before the undo entry (%s) is logged: when that step fails, '
                         'the rollback does not restore this change' % (kind, ptxt, what, inv), facts_, fn['q'])
            elif not val_ok:
                chk.fail('R15.1', site, fn['file'], mc.get('l'), val_why or 'inverse value not established', facts_, fn['q'])
            else:
                chk.ok('R15.1', site, facts_)
        # every undo entry must belong to a mutation (no stray entries)
        for pn, pc, up in pushes:
            site = U.site(fn, 'undo entry %s(%s)' % (up[0], up[1]))
            owners = [1 for mn, mc in muts if MUT[A.callee_name(mc)] == up[0] and A.text(A.strip((mc.get('args') or [None, None])[1], casts=True)) == up[1] and g.can_reach(mn, [pn])]
            if owners: chk.ok('R15.1', site, None, nontrivial=False)
            else: chk.fail('R15.1', site, fn['file'], pc.get('l'), 'undo entry %s at %s does not follow a matching mutation' % (up[0], up[1]), None, fn['q'])
        # R15.2
        for nd in g.rpo:
            if nd.kind != 'stmt': continue
            am = U.assigned_member(nd.ast)
            if not am or am[0] != 'state': continue
            en = U.enum_const_name(am[1])
            if en == 'commit':
                after_loop = any(d.kind == 'edge' and d.src is loop and d.label is False for d in g.dominators(nd))
                site = U.site(fn, 'commit')
                if after_loop: chk.ok('R15.2', site, {'line': nd.line})
                else: chk.fail('R15.2', site, fn['file'], nd.line, 'state commit is assigned inside the operation loop: an error in a later operation is not rolled back', None, fn['q'])
        in_loop = set(g.reachable_from([e for e in loop.succ if e.label is True][0], avoid=[]))
        k = 0
        for r in returns:
            if r.id not in in_loop: continue
            # only returns inside the loop body (the loop body region is dominated by the loop's true edge)
            if not any(d.kind == 'edge' and d.src is loop and d.label is True for d in g.dominators(r)): continue
            k += 1
            ok = False
            for d in g.dominators(r):
                if d.kind == 'stmt':
                    am = U.assigned_member(d.ast)
                    if am and am[0] == 'state' and U.enum_const_name(am[1]) == 'abort': ok = True; break
                    continue
                if d.kind == 'edge': break
            site = U.site(fn, 'error return #%d' % k)
            if ok: chk.ok('R15.2', site, None, nontrivial=(k % 5 == 1))
            else: chk.fail('R15.2', site, fn['file'], r.line, 'return inside the operation loop without `unwinder.state = abort` in the same block', None, fn['q'])
        # R15.3
        opconds = [nd for nd in g.rpo if nd.kind == 'cond' and isinstance(nd.ast, dict) and nd.ast.get('k') == 'CXXOperatorCallExpr' and nd.ast.get('oop') == '==' and
                   A.ref_name((nd.ast.get('args') or [None])[0]) == 'op']
        chk.require(len(opconds) >= 6, 'R15.3: op dispatch chain not found (%d comparisons)' % len(opconds))
        last = None
        for nd in opconds:
            fe = [e for e in nd.succ if e.kind == 'edge' and e.label is False]
            if fe and not any(x in opconds for x in fe[0].succ): last = (nd, fe[0])
        site = U.site(fn, 'op dispatch')
        if last is None:
            chk.fail('R15.3', site, fn['file'], fn['l'], 'cannot find the final alternative of the op chain', None, fn['q'])
        else:
            region = G.region_of_edge(g, last[1])
            stores = any(x.kind == 'stmt' and U.assigned_member(x.ast) and U.assigned_member(x.ast)[0] == 'ec' for x in region)
            rets = any(x.kind == 'return' for x in region)
            if stores and rets: chk.ok('R15.3', site, {'final_else_line': last[1].succ[0].line if last[1].succ else None, 'ops_compared': len(opconds)})
            else: chk.fail('R15.3', site, fn['file'], last[0].line, 'an operation whose "op" matches none of the %d names is skipped without an error (no final else that stores ec and returns)' % len(opconds), None, fn['q'])
    r15_6(chk, facts)
    r15_7(chk, facts)
    r15_8(chk, facts)
    # R15.4
    dts = [f for f in facts.functions if f.get('fk') == 'CXXDestructor' and 'operation_unwinder' in f['q'] and not f.get('dep') and f.get('body') is not None]
    chk.require(dts, '~operation_unwinder not found')
    en = U.enum_by_suffix(facts, 'jsonpatch::detail::op_type')
    for fn in U.one_per_inst(dts):
        chk.analysed(fn)
        # the replay may be split over private helpers (`rollback()`, `undo(target, entry, ec)`): analysed with those calls expanded (E11)
        fn = I.expand(facts, fn, depth=3)
        g = C.CFG(fn['body'])
        handled = {}
        vnames = U.enum_value_names(en)
        def replay_calls(edge):
            calls = set()
            for x in G.region_of_edge(g, edge):
                if isinstance(x.ast, dict):
                    for c in A.calls_in(x.ast):
                        if 'jsonpointer::' in c.get('cq', '') and A.callee_name(c) in ('add', 'remove', 'replace'): calls.add(A.callee_name(c))
            return calls
        for nd in g.rpo:
            if nd.kind == 'switch':
                # switch (entry.op) { case op_type::add: ... }: one case edge per enumerator
                for e in nd.succ:
                    if e.kind == 'edge' and isinstance(e.label, tuple) and e.label[0] == 'case' and e.label[1] == e.label[2] and e.label[1] in vnames:
                        handled[vnames[e.label[1]]] = replay_calls(e)
                continue
            if nd.kind != 'cond': continue
            cmp_ = G.comparison(nd.ast)
            if not cmp_ or cmp_[0] != '==': continue
            name = U.enum_const_name(cmp_[2]) or U.enum_const_name(cmp_[1])
            if name is None: continue
            te = [e for e in nd.succ if e.kind == 'edge' and e.label is True]
            calls = set()
            for x in G.region_of_edge(g, te[0]) if te else []:
                if isinstance(x.ast, dict):
                    for c in A.calls_in(x.ast):
                        if 'jsonpointer::' in c.get('cq', '') and A.callee_name(c) in ('add', 'remove', 'replace'): calls.add(A.callee_name(c))
            handled[name] = calls
        for name, v in en['values']:
            site = U.site(fn, 'replay %s' % name)
            if handled.get(name) == {name}: chk.ok('R15.4', site, {'op': name, 'calls': name})
            else: chk.fail('R15.4', site, fn['file'], fn['l'], 'unwinder entry op_type::%s is replayed with %s' % (name, sorted(handled.get(name) or []) or 'nothing'), None, fn['q'])
        rev = any(A.callee_name(c) == 'rbegin' for c in A.calls_in(fn['body']))
        site = U.site(fn, 'reverse order')
        if rev: chk.ok('R15.4', site, {'iteration': 'rbegin..rend'})
        else: chk.fail('R15.4', site, fn['file'], fn['l'], 'the undo log is not replayed in reverse order', None, fn['q'])
    # apply_patch works through the jsonpointer operations: their exact bounds (add at index == size appends) and error-before-mutation
    # discipline are part of the patch semantics and of its atomicity
    r19_5(chk, facts)
    from . import c14
    c14.r14_3(chk, facts)
    c14.r14_4(chk, facts)
    c14.r14_5(chk, facts)
    c14.r14_6(chk, facts)
