#include <jsoncons/json.hpp>
#include <jsoncons_ext/csv/csv.hpp>
#include <iostream>
using namespace jsoncons;
int main()
{
    json j = json::parse(R"({"a":[1,2],"b":[3,4]})");
    std::string s1, s2;
    csv::csv_string_encoder enc(s1);
    j.dump(enc);
    enc.flush();
    enc.reset(s2);
    j.dump(enc);
    enc.flush();
    std::cout << "first:\n" << s1 << "second:\n" << s2;
    // also a fresh encoder for the second document
    std::string s3; csv::csv_string_encoder enc3(s3); j.dump(enc3); enc3.flush();
    if (s2 != s3) { std::cout << "MISMATCH: reused encoder differs from a fresh one\n"; return 1; }
    std::cout << "OK\n"; return 0;
}
