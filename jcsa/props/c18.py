"""C18 CSV and TOON text round-trip - quote-trigger set vs parser special set; quote escaping inverse."""
from .. import inline as I, frontend as F, ast as A, cfg as C, util as U, peval as P, guards as G, scanner as S

EXPLANATION = ('(R18.1) CSV: the set of characters that trigger quoting under quote_style minimal (targets of the find() calls in the '
               'quoting condition of csv_encoder::write_string_value) contains every character the parser treats specially inside an '
               'unquoted field (case labels and member comparisons of the unquoted_string state: field delimiter, CR, LF) and the quote '
               'character; (R18.2) the escape writer turns exactly the quote character into quote_escape_char followed by the quote character, '
               'and the parser quoted_string/escaped_value states undo exactly that.')
EXPLANATION += (' (R18.3) TOON: whatever the quoted-string writer called by encode_string/encode_key emits for each of the 256 characters '
                '(partial evaluation of its character loop) is read back to that character by the reader (unescape_string acceptance table, '
                'partially evaluated for every escape letter); (R18.4) the encoder unquoted-safety predicate rejects every string the reader '
                'would not return unchanged: the structural characters the reader searches for outside quotes, a leading quote, the literal words '
                'the reader turns into true/false/null, anything is_number() accepts, empty strings and strings with outer white space.')
EXPLANATION += (' (R18.10) TOON numbers: the language of the reader number scanner is included in the strings the encoder quotes '
                '(is_number accepts, or is_unquoted_safe rejects the first character / the empty string): reachable product of the two '
                'scanner automata extracted from the loops.')
NOT_DECIDED = ('table equality after a round trip; column/type inference; for TOON: the numeric value of a token both sides take as a number, '
               'indentation and array-header layout')

def r18_13(chk, facts):
    """A reused CSV parser still knows the column names it was configured with."""
    chk.rule('R18.13', 'reuse keeps configured names: basic_csv_parser records how many column names came from the options (the member its '
                       'constructor sets from column_names_.size()); reinitialize() removes only the names beyond that count - it never '
                       'clears the container, because nothing re-reads the configured names and every table after the first would be '
                       'decoded into empty objects', floor=1)
    ctors = [f for f in facts.functions if f.get('fk') == 'CXXConstructor' and 'basic_csv_parser' in (f.get('cls') or '') and not f.get('dep') and f.get('body') is not None]
    counters = set()
    for f in ctors:
        for x in A.walk_no_lambda(f['body']):
            am = U.assigned_member(x) if x.get('k') in ('BinaryOperator', 'CXXOperatorCallExpr') else None
            if am and any(A.is_call(y) and A.callee_name(y) == 'size' and 'column_names_' in A.text(y.get('obj')) for y in A.walk(am[1])): counters.add(am[0])
        for ini in f.get('inits') or []:
            if ini.get('m') and any(A.is_call(y) and A.callee_name(y) == 'size' and 'column_names_' in A.text(y.get('obj')) for y in A.walk(ini.get('init'))): counters.add(ini['m'])
    chk.require(counters, 'R18.13: the member that counts the configured column names was not found in the basic_csv_parser constructors')
    fns = U.one_per_inst([f for f in U.functions(facts, cls='basic_csv_parser', name='reinitialize') if f.get('body') is not None])
    chk.require(fns, 'basic_csv_parser::reinitialize not found')
    for fn in fns:
        chk.analysed(fn)
        site = U.site(fn, 'column_names_')
        bad = None; ok = False
        for b in I.closure_bodies(facts, fn, depth=2):
            for y in A.walk_no_lambda(b):
                if y.get('k') == 'CXXMemberCallExpr' and (A.strip(y.get('obj'), casts=True) or {}).get('n') == 'column_names_':
                    nm = A.callee_name(y)
                    if nm in ('clear', 'resize', 'assign', 'shrink_to_fit') and not any(c in A.text(a) for a in (y.get('args') or []) for c in counters): bad = (nm, y.get('l'))
                    if nm == 'erase' and any(c in A.text((y.get('args') or [None])[0]) for c in counters): ok = True
                    elif nm == 'erase': bad = ('erase', y.get('l'))
                am = U.assigned_member(y) if y.get('k') in ('BinaryOperator', 'CXXOperatorCallExpr') else None
                if am and am[0] == 'column_names_': bad = ('assignment', y.get('l'))
        if bad: chk.fail('R18.13', site, fn['file'], bad[1], 'reinitialize() applies %s to column_names_ without regard to %s: the names given in the options are lost, and the next table is decoded without them' % (bad[0], sorted(counters)), None, fn['q'])
        else: chk.ok('R18.13', site, {'counter': sorted(counters), 'erase_beyond_configured': ok})

def run(chk, tier, only_rule=None):
    chk.explanation = EXPLANATION
    chk.not_decided = NOT_DECIDED
    facts = F.load(['csv'], tier)
    chk.units = ['csv', 'toon']
    r18_6(chk, facts)
    r18_7(chk, facts)
    r18_8(chk, facts)
    r18_11(chk, facts)
    r18_13(chk, facts)
    if only_rule is None:
        from . import c08
        c08.r08_6(chk, tier, units=('csv',), floor=6)     # a reused CSV encoder / column filter starts the next table empty
        # CSV text is read through text_source_adaptor: its byte-order-mark test must apply to the first chunk only (a U+FEFF that starts a
        # later chunk is field content)
        from . import c02
        c02.r02_8(chk, F.load(['core'], tier))
        if 'core' not in chk.units: chk.units.append('core')
    if only_rule in (None, 'R18.3', 'R18.4'):
        toon_rules(chk, tier)
    if only_rule in ('R18.3', 'R18.4'): return
    chk.rule('R18.1', 'CSV minimal quoting: trigger set of the encoder is a superset of the characters special in an unquoted field plus the quote character', floor=4)
    chk.rule('R18.2', 'CSV quote escaping: writer emits quote_escape_char + quote_char for quote_char and doubles an escape character that differs from the quote character; parser escaped_value accepts exactly those two', floor=6)
    # ---- parser special set in unquoted_string
    pf = [f for f in U.functions(facts, cls='basic_csv_parser', name='parse_some') if f.get('body') is not None]
    chk.require(pf, 'basic_csv_parser::parse_some not found')
    special = set()
    pfn = pf[0]
    chk.analysed(pfn)
    en = U.enum_value_names(U.enum_by_suffix(facts, '::csv_parse_state'))
    inv = {v: k for k, v in en.items()}
    found_state = False
    for sw in A.walk_no_lambda(pfn['body']):
        if sw.get('k') != 'SwitchStmt' or A.ref_name(sw.get('cond')) != 'state_': continue
        items = P.PEval.switch_items(sw['body'])
        for labels, st in items:
            if not any(lo != 'default' and lo == inv.get('unquoted_string') for lo, hi in labels): continue
            # the main-loop version switches over curr_char
            inner = [y for y in A.walk_no_lambda(st) if y.get('k') == 'SwitchStmt' and A.ref_name(y.get('cond')) == 'curr_char'] if st else []
            if not inner: continue
            found_state = True
            for lbls, s2 in P.PEval.switch_items(inner[0]['body']):
                for lo, hi in lbls:
                    if lo != 'default': special.add(lo)
            for y in A.walk_no_lambda(inner[0]):
                if y.get('k') == 'BinaryOperator' and y.get('op') == '==' and A.ref_name(y.get('lhs')) == 'curr_char':
                    n = A.ref_name(y.get('rhs'))
                    if n: special.add(n)
    chk.require(found_state and special, 'csv parser: unquoted_string state with a switch over curr_char not found')
    # subfield_delimiter_ is a decode-only option (the encoder never writes sub-fields)
    required = set(x for x in special if x != 'subfield_delimiter_') | {'quote_char_'}
    # ---- encoder trigger set
    ef = [f for f in U.functions(facts, cls='basic_csv_encoder', name='write_string_value') if f.get('body') is not None]
    chk.require(ef, 'basic_csv_encoder::write_string_value not found')
    for fn in U.one_per_inst(ef):
        chk.analysed(fn)
        triggers = set()
        # the quoting decision may live in helpers of the encoder (string_needs_quotes, contains_special_char ...)
        for c in (y for b in I.closure_bodies(facts, fn, allow=lambda callee, call: callee['n'] not in ('escape_string',)) for y in A.walk_no_lambda(b)):
            if c.get('k') in A.CALLS and A.callee_name(c) == 'find':
                args = c.get('args') or []
                if len(args) >= 3:
                    v = A.const(args[2])
                    triggers.add(v if v is not None else A.ref_name(args[2]))
        for r in sorted(required, key=str):
            site = U.site(fn, 'trigger %s' % (r if isinstance(r, str) else '0x%02x' % r))
            if r in triggers: chk.ok('R18.1', site, {'special_in_parser': sorted(map(str, special)), 'encoder_triggers': sorted(map(str, triggers))})
            else:
                chk.fail('R18.1', site, fn['file'], fn['l'], 'a field containing %s is written unquoted under quote_style minimal, but the parser treats it specially inside an unquoted field' % (
                    r if isinstance(r, str) else repr(chr(r))), {'encoder_triggers': sorted(map(str, triggers))}, fn['q'])
    # ---- escape writer
    wf = [f for f in U.functions(facts, cls='basic_csv_encoder', name='escape_string') if f.get('body') is not None]
    chk.require(wf, 'basic_csv_encoder::escape_string not found')
    for fn in U.one_per_inst(wf):
        chk.analysed(fn)
        loop = [x for x in A.walk_no_lambda(fn['body']) if x.get('k') == 'ForStmt']
        chk.require(loop, 'escape_string: loop not found')
        pid = {p['n']: p['id'] for p in fn['params']}
        for c, q, e in ((0x22, 0x22, 0x22), (0x41, 0x22, 0x22), (0x27, 0x27, 0x5c), (0x5c, 0x27, 0x5c), (0x5c, 0x22, 0x5c), (0x41, 0x27, 0x5c)):
            pe = P.PEval(facts, fn, max_depth=1, bind={'c': c})
            pe.exec_stmt(loop[0]['body'], {pid['quote_char']: q, pid['quote_escape_char']: e}, (), 0)
            pushes = [x.args[0] for x in pe.effects if x.kind == 'call' and x.name == 'sink.push_back' and not x.guards]
            # the quote character is escaped; an escape character that differs from the quote character escapes itself
            want = [e, q] if c == q else ([e, e] if c == e else [c])
            site = U.site(fn, 'char=%r quote=%r escape=%r' % (chr(c), chr(q), chr(e)))
            if pushes == want: chk.ok('R18.2', site, {'written': pushes})
            else: chk.fail('R18.2', site, fn['file'], loop[0].get('l'), 'escape_string writes %s for %r (quote %r, escape %r), expected %s' % (pushes, chr(c), chr(q), chr(e), want), None, fn['q'])
    # ---- parser escaped_value accepts quote_char
    g = C.CFG(pfn['body'])
    ok = False
    for nd in g.rpo:
        if nd.kind == 'cond':
            cmp_ = G.comparison(nd.ast)
            if cmp_ and cmp_[0] == '==' and A.ref_name(cmp_[1]) == 'curr_char' and A.ref_name(cmp_[2]) == 'quote_char_':
                # under the escaped_value case, the true edge pushes the character
                under = any(e.src.kind == 'switch' and e.label[0] == 'case' and e.label[1] == inv.get('escaped_value') for a, lab, e in g.guards(nd) if e.src is not None and isinstance(e.label, tuple))
                te = [e for e in nd.succ if e.label is True]
                if under and te and any(x.kind == 'stmt' and any(A.callee_name(c) == 'push_back' for c in A.calls_in(x.ast)) for x in G.block_after(te[0])): ok = True
    site = U.site(pfn, 'escaped_value accepts quote_char')
    if ok: chk.ok('R18.2', site, {'verdict': 'escaped_value: curr_char == quote_char_ -> push'})
    else: chk.fail('R18.2', site, pfn['file'], pfn['l'], 'parser state escaped_value does not restore the quote character', None, pfn['q'])
    ok2 = False
    for nd in g.rpo:
        if nd.kind == 'cond':
            cmp_ = G.comparison(nd.ast)
            if cmp_ and cmp_[0] == '==' and A.ref_name(cmp_[1]) == 'curr_char' and A.ref_name(cmp_[2]) == 'quote_escape_char_':
                under = any(e.src.kind == 'switch' and e.label[0] == 'case' and e.label[1] == inv.get('escaped_value') for a, lab, e in g.guards(nd) if e.src is not None and isinstance(e.label, tuple))
                te = [e for e in nd.succ if e.label is True]
                if under and te and any(x.kind == 'stmt' and any(A.callee_name(c) == 'push_back' for c in A.calls_in(x.ast)) for x in G.block_after(te[0])): ok2 = True
    site = U.site(pfn, 'escaped_value accepts quote_escape_char')
    if ok2: chk.ok('R18.2', site, {'verdict': 'escaped_value: curr_char == quote_escape_char_ -> push'})
    else: chk.fail('R18.2', site, pfn['file'], pfn['l'], 'parser state escaped_value does not accept an escaped escape character: with quote_escape_char different from quote_char a field containing the escape character cannot be read back', None, pfn['q'])


def r18_7(chk, facts):
    """The encoder writes line_delimiter (any of \\n, \\r, \\r\\n); the parser must end a record on CR wherever it does on LF."""
    chk.rule('R18.7', 'CSV line terminators: every parser state whose character switch has a case for LF also has one for CR and vice versa '
                      '(comment, between_values, unquoted_string, expect_record, end_record), so a record is recognised under every line_delimiter '
                      'the encoder can write, whether its last field is quoted or not', floor=5)
    pf = [f for f in U.functions(facts, cls='basic_csv_parser', name='parse_some') if f.get('body') is not None]
    chk.require(pf, 'basic_csv_parser::parse_some not found')
    fn = pf[0]; chk.analysed(fn)
    en = U.enum_value_names(U.enum_by_suffix(facts, '::csv_parse_state'))
    n = 0
    for sw in A.walk_no_lambda(fn['body']):
        if sw.get('k') != 'SwitchStmt' or A.ref_name(sw.get('cond')) != 'state_': continue
        for labels, st in P.PEval.switch_items(sw['body']):
            names = [en.get(lo, '?') for lo, hi in labels if lo != 'default']
            inner = [y for y in A.walk_no_lambda(st) if y.get('k') == 'SwitchStmt' and 'curr_char' in A.text(y.get('cond'))] if st else []
            if not inner or not names: continue
            chars = set()
            for lb, s2 in P.PEval.switch_items(inner[0]['body']):
                for lo, hi in lb:
                    if lo != 'default': chars.update(range(lo, (hi if hi is not None else lo) + 1))
            if 10 not in chars and 13 not in chars: continue
            n += 1
            site = U.site(fn, 'state %s terminators' % '/'.join(names))
            if 10 in chars and 13 in chars: chk.ok('R18.7', site, {'state': names})
            else: chk.fail('R18.7', site, fn['file'], inner[0].get('l'), 'state %s handles %s but not %s: with line_delimiter "\\r" or "\\r\\n" a record that ends in this state is not terminated' % (
                '/'.join(names), 'LF' if 10 in chars else 'CR', 'CR' if 10 in chars else 'LF'), None, fn['q'])
    chk.require(n >= 5, 'R18.7: only %d states with a line terminator case found' % n)

OPTIONAL_CHARS = ('subfield_delimiter_', 'comment_starter_')     # default char_type(): "not set"

def r18_8(chk, facts):
    """An option character that is unset (char_type()) must not match a NUL in the data."""
    chk.rule('R18.8', 'CSV optional characters: every comparison of the current character with subfield_delimiter_ or comment_starter_ is reached '
                      'only under `<option> != char_type()` (both are off by default; a NUL in the data must neither split a field nor turn a '
                      'record into a comment)', floor=3)
    pf = [f for f in U.functions(facts, cls='basic_csv_parser', name='parse_some') if f.get('body') is not None]
    chk.require(pf, 'basic_csv_parser::parse_some not found')
    fn = pf[0]; chk.analysed(fn)
    g = C.CFG(fn['body'])
    n = 0
    for nd in g.rpo:
        if nd.kind != 'cond': continue
        c = G.comparison(nd.ast)
        if not c or c[0] != '==' or 'curr_char' not in A.text(nd.ast): continue
        opt = next((o for o in OPTIONAL_CHARS if o in (A.ref_name(c[1]), A.ref_name(c[2]))), None)
        if opt is None: continue
        n += 1
        ok = False
        for a, lab, e in g.guards(nd):
            c2 = G.comparison(a)
            if c2 and A.ref_name(c2[1]) == opt and ((c2[0] == '!=' and lab is True) or (c2[0] == '==' and lab is False)) and not A.ref_name(c2[2]): ok = True
        site = U.site(fn, '%s test#%d' % (opt, n))
        if ok: chk.ok('R18.8', site, {'line': nd.line})
        else: chk.fail('R18.8', site, fn['file'], nd.line, 'parse_some: `curr_char == %s` at line %s is not guarded by `%s != char_type()`: with the option unset a NUL character in the data is taken for it' % (opt, nd.line, opt), None, fn['q'])
    chk.require(n >= 3, 'R18.8: only %d optional-character comparisons found' % n)

def r18_6(chk, facts):
    """Type inference applies to unquoted fields only."""
    chk.rule('R18.6', 'CSV type inference: every end_value() of end_quoted_string_value passes infer_types = false (a quoted field stays a string), '
                      'every end_value() of end_unquoted_string_value passes the infer_types_ option', floor=4)
    n = 0
    for fname, want in (('end_quoted_string_value', 'false'), ('end_unquoted_string_value', 'infer_types_')):
        fns = [f for f in U.functions(facts, cls='basic_csv_parser', name=fname) if f.get('body') is not None]
        chk.require(fns, 'basic_csv_parser::%s not found' % fname)
        for fn in U.one_per_inst(fns)[:1]:
            chk.analysed(fn)
            # the two functions may share their body through a helper that is told whether the field was quoted (E11: the constant
            # argument is substituted, `quoted ? false : infer_types_` folds to the operand it selects)
            fn = I.expand(facts, fn, allow=lambda callee, call: callee['n'] != 'end_value', depth=3)
            al = A.pure_aliases(fn['body'], allow_const_calls=True)
            inlined = set(id(y['call']) for y in A.walk_no_lambda(fn['body']) if y.get('k') == 'InlinedCall' and isinstance(y.get('call'), dict))
            k = 0
            for call in A.calls_in(fn['body'], no_lambda=True):
                if A.callee_name(call) != 'end_value' or id(call) in inlined: continue
                callee = facts.callee(fn, call)
                idx = next((i for i, p_ in enumerate((callee or {}).get('params') or []) if p_['n'] == 'infer_types'), 1)
                args = call.get('args') or []
                a = args[idx] if idx < len(args) else None
                for _ in range(3):
                    sa = A.strip(a, casts=True) if a is not None else None
                    if sa is not None and sa.get('k') == 'DeclRefExpr' and sa.get('id') in al: a = al[sa['id']]
                k += 1; n += 1
                site = U.site(fn, 'end_value#%d infer_types' % k)
                got = 'false' if (a is not None and A.const(a) == 0) else ('true' if (a is not None and A.const(a) == 1) else (A.ref_name(a) or A.text(a)))
                if got == want: chk.ok('R18.6', site, {'argument': got})
                else: chk.fail('R18.6', site, fn['file'], call.get('l'), '%s passes infer_types = %s to end_value(); %s' % (
                    fname, got, 'a quoted field would be turned into a number/boolean/null and no longer round-trip as a string' if want == 'false' else 'unquoted fields follow the infer_types option'), None, fn['q'])
    chk.require(n >= 4, 'R18.6: only %d end_value calls found' % n)

# ---------------------------------------------------------------------------------------------------------------- TOON
def char_loop(fn):
    """(loop statement, name of the per-character variable) of a character-wise writer."""
    for x in A.walk_no_lambda(fn['body']):
        if x.get('k') == 'CXXForRangeStmt' and x.get('var'):
            return x, (x['var'].get('n'), x['var'].get('id'))
        if x.get('k') == 'ForStmt':
            for y in A.walk_no_lambda(x.get('body')):
                if y.get('k') == 'DeclStmt':
                    for d in y.get('decls') or []:
                        if d.get('init') is not None and any(z.get('k') == 'UnaryOperator' and z.get('op') == '*' or
                                                             (z.get('k') == 'CXXOperatorCallExpr' and z.get('oop') == '*') for z in A.walk(d['init'])):
                            return x, (d.get('n'), None)
            return x, None
    return None, None

def writer_table(chk, facts, fn, env):
    """c -> (unguarded pushes, all pushes) for c in 0..255."""
    from .c01 import esc_pure
    loop, var = char_loop(fn)
    chk.require(loop is not None and var, '%s: character loop not found' % fn['q'])
    out = {}
    for c in range(256):
        cv = c if c < 128 else c - 256
        pe = P.PEval(facts, fn, pure=esc_pure, bind={var[0]: cv}, max_depth=1)
        e0 = dict(env)
        if var[1] is not None: e0[var[1]] = cv
        try:
            pe.exec_stmt(loop['body'], e0, (), 0)
        except P.Stop:
            chk.broken('R18.3: effect budget exhausted in %s' % fn['q'])
        pushes = [e for e in pe.effects if e.kind == 'call' and e.name.endswith('.push_back')]
        out[c] = ([e.args[0] for e in pushes if not e.guards], [e.args[0] for e in pushes], pushes[0].line if pushes else loop.get('l'))
    return out

def reader_escape_table(chk, facts):
    fns = [f for f in facts.functions if f['n'] == 'unescape_string' and f['file'].endswith('toon_reader.hpp') and f.get('body') is not None and not f.get('dep')]
    chk.require(fns, 'toon unescape_string not found')
    fn = fns[0]
    chk.analysed(fn)
    # the block that dispatches on the character after the backslash: a char local compared with constants (if chain or switch)
    best = None
    for blk in A.walk_no_lambda(fn['body']):
        if blk.get('k') != 'CompoundStmt': continue
        names = [d.get('n') for c in blk.get('c') or [] if c.get('k') == 'DeclStmt' for d in c.get('decls') or []]
        for v in names:
            tests = 0
            for c in blk.get('c') or []:
                if c.get('k') == 'IfStmt':
                    cmp_ = G.comparison(c.get('cond'))
                    if cmp_ and cmp_[0] == '==' and A.ref_name(cmp_[1]) == v and A.const(cmp_[2]) is not None: tests += 1
                if c.get('k') == 'SwitchStmt' and A.ref_name(c.get('cond')) == v: tests += 2
            if tests >= 2: best = (blk, v, None)
        # or a switch directly on the character expression (`switch (*(cur+1))`) with character constants as labels
        for c in blk.get('c') or []:
            if best is None and c.get('k') == 'SwitchStmt' and not A.ref_name(c.get('cond')):
                labels = [lab for labs, st in P.PEval.switch_items(c.get('body')) for lab in (labs or []) if lab[0] != 'default']
                if len(labels) >= 3 and any(y.get('k') == 'UnaryOperator' and y.get('op') == '*' for y in A.walk(c.get('cond'))): best = (blk, None, c.get('cond'))
    chk.require(best is not None, 'toon unescape_string: dispatch on the escaped character not found')
    blk, v, cexpr = best
    table = {}
    for x in range(256):
        xv = x if x < 128 else x - 256
        pe = P.PEval(facts, fn, bind=({v: xv} if v else {}), max_depth=1)
        if cexpr is not None:
            for y in A.walk(cexpr): pe.expr_values[id(y)] = xv      # the operand and the casts around it
        r = pe.exec_stmt(blk, {}, (), 0)
        stores = [e for e in pe.effects if e.kind == 'set' and e.name.startswith('*') and not e.guards and e.args and isinstance(e.args[0], int)]
        rejects = [e for e in pe.effects if e.kind == 'return' and not e.guards]
        if stores and not rejects: table[x] = stores[0].args[0] & 0xff
    return fn, table

def r18_11(chk, facts):
    """The events the CSV parser caches for column-oriented output keep their kind."""
    chk.rule('R18.11', 'cached CSV events: each value constructor of csv parse_event stores its `value` argument in the member of the same name '
                       'as the staj_events enumerator it records (uint64_value(value) with staj_events::uint64_value ...), and replay() '
                       'reads, in the case of each enumerator, the member of that name; a mismatch reinterprets the union (a cached unsigned '
                       'column value is replayed through the signed member)', floor=10)
    ctors = {}
    for f in sorted(facts.functions, key=lambda f: bool(f.get('dep'))):
        if f.get('fk') == 'CXXConstructor' and A.strip_targs(f.get('cls') or '').endswith('::parse_event') and f['file'].endswith('csv_parser.hpp') and f.get('inits') and f.get('params'):
            ctors.setdefault((f['file'], f['l']), f)
    n = 0
    for key, f in sorted(ctors.items()):
        vp = f['params'][0]
        inits = {i.get('m'): i.get('init') for i in f['inits'] if i.get('m')}
        et = inits.get('event_type')
        en = next((y.get('n') for y in A.walk(et) if y.get('k') == 'DeclRefExpr' and y.get('dk') == 'EnumConstant'), None) if et is not None else None
        if en is None: continue       # the generic (event_type, tag, alloc) constructor
        holder = [m for m, e in inits.items() if m not in ('event_type', 'tag') and any(y.get('k') == 'DeclRefExpr' and y.get('id') == vp['id'] for y in A.walk(e))]
        n += 1
        chk.analysed(f)
        site = U.site(f, 'parse_event(%s ...)' % f['_types'][vp['t'] - 1][:30])
        if holder == [en]: chk.ok('R18.11', site, {'event': en})
        else: chk.fail('R18.11', site, f['file'], f['l'], 'parse_event constructor at line %s records staj_events::%s but stores its value in %s' % (f['l'], en, holder or 'no member'), None, f['q'])
    # replay(): case X reads member X
    rp = [f for f in facts.functions if f['n'] == 'replay' and A.strip_targs(f.get('cls') or '').endswith('::parse_event') and f['file'].endswith('csv_parser.hpp') and f.get('body') is not None]
    rp = [f for f in rp if not f.get('dep')] or rp
    chk.require(rp, 'csv parse_event::replay not found')
    fn = rp[0]; chk.analysed(fn)
    en_names = dict((v, k) for k, v in U.enum_by_suffix(F.load(['core'], 'quick'), '::staj_events')['values'])
    for sw in A.walk_no_lambda(fn['body']):
        if sw.get('k') != 'SwitchStmt': continue
        cur = None
        for labels, st in P.PEval.switch_items(sw.get('body')):
            if labels: cur = [en_names.get(lo) for lo, hi in labels if lo != 'default']
            if st is None or not cur or len(cur) != 1 or not cur[0].endswith('_value'): continue
            mems = set(y.get('n') for y in A.walk_no_lambda(st) if y.get('k') == 'MemberExpr' and y.get('n', '').endswith('_value') and y.get('dk') == 'Field')
            if not mems: continue
            n += 1
            site = U.site(fn, 'replay case %s' % cur[0])
            if mems == {cur[0]}: chk.ok('R18.11', site, None)
            else: chk.fail('R18.11', site, fn['file'], st.get('l'), 'replay(): the case staj_events::%s reads the member(s) %s' % (cur[0], sorted(mems)), None, fn['q'])
    chk.require(n >= 10, 'R18.11: only %d constructor/replay sites found' % n)

def r18_12(chk, facts):
    """Inside quotes a backslash takes the next character with it, whatever it is."""
    chk.rule('R18.12', 'TOON quoted scanning: in every scanner of the reader that tracks an in-quotes flag (find_unquoted_char, parse_key, the '
                       'parse_delimited_values overloads) the branch that skips an escaped character is taken for a backslash inside quotes '
                       'with no condition on the character that follows (only a bounds test may accompany it): `"a\\\\"` ends at its last quote '
                       'only if the escaped backslash is skipped as a pair', floor=4)
    n = 0; seen = set()
    for fn in facts.functions:
        if fn.get('body') is None or fn.get('dep') or not fn['file'].endswith('toon_reader.hpp') or fn['n'] == 'unescape_string': continue
        for x in A.walk_no_lambda(fn['body']):
            if x.get('k') != 'IfStmt': continue
            atoms = []
            def flat(e):
                e = A.strip(e, casts=True)
                if e is not None and e.get('k') == 'BinaryOperator' and e.get('op') == '&&': flat(e.get('lhs')); flat(e.get('rhs'))
                elif e is not None: atoms.append(e)
            flat(x.get('cond'))
            def is_bs(a):
                c = G.comparison(a)
                return bool(c) and c[0] == '==' and 0x5c in (A.const(c[1]), A.const(c[2]))
            if not any(is_bs(a) for a in atoms): continue
            if not any(a.get('k') == 'DeclRefExpr' and 'bool' in fn['_types'][a['t'] - 1] for a in atoms): continue    # not an in-quotes scanner
            key = (fn['file'], x.get('l'))
            if key in seen: continue
            seen.add(key); n += 1
            chk.analysed(fn)
            extra = []
            for a in atoms:
                if is_bs(a): continue
                if a.get('k') == 'DeclRefExpr' and 'bool' in fn['_types'][a['t'] - 1]: continue
                if any(A.callee_name(y) in ('size', 'length') for y in A.calls_in(a)) and G.comparison(a) and G.comparison(a)[0] in ('<', '<=', '>', '>=', '!='): continue
                extra.append(A.text(a)[:50])
            site = U.site(fn, 'escaped character skip at line %s' % x.get('l'))
            if not extra: chk.ok('R18.12', site, None)
            else: chk.fail('R18.12', site, fn['file'], x.get('l'), '%s skips the character after a backslash inside quotes only when `%s`: an escaped backslash is then read as two '
                           'single characters and the quote after it does not close the string' % (fn['n'], ' && '.join(extra)), None, fn['q'])
    chk.require(n >= 4, 'R18.12: only %d quoted-scanner escape branches found in toon_reader.hpp' % n)

def r18_10(chk, facts, ufn, rejected, empty_rejected, front_rejected):
    """Language inclusion between the reader's number scanner and the encoder's number recogniser (engine E10)."""
    chk.rule('R18.10', 'TOON number recognisers: every token that the reader number scanner (the state loop of parse_primitive) lets through as '
                       'numeric is a token the encoder never writes for a string: is_number() accepts it, or is_unquoted_safe rejects it '
                       'for its first character or for being empty.  Decided on the reachable product of the two scanner automata, both '
                       'extracted from the source (one abstract evaluation of the loop body per configuration and character class)', floor=12)
    enc = [f for f in facts.functions if f['n'] == 'is_number' and f['file'].endswith('encode_toon.hpp') and f.get('body') is not None and not f.get('dep')]
    rd = [f for f in facts.functions if f['n'] == 'parse_primitive' and f['file'].endswith('toon_reader.hpp') and f.get('body') is not None and not f.get('dep')]
    chk.require(enc and rd, 'toon is_number / parse_primitive not found')
    enc, rd = enc[0], rd[0]
    chk.analysed(enc); chk.analysed(rd)
    ie, ir = S.find_scanner_loop(enc), S.find_scanner_loop(rd)
    chk.require(ie is not None, 'is_number: scanner loop (index < size, switch over a state) not found')
    chk.require(ir is not None, 'parse_primitive: number scanner loop not found')
    # is_unquoted_safe must be the caller of the recogniser on the whole string
    try:
        SE, SR = S.Scanner(enc, ie), S.Scanner(rd, ir)
        flag = None
        for y in A.walk(SR.loop['cond']):
            if y.get('k') == 'UnaryOperator' and y.get('op') == '!':
                s_ = A.strip(y.get('sub'), casts=True)
                if s_ is not None and s_.get('k') == 'DeclRefExpr': flag = s_['id']
        chk.require(flag is not None, 'parse_primitive: the loop condition has no `!flag` conjunct (the not-a-number flag)')
        def at(st):
            if st.get('k') != 'IfStmt': return False
            c = A.strip(st.get('cond'), casts=True)
            return c is not None and c.get('k') == 'DeclRefExpr' and c.get('id') == flag
        # counters are capped at 1: exact only if the scanner region compares them with 0 only
        region = [SR.loop]
        for st in SR.block['c'][SR.block['c'].index(SR.loop) + 1:]:
            if at(st): break
            region.append(st)
        badc = SR.check_counter_uses(region) + SE.check_counter_uses([SE.loop])
        chk.require(not badc, 'number scanner compares a counter with something other than zero: %s' % badc)
        def va(Sc, r):
            if r[0] == 'return': raise S.Undecided('parse_primitive returns from inside the number loop')
            res = Sc.finish(r[1], at)
            if res[0] != 'at': raise S.Undecided('parse_primitive: `if (%s)` not reached after the loop' % Sc.names.get(flag))
            v = res[2].get(flag)
            if not isinstance(v, int): raise S.Undecided('value of the not-a-number flag unknown after the loop')
            return not v
        def vb(Sc, r):
            if r[0] == 'return': return bool(r[1])
            res = Sc.finish(r[1], None)
            if res[0] != 'return' or not isinstance(res[1], int): raise S.Undecided('is_number: return value after the loop not decided')
            return bool(res[1])
        ks = SE.char_constants() | SR.char_constants()
        # strings containing a character that is_unquoted_safe rejects anywhere, white space or control characters are quoted for that reason
        cand = [c for c in range(33, 127) if c not in rejected]
        sigma = S.alphabet(ks, cand)
        bad, explored, seen = S.inclusion(SR, SE, sigma, va, vb)
    except S.Undecided as ex:
        chk.broken('R18.10: scanner extraction undecided: %s' % ex)
        return
    rs = U.enum_value_names(U.enum_by_suffix(facts, '::parse_number_state'))
    es = U.enum_value_names(U.enum_by_suffix(facts, '::is_number_state'))
    pairs = {}
    for st in seen:
        ka, kb = st[0], st[1]
        if (ka and ka[0] == 'done') or (kb and kb[0] == 'done'): continue
        pairs.setdefault((rs.get(SR.state_of(ka), '?'), es.get(SE.state_of(kb), '?')), 0)
        pairs[(rs.get(SR.state_of(ka), '?'), es.get(SE.state_of(kb), '?'))] += 1
    chk.note('R18.10: alphabet classes %s; %d product configurations explored; %d reader and %d encoder loop-body evaluations; excluded: empty=%s, first character in %s' % (
        [chr(c) for c in sigma], explored, SR.steps, SE.steps, empty_rejected, sorted(chr(c) for c in front_rejected)))
    def excluded(word, first):
        if word == '' and first is None: return empty_rejected
        return first in front_rejected
    real = [b for b in bad if not excluded(b[0], b[3])]
    words = sorted(set(b[0] for b in real), key=lambda w: (len(w), w))
    for (r, e), n in sorted(pairs.items()):
        chk.ok('R18.10', U.site(rd, 'reader state %s with encoder state %s' % (r, e)), {'configurations': n})
    groups = {}
    for b in sorted(real, key=lambda b: (len(b[0]), b[0])):
        groups.setdefault((b[1], b[2]), []).append(b)
    def nm(desc, table):
        import re as _re
        m = _re.search(r'state=(\d+)', desc)
        return table.get(int(m.group(1)), m.group(1)) if m else desc
    for (da, db), bs in sorted(groups.items(), key=lambda kv: (len(kv[1][0][0]), kv[1][0][0]))[:12]:
        b = bs[0]; w = b[0]
        chk.fail('R18.10', U.site(rd, 'reader stops in %s (%s), encoder in %s' % (nm(da, rs), ' '.join(x for x in da.split() if not x.startswith('state=') and not x.endswith('=0') and not x.endswith('=False')), nm(db, es))),
                 rd['file'], SR.loop.get('l'),
                 'the string "%s"%s is written unquoted (is_number() rejects it, final state %s) but the reader number scanner does not reject it (final state %s): '
                 'unless both numeric conversions then fail it comes back as a number, not as the string.  Same shape: %s' % (
                     w, '' if b[4] else ' (with any continuation)', nm(db, es), nm(da, rs), ', '.join('"%s"' % x[0] for x in bs[1:6]) or '-'),
                 {'word': w, 'reader': da, 'encoder': db, 'other_words': words[:40]}, rd['q'])

def toon_rules(chk, tier):
    facts = F.load(['toon'], tier)
    chk.rule('R18.3', 'TOON escapes: every character the quoted-string writer emits (raw or as backslash + letter) is read back to the same '
                      'character by the reader unescape table', floor=512)
    chk.rule('R18.4', 'TOON quoting: is_unquoted_safe rejects every string the reader would not return unchanged as a string (structural '
                      'characters, leading quote, literal words, numbers, empty, outer white space)', floor=10)
    rfn, rtable = reader_escape_table(chk, facts)
    chk.require(len(rtable) >= 2 and rtable.get(0x5c) == 0x5c and rtable.get(0x22) == 0x22, 'toon unescape table does not restore backslash and quote: %s' % rtable)
    chk.note('toon reader escape table: %s' % {chr(k): v for k, v in sorted(rtable.items())})
    n = 0
    for wname in ('encode_string', 'encode_key'):
        ws = [f for f in facts.functions if f['n'] == wname and f['file'].endswith('encode_toon.hpp') and f.get('body') is not None and not f.get('dep')]
        chk.require(ws, 'toon %s not instantiated' % wname)
        for fn in U.one_per_inst(ws):
            chk.analysed(fn)
            sinks = [p['n'] for p in fn['params'] if p['n'] == 'sink' or 'Sink' in fn['_types'][p['t'] - 1]]
            writers = []
            for call in A.calls_in(fn['body'], no_lambda=True):
                callee = facts.callee(fn, call)
                if callee is None or callee.get('body') is None: continue
                if not any(A.ref_name(a) in sinks for a in call.get('args') or []): continue
                if char_loop(callee)[0] is None: continue
                writers.append((call, callee))
            chk.require(writers, 'toon %s: quoted-string writer call not found' % wname)
            for call, callee in writers:
                chk.analysed(callee)
                env = {}
                for p, a in zip(callee['params'], call.get('args') or []):
                    v = A.const(a)
                    if v is not None: env[p['id']] = v
                wt = writer_table(chk, facts, callee, env)
                for c in range(256):
                    ung, seq, line = wt[c]
                    cv = c if c < 128 else c - 256
                    chs = repr(chr(c)) if 32 <= c < 127 else '0x%02x' % c
                    site = U.site(fn, '%s char=%s' % (A.strip_targs(callee['q']).split('::')[-1], chs))
                    n += 1
                    if ung == [cv] and len(seq) == 1 and c not in (0x22, 0x5c):
                        chk.ok('R18.3', site, {'char': chs, 'written': 'raw'} if c in (0x41, 0x01) else None)
                    elif len(ung) == 2 and len(seq) == 2 and ung[0] == 0x5c and rtable.get(ung[1] & 0xff) == c:
                        chk.ok('R18.3', site, {'char': chs, 'written': '\\' + chr(ung[1])})
                    else:
                        shown = ''.join(chr(x & 0xff) if 32 <= (x & 0xff) < 127 else '\\x%02x' % (x & 0xff) for x in seq[:6] if isinstance(x, int))
                        why = 'the reader rejects the escape letter %r' % chr(seq[1] & 0xff) if len(seq) >= 2 and seq[0] == 0x5c and isinstance(seq[1], int) and (seq[1] & 0xff) not in rtable \
                              else 'the reader does not give %s back' % chs
                        chk.fail('R18.3', site, callee['file'], line, 'TOON %s writes character %s inside quotes as "%s..."; %s (accepted escapes: %s)' % (
                            wname, chs, shown, why, ' '.join(chr(k) for k in sorted(rtable))), {'char': chs, 'written': seq[:6], 'reader_escapes': sorted(rtable)}, callee['q'])
    # ---- R18.4
    us = [f for f in facts.functions if f['n'] == 'is_unquoted_safe' and f['file'].endswith('encode_toon.hpp') and f.get('body') is not None and not f.get('dep')]
    chk.require(us, 'toon is_unquoted_safe not found')
    ufn = us[0]; chk.analysed(ufn)
    # the writer must consult it: encode_string writes raw only under is_unquoted_safe
    loop, var = char_loop(ufn)
    chk.require(loop is not None and var, 'is_unquoted_safe: character loop not found')
    rejected = set(); delim_guarded = False
    for c in range(256):
        cv = c if c < 128 else c - 256
        pe = P.PEval(facts, ufn, bind={var[0]: cv}, max_depth=1)
        pe.exec_stmt(loop['body'], {var[1]: cv} if var[1] is not None else {}, (), 0)
        for e in pe.effects:
            if e.kind == 'return' and e.extra.get('value') == 0:
                if not e.guards: rejected.add(c)
                elif all('delimiter' in g for g in e.guards): delim_guarded = True
    # reader structural characters: constant targets of find_unquoted_char, and the leading quote of parse_primitive
    structural = {}
    for f in facts.functions:
        if not f['file'].endswith('toon_reader.hpp') or f.get('body') is None or f.get('dep'): continue
        for call in A.calls_in(f['body'], no_lambda=True):
            if A.callee_name(call) == 'find_unquoted_char':
                args = call.get('args') or []
                if len(args) >= 2 and A.const(args[1]) is not None: structural.setdefault(A.const(args[1]), (f, call.get('l')))
    chk.require(len(structural) >= 2, 'toon reader: find_unquoted_char call sites with constant targets not found')
    pp = [f for f in facts.functions if f['n'] == 'parse_primitive' and f['file'].endswith('toon_reader.hpp') and f.get('body') is not None and not f.get('dep')]
    chk.require(pp, 'toon parse_primitive not found')
    pfn = pp[0]; chk.analysed(pfn)
    for call in A.calls_in(pfn['body'], no_lambda=True):
        if A.callee_name(call) == 'starts_with' and len(call.get('args') or []) >= 2 and A.const(call['args'][1]) is not None:
            structural.setdefault(A.const(call['args'][1]), (pfn, call.get('l')))
    for k, (f, l) in sorted(structural.items()):
        site = U.site(ufn, 'rejects structural %r' % chr(k))
        if k in rejected: chk.ok('R18.4', site, {'reader_use': '%s:%s' % (f['file'], l)})
        else: chk.fail('R18.4', site, ufn['file'], ufn['l'], 'a string containing %r is written unquoted, but the reader treats %r outside quotes as structure (%s:%s)' % (
            chr(k), chr(k), f['file'], l), {'rejected': sorted(rejected)}, ufn['q'])
    site = U.site(ufn, 'rejects the active delimiter')
    if delim_guarded: chk.ok('R18.4', site, None)
    else: chk.fail('R18.4', site, ufn['file'], ufn['l'], 'is_unquoted_safe does not reject a string containing the active delimiter', None, ufn['q'])
    # literal words of the reader: chains token[i] == 'x' in one condition
    words = {}
    for x in A.walk_no_lambda(pfn['body']):
        if x.get('k') != 'IfStmt': continue
        letters = {}
        for y in A.walk(x.get('cond')):
            cmp_ = G.comparison(y) if y.get('k') == 'BinaryOperator' else None
            if cmp_ and cmp_[0] == '==' and A.const(cmp_[2]) is not None:
                l = A.strip(cmp_[1], casts=True)
                if l is not None and l.get('k') in ('CXXOperatorCallExpr', 'ArraySubscriptExpr'):
                    idx = [A.const(a) for a in (l.get('args') or [l.get('rhs')]) if a is not None and A.const(a) is not None]
                    if idx: letters[idx[-1]] = A.const(cmp_[2])
        if len(letters) >= 3 and sorted(letters) == list(range(len(letters))):
            words[''.join(chr(letters[i]) for i in range(len(letters)))] = x.get('l')
    chk.require(len(words) >= 3, 'toon parse_primitive: literal word tests not found (%s)' % words)
    enc_words = set()
    for x in A.walk_no_lambda(ufn['body']):
        if x.get('k') in A.CALLS and x.get('oop') == '==' or (x.get('k') in A.CALLS and A.callee_name(x) == 'operator=='):
            for a in x.get('args') or []:
                for z in A.walk(a):
                    if z.get('k') == 'StringLiteral': enc_words.add(z.get('s'))
                    if z.get('k') == 'DeclRefExpr' and z.get('dk') == 'Var':
                        v = next((v for v in facts.vars if v.get('q') == z.get('q') and v.get('init') is not None), None)
                        for w in A.walk(v['init']) if v else ():
                            if w.get('k') == 'StringLiteral': enc_words.add(w.get('s'))
    for w, l in sorted(words.items()):
        site = U.site(ufn, 'rejects literal %s' % w)
        if w in enc_words: chk.ok('R18.4', site, {'reader_line': l})
        else: chk.fail('R18.4', site, ufn['file'], ufn['l'], 'the string "%s" is written unquoted, the reader (line %s) returns it as a literal, not a string' % (w, l), {'encoder_words': sorted(enc_words)}, ufn['q'])
    # number / empty / outer white space: return false under each
    g = C.CFG(ufn['body'])
    need = {'is_number': False, 'empty': False, 'front-space': False, 'back-space': False}
    front_rejected = set()      # characters c with `if (str.front() == c) return false`
    for nd in g.rpo:
        if nd.kind != 'cond': continue
        te = [e for e in nd.succ if e.label is True]
        if not te: continue
        rets = [x for x in G.block_after(te[0]) if x.kind == 'return' and A.const(x.ast.get('val')) == 0] if hasattr(G, 'block_after') else []
        if not rets: continue
        for y in A.walk(nd.ast):
            cmp_ = G.comparison(y) if y.get('k') == 'BinaryOperator' else None
            if cmp_ and cmp_[0] == '==' and A.const(cmp_[2]) is not None and A.strip(nd.ast, casts=True) is y:
                l = A.strip(cmp_[1], casts=True)
                if l is not None and l.get('k') == 'CXXMemberCallExpr' and A.callee_name(l) == 'front': front_rejected.add(A.const(cmp_[2]))
        for call in A.calls_in(nd.ast):
            cn = A.callee_name(call)
            if cn == 'is_number': need['is_number'] = True
            if cn == 'empty': need['empty'] = True
            if cn == 'isspace':
                inner = [A.callee_name(z) for a in call.get('args') or [] for z in A.calls_in(a)]
                if 'front' in inner: need['front-space'] = True
                if 'back' in inner: need['back-space'] = True
    for k, v in sorted(need.items()):
        site = U.site(ufn, 'rejects %s' % k)
        if v: chk.ok('R18.4', site, None)
        else: chk.fail('R18.4', site, ufn['file'], ufn['l'], 'is_unquoted_safe has no `return false` under the %s test; the reader would not return such a string unchanged' % k, None, ufn['q'])
    r18_10(chk, facts, ufn, rejected, need['empty'], front_rejected)
    r18_12(chk, facts)
    # encode_string writes raw only under is_unquoted_safe
    for fn in U.one_per_inst([f for f in facts.functions if f['n'] == 'encode_string' and f['file'].endswith('encode_toon.hpp') and f.get('body') is not None and not f.get('dep')]):
        g2 = C.CFG(fn['body'])
        for nd in g2.rpo:
            if nd.kind != 'stmt': continue
            for call in A.calls_in(nd.ast):
                if A.callee_name(call) == 'append':
                    gs = [(A.callee_name(c2), lab) for a, lab, e in g2.guards(nd) for c2 in A.calls_in(a)]
                    site = U.site(fn, 'raw append under is_unquoted_safe')
                    if ('is_unquoted_safe', True) in gs: chk.ok('R18.4', site, None)
                    else: chk.fail('R18.4', site, fn['file'], call.get('l'), 'encode_string copies the string unquoted outside the is_unquoted_safe() test', None, fn['q'])

    # ---- R18.5: the quoting decision sees the delimiter in force
    chk.rule('R18.5', 'TOON active delimiter: every call of encode_primitive / encode_string / is_unquoted_safe passes a run-time delimiter '
                      '(never a literal or the default argument), so a field containing the delimiter in force is quoted', floor=10)
    n5 = 0; seen5 = set()
    for fn in facts.functions:
        if not fn['file'].endswith('encode_toon.hpp') or fn.get('body') is None or fn.get('dep') or (fn['file'], fn['l']) in seen5: continue
        seen5.add((fn['file'], fn['l']))
        k5 = 0
        for call in A.calls_in(fn['body'], no_lambda=True):
            nm = A.callee_name(call)
            if nm not in ('encode_primitive', 'encode_string', 'is_unquoted_safe'): continue
            callee = facts.callee(fn, call)
            if callee is None: continue
            idx = next((i for i, p_ in enumerate(callee.get('params') or []) if p_['n'] == 'delimiter'), None)
            if idx is None: continue
            args = call.get('args') or []
            a = args[idx] if idx < len(args) else None
            k5 += 1; n5 += 1
            site = U.site(fn, '%s call#%d delimiter' % (nm, k5))
            s5 = A.strip(a, casts=True) if a is not None else None
            if a is None or (s5 is not None and s5.get('k') == 'CXXDefaultArgExpr'):
                chk.fail('R18.5', site, fn['file'], call.get('l'), '%s is called without a delimiter (default \',\'): a field containing the delimiter in force is not quoted' % nm, None, fn['q'])
            elif A.const(a) is not None:
                chk.fail('R18.5', site, fn['file'], call.get('l'), '%s is called with the literal delimiter %r instead of the delimiter in force' % (nm, chr(A.const(a) & 0xff)), None, fn['q'])
            else:
                chk.ok('R18.5', site, {'argument': A.text(a)[:40]} if k5 == 1 else None)
    chk.require(n5 >= 10, 'R18.5: only %d delimiter-taking calls found in encode_toon.hpp' % n5)

    # ---- R18.9: every array header declares a non-default delimiter
    chk.rule('R18.9', 'TOON array headers: every `[N]` header written by the encoder carries the delimiter marker when the delimiter in force is '
                      'not the comma (`if (delimiter != \',\') push_back(delimiter)` between `[`+size and `]`); the reader splits the rows by the '
                      'delimiter the header declares', floor=3)
    n9 = 0; seen9 = set()
    for fn in facts.functions:
        if not fn['file'].endswith('encode_toon.hpp') or fn.get('body') is None or fn.get('dep') or (fn['file'], fn['l']) in seen9: continue
        closes = []
        g9 = None
        for x in A.walk_no_lambda(fn['body']):
            if x.get('k') in A.CALLS and A.callee_name(x) == 'push_back' and A.ref_name(x.get('obj')) == 'sink' and x.get('args') and A.const(x['args'][0]) == 0x5d: closes.append(x)
        if not closes: continue
        seen9.add((fn['file'], fn['l']))
        chk.analysed(fn)
        g9 = C.CFG(fn['body'])
        marks = []
        for nd in g9.rpo:
            if nd.kind != 'cond': continue
            c9 = G.comparison(nd.ast)
            # `delimiter != ','` or `options.delimiter() != toon_delimiter_kind::comma`
            if c9 and c9[0] in ('!=', '==') and 'delimiter' in A.text(c9[1]) and (A.const(c9[2]) == 0x2c or 'comma' in A.text(c9[2])):
                te = [e for e in nd.succ if e.label is (c9[0] == '!=')]
                if te and any(isinstance(m.ast, dict) and any(A.callee_name(cc) == 'push_back' and cc.get('args') and A.ref_name(cc['args'][0]) == 'delimiter' for cc in A.calls_in(m.ast)) for m in G.region_of_edge(g9, te[0])):
                    marks.append(nd)
        for i, x in enumerate(closes):
            nd = g9.node_of(x)
            n9 += 1
            site = U.site(fn, 'array header close#%d' % (i + 1))
            opens = [m for m in g9.rpo if m.kind == 'stmt' and isinstance(m.ast, dict) and any(A.callee_name(cc) == 'push_back' and cc.get('args') and A.const(cc['args'][0]) == 0x5b for cc in A.calls_in(m.ast)) and nd is not None and g9.dominates(m, nd)]
            ok = nd is not None and any(g9.dominates(mk, nd) and any(g9.dominates(o, mk) for o in opens) for mk in marks)
            if ok: chk.ok('R18.9', site, {'line': x.get('l')})
            else: chk.fail('R18.9', site, fn['file'], x.get('l'), '%s: the array header closed at line %s does not declare the delimiter in force: rows written with "|" or a tab are split by the reader at commas' % (fn['n'], x.get('l')), None, fn['q'])
    chk.require(n9 >= 3, 'R18.9: only %d array header writers found' % n9)
