#include <jsoncons/json.hpp>
#include <jsoncons/json_cursor.hpp>
#include <jsoncons/json_reader.hpp>
#include <iostream>
using namespace jsoncons;
int main(){
  const char* inputs[] = {"\"abc", "12.", "nul", "[1,2", "{\"a\":", "tru", "-", "1e"};
  int bad=0;
  for (auto in_ : inputs) { std::string in(in_);
    std::error_code ec1, ec2;
    { json_decoder<json> dec; json_string_reader r(in, dec); r.read(ec1); }
    { json_string_cursor c(in, ec2); while (!ec2 && !c.done()) c.next(ec2); }
    std::cout << in << " : reader=" << ec1.message() << " | cursor=" << ec2.message() << "\n";
    if (bool(ec1) != bool(ec2)) ++bad;
  }
  std::cout << "bad=" << bad << "\n"; return bad?1:0;
}
