// instantiation driver: jmespath
#include <jsoncons/json.hpp>
#include <jsoncons_ext/jmespath/jmespath.hpp>
namespace jsoncons { namespace jmespath { namespace detail {
template class jmespath_evaluator<json>;
}}}
void jcsa_use_jmespath(const jsoncons::json& j, const jsoncons::ojson& oj, const std::string& p)
{
    using namespace jsoncons;
    json r = jmespath::search(j, p);
    std::error_code ec;
    json r2 = jmespath::search(j, p, ec);
    auto e = jmespath::make_expression<json>(p);
    json r3 = e.evaluate(j);
    json r4 = e.evaluate(j, ec);
    auto e2 = jmespath::make_expression<ojson>(p, ec);
    ojson r5 = e2.evaluate(oj);
    std::map<std::string, json> params;
    json r6 = e.evaluate(j, params, ec);
}
