#!/usr/bin/env python3
"""Exploratory probe (design phase): for every x.cast<S_storage>() in basic_json<char,sorted_policy>,
report the innermost enclosing guard idiom (case label / if condition / none).
usage: probe_casts.py dump2.json"""
import json, sys, collections
def load(path):
    s=open(path).read(); dec=json.JSONDecoder(); i=0; out=[]
    while i<len(s):
        while i<len(s) and s[i].isspace(): i+=1
        if i>=len(s): break
        o,j=dec.raw_decode(s,i); out.append(o); i=j
    return out
def kids(n): return [c for c in (n.get('inner') or []) if isinstance(c,dict)]
def find(n,pred,out):
    if pred(n): out.append(n)
    for c in kids(n): find(c,pred,out)
    return out
STOR={'null_storage':'null','empty_object_storage':'empty_object','bool_storage':'boolean','int64_storage':'int64','uint64_storage':'uint64','half_storage':'half_float','double_storage':'float64','short_string_storage':'short_str','long_string_storage':'long_str','byte_string_storage':'byte_str','array_storage':'array','object_storage':'object','const_json_ref_storage':'const_json_ref','json_ref_storage':'json_ref'}
objs=load(sys.argv[1])
spec=[o for o in objs if o['kind']=='ClassTemplateSpecializationDecl' and o.get('name')=='basic_json'][0]
stats=collections.Counter(); examples=collections.defaultdict(list)
def text_of(e):
    # crude rendering of a condition
    names=[]
    def w(n):
        k=n.get('kind')
        if k=='MemberExpr': names.append(n.get('name'))
        if k=='DeclRefExpr': names.append(n.get('referencedDecl',{}).get('name'))
        if k=='BinaryOperator': names.append(n.get('opcode'))
        if k=='UnaryOperator': names.append(n.get('opcode'))
        for c in kids(n): w(c)
    w(e); return ' '.join(x for x in names if x)
def obj_of(call):
    # object expression text of x.cast<...>()
    me=kids(call)[0]; base=kids(me)
    if not base: return 'this'
    b=base[0]
    t=[]; find(b, lambda n:n.get('kind') in('DeclRefExpr','CXXThisExpr'), t)
    if t and t[0]['kind']=='CXXThisExpr': return 'this'
    return t[0]['referencedDecl']['name'] if t else '?'
def visit(n, fn, ctx, line):
    k=n.get('kind')
    b=n.get('range',{}).get('begin',{})
    if b.get('line'): line[0]=b['line']
    if k in('CXXMethodDecl','CXXConstructorDecl','CXXDestructorDecl','FunctionDecl','FunctionTemplateDecl'): fn=n.get('name'); ctx=[]
    if k=='CXXMemberCallExpr':
        me=kids(n)[0]
        if me.get('kind')=='MemberExpr' and me.get('name')=='cast':
            t=n.get('type',{}).get('qualType','')
            st=[s for s in STOR if t.endswith('::'+s) or t.endswith('::'+s+' ') ]
            if st:
                kind=STOR[st[0]]; obj=obj_of(n)
                guard=None
                for g in reversed(ctx):
                    if g[0]=='case' and kind in g[1]: guard='case-match'; break
                    if g[0]=='case': guard='case-OTHER:'+','.join(g[1]); break
                    if g[0]=='if' and ('storage_kind' in g[1] or 'is_' in g[1]): guard='if:'+g[1][:60]; break
                if guard is None: guard='none'
                key=guard.split(':')[0]
                stats[key]+=1
                if key!='case-match' and len(examples[key])<40: examples[key].append((fn,obj,kind,guard,line[0]))
    if k=='SwitchStmt':
        c=kids(n); visit(c[0],fn,ctx,line)
        body=c[-1]
        cur=None
        for st in kids(body):
            labels=[]; s2=st
            while s2.get('kind') in('CaseStmt','DefaultStmt'):
                if s2['kind']=='CaseStmt':
                    r=[]; find(kids(s2)[0], lambda m:m.get('kind')=='DeclRefExpr' and m.get('referencedDecl',{}).get('kind')=='EnumConstantDecl', r)
                    labels.append(r[0]['referencedDecl']['name'] if r else '?')
                else: labels.append('default')
                s2=kids(s2)[-1]
            if labels: cur=labels
            visit(s2,fn,ctx+[('case',cur or [])],line)
        return
    if k=='IfStmt':
        c=kids(n); cond=text_of(c[0]); visit(c[0],fn,ctx,line)
        for br in c[1:]: visit(br,fn,ctx+[('if',cond)],line)
        return
    for c in kids(n): visit(c,fn,ctx,line)
visit(spec,None,[],[0])
print(stats)
for k,v in examples.items():
    print('==',k)
    for e in v: print('   ',e)
