// instantiation driver: cbor
#include <jsoncons/json.hpp>
#include <jsoncons_ext/cbor/cbor.hpp>
namespace jsoncons { namespace cbor {
template class basic_cbor_parser<jsoncons::bytes_source>;
template class basic_cbor_parser<jsoncons::binary_stream_source>;
template class basic_cbor_encoder<jsoncons::bytes_sink<std::vector<uint8_t>>>;
template class basic_cbor_encoder<jsoncons::binary_stream_sink>;
template class basic_cbor_reader<jsoncons::bytes_source>;
template class basic_cbor_reader<jsoncons::binary_stream_source>;
}}
// cursors contain one member that does not compile when instantiated (observation N6); use them instead
void jcsa_use_cbor(const std::vector<uint8_t>& v, std::istream& is)
{
    using namespace jsoncons;
    std::error_code ec;
    cbor::cbor_bytes_cursor c(v, ec);
    c.next(ec); (void)c.done(); (void)c.current();
    json_decoder<json> d;
    c.read_to(d, ec);
    cbor::cbor_stream_cursor c2(is, ec);
    c2.next(ec); c2.read_to(d, ec);
    json j = cbor::decode_cbor<json>(v);
    ojson oj = cbor::decode_cbor<ojson>(is);
    std::vector<uint8_t> out;
    cbor::encode_cbor(j, out);
    std::ostringstream os;
    cbor::encode_cbor(oj, os);
}
