#include <jsoncons/json.hpp>
#include <iostream>
using namespace jsoncons;
int main(){
    json a("5", semantic_tag::bigint), b("7");
    std::cout << "(a==b)=" << (a==b) << " (b==a)=" << (b==a) << " (a<b)=" << (a<b) << " (b<a)=" << (b<a) << "\n";
    json i(5);
    std::cout << "(i==a)=" << (i==a) << " (a==i)=" << (a==i) << "\n";
}
