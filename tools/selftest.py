#!/usr/bin/env python3
"""Development self-test of the checkers (not a registered command).
Each variant in /verif/selftest/variants.json is a single-site edit of /repo/include
(file, old text, new text, optional occurrence index), applied to a scratch copy under $TMPDIR;
the named check is run on the copy (VERIF_REPO_INCLUDE) and must exit with the expected code
(1 + a VIOLATION line for breaking variants, 0 for benign variants).  The scratch copy is deleted."""
import json, os, shutil, subprocess, sys, tempfile
V = os.path.dirname(os.path.dirname(os.path.abspath(__file__)))

def run_variant(v, keep=False):
    tmp = tempfile.mkdtemp(prefix='jcsa-selftest-')
    try:
        inc = os.path.join(tmp, 'include')
        shutil.copytree('/repo/include', inc)
        for ed in v['edits']:
            p = os.path.join(inc, ed['file'])
            s = open(p).read()
            old = ed['old']; new = ed['new']; occ = ed.get('occurrence', 0)
            idx = -1; start = 0
            for _ in range(occ + 1):
                idx = s.find(old, start)
                if idx < 0: break
                start = idx + 1
            if idx < 0:
                return 'EDIT-FAILED', 'text not found in %s: %r' % (ed['file'], old[:60])
            s = s[:idx] + new + s[idx + len(old):]
            open(p, 'w').write(s)
        env = dict(os.environ, VERIF_REPO_INCLUDE=inc, VERIF_SELFTEST='1', VERIF_OUT_DIR=os.path.join(tmp, 'out'))
        r = subprocess.run([sys.executable, os.path.join(V, 'bin', 'vcheck'), v['property'], '--tier', v.get('tier', 'quick')],
                           capture_output=True, text=True, env=env, cwd=V)
        exp = v.get('expect', 1)
        ok = (r.returncode == exp)
        if ok and exp == 1 and v.get('expect_text'):
            ok = v['expect_text'] in r.stdout
        tail = '\n'.join(l for l in r.stdout.splitlines() if not l.startswith('KNOWN-FINDING') and not l.startswith('  rule'))[-1500:]
        return ('OK' if ok else 'WRONG(exit=%d, expected %d)' % (r.returncode, exp)), tail
    finally:
        shutil.rmtree(tmp, ignore_errors=True)

def main():
    vs = json.load(open(os.path.join(V, 'selftest', 'variants.json')))
    sel = sys.argv[1:]
    bad = 0
    from concurrent.futures import ThreadPoolExecutor
    todo = [v for v in vs if not sel or v['name'] in sel or v['property'] in sel]
    # each variant writes its evidence/replay files under its own scratch directory (VERIF_OUT_DIR)
    with ThreadPoolExecutor(max_workers=4) as ex:
        for v, (st, tail) in zip(todo, ex.map(run_variant, todo)):
            print('%-40s %-4s %s' % (v['name'], v['property'], st))
            if st != 'OK':
                bad += 1
                print('    ' + tail.replace('\n', '\n    '))
    print('%d variants, %d wrong' % (len(todo), bad))
    return 1 if bad else 0

if __name__ == '__main__':
    sys.exit(main())
