"""C19 Allocation failure at any point is handled cleanly - lifecycle typestate and raw-allocation protection."""
from .. import frontend as F, ast as A, cfg as C, util as U, kinds as K, guards as G

EXPLANATION = ('Exception-safety typestate over the structural CFG: (R19.1) after basic_json::destroy() the object is in a destroyed state '
               'until it is re-initialised by construct<S>() or a whole-object memcpy; no call that may throw (callee not noexcept) may be '
               'reachable in that state, otherwise the destructor frees the old storage a second time; (R19.2) every raw allocate() '
               'result held in a local is protected by try/catch(...) deallocate+rethrow around every following call that may throw; '
               '(R19.4) apply_patch constructs its unwinder (automatic storage) before the first mutation.')
NOT_DECIDED = ('that rollback itself cannot fail; byte balance of allocate/deallocate; behaviour under every failing allocation as such '
               '(only the structural clauses are decided)')

def may_throw_calls(ast, skip=()):
    out = []
    for x in A.walk_no_lambda(ast):
        k = x.get('k')
        if k in A.CALLS or k in ('CXXConstructExpr', 'CXXTemporaryObjectExpr'):
            if x.get('cnothrow'): continue
            if x.get('builtin'): continue
            n = A.callee_name(x)
            if n in skip: continue
            if not x.get('cq') and k not in A.CALLS: continue
            # trivial constructors of scalars/pointers do not appear as CXXConstructExpr; implicit copy of trivially copyable
            # types is not noexcept-annotated by clang unless evaluated, keep them only when they belong to jsoncons or std containers
            out.append(x)
        elif k == 'CXXNewExpr' and not x.get('placement'):
            out.append(x)
    return out

def r19_1(chk, facts):
    chk.rule('R19.1', 'no call that may throw is reachable between basic_json::destroy() and the re-initialisation of *this '
                      '(construct<S>() or whole-object memcpy)', floor=5)
    fns = [f for f in facts.functions if not f.get('dep') and f.get('body') is not None and
           A.strip_targs(f.get('cls') or '') == 'jsoncons::basic_json' and f['file'].endswith('basic_json.hpp')]
    n_sites = 0
    for fn in fns:
        dcalls = [c for c in A.walk_no_lambda(fn['body']) if c.get('k') == 'CXXMemberCallExpr' and A.callee_name(c) == 'destroy'
                  and K.obj_key(c.get('obj')) == 'this' and not (c.get('args') or [])]
        if not dcalls or fn['n'] == 'destroy': continue
        chk.analysed(fn)
        g = C.CFG(fn['body'])
        for i, d in enumerate(dcalls):
            n_sites += 1
            start = g.node_of(d)
            if start is None: continue
            site = U.site(fn, 'destroy#%d' % (i + 1))
            bad = None
            seen = set(); stack = list(start.succ)
            while stack and bad is None:
                n = stack.pop()
                if n.id in seen: continue
                seen.add(n.id)
                if n.kind in ('stmt', 'cond', 'switch', 'return') and isinstance(n.ast, dict):
                    reinit = False
                    for x in A.walk_no_lambda(n.ast):
                        if x.get('k') == 'CXXMemberCallExpr' and A.callee_name(x) == 'construct' and K.obj_key(x.get('obj')) == 'this':
                            reinit = True
                        if x.get('k') == 'CallExpr' and A.callee_name(x) in ('memcpy', '__builtin_memcpy'):
                            a0 = (x.get('args') or [None])[0]
                            if any(K.obj_key(y) == 'this' for y in A.walk(a0)): reinit = True
                    mt = [c for c in may_throw_calls(n.ast) if A.callee_name(c) not in ('construct', 'memcpy')]
                    # arguments of construct<S>(...) are evaluated before the re-initialisation: they count
                    if mt:
                        bad = (n, mt[0]); break
                    if reinit: continue
                stack.extend(n.succ)
            facts_ = {'function': fn['q'], 'destroy_line': d.get('l')}
            if bad:
                chk.fail('R19.1', site, fn['file'], bad[1].get('l'),
                         '%s: `%s` may throw while *this is destroyed (destroy() at line %s, no re-initialisation in between): '
                         'on failure ~basic_json frees the old storage again' % (fn['n'], A.text(bad[1])[:70], d.get('l')),
                         dict(facts_, call=A.text(bad[1])[:100], call_line=bad[1].get('l')), fn['q'])
            else:
                chk.ok('R19.1', site, facts_)
    chk.require(n_sites >= 5, 'R19.1: only %d destroy() call sites found' % n_sites)

def r19_4(chk, tier):
    chk.rule('R19.4', 'apply_patch: the operation_unwinder is a local with automatic storage constructed before the first mutating '
                      'jsonpointer call on the target', floor=1)
    facts = F.load(['patch'], tier)
    chk.units.append('patch')
    fns = [f for f in facts.functions if f['n'] == 'apply_patch' and not f.get('dep') and f.get('body') is not None and len(f['params']) == 3]
    chk.require(fns, 'jsonpatch::apply_patch(target, patch, ec) not found')
    MUT = ('add', 'add_if_absent', 'remove', 'replace')
    for fn in U.one_per_inst(fns):
        chk.analysed(fn)
        g = C.CFG(fn['body'])
        unw = None
        for n in g.rpo:
            if n.kind == 'stmt' and n.ast.get('k') == 'DeclStmt':
                for d in n.ast.get('decls') or []:
                    if 'operation_unwinder' in F.tname(fn, d.get('t')) and not d.get('static'):
                        unw = n
        site = U.site(fn, 'unwinder')
        if unw is None:
            chk.fail('R19.4', site, fn['file'], fn['l'], 'apply_patch has no local operation_unwinder', None, fn['q']); continue
        bad = None
        for n in g.rpo:
            if n.kind in ('stmt', 'cond') and isinstance(n.ast, dict):
                for c in A.calls_in(n.ast):
                    if A.callee_name(c) in MUT and 'jsonpointer' in c.get('cq', '') and not g.dominates(unw, n):
                        bad = c
        if bad: chk.fail('R19.4', site, fn['file'], bad.get('l'), 'mutation %s is not dominated by the unwinder construction' % A.text(bad)[:60], None, fn['q'])
        else: chk.ok('R19.4', site, {'function': fn['q'], 'unwinder_line': unw.line})

ASSERT_MACROS = ('JSONCONS_ASSERT', 'JSONCONS_UNREACHABLE', 'JSONCONS_THROW')

class Throws:
    """May a function let an exception out?  Declared noexcept -> no; body available -> inferred from its throw expressions, non-placement
    new and callees (cycles assumed quiet); body unavailable -> yes unless it is a builtin.  Throws of failed internal assertions
    (JSONCONS_ASSERT) are not counted: they are not allocation failures."""
    def __init__(self, facts):
        self.facts = facts; self.memo = {}; self.by_id = {}
        for f in facts.functions:
            if f.get('body') is not None: self.by_id.setdefault(f['id'], f)

    def ops(self, fn, ast, in_assert=False):
        """(node, why) for every operation inside ast that may throw."""
        out = []
        def rec(x, ia):
            if x is None: return
            ia = ia or x.get('m') in ASSERT_MACROS[:2]
            k = x.get('k')
            if k == 'LambdaExpr': return
            if k == 'CXXThrowExpr':
                if not ia: out.append((x, 'throw'))
                return
            if k == 'CXXNewExpr' and not x.get('placement'):
                out.append((x, 'operator new'))
            if k in A.CALLS or k in ('CXXConstructExpr', 'CXXTemporaryObjectExpr'):
                if not x.get('cnothrow') and not x.get('builtin') and (x.get('cq') or k in A.CALLS) and not ia:
                    nm = A.callee_name(x) or (x.get('cq') or '?').split('::')[-1]
                    cal = self.by_id.get(x.get('cid')) if x.get('cid') is not None else None
                    if cal is None and k in A.CALLS: cal = self.facts.callee(fn, x)
                    if nm in ('deallocate', 'destroy', 'memcpy', 'memset', 'memmove'): pass
                    elif cal is not None:
                        if self.may_throw(cal): out.append((x, 'call of %s' % nm))
                    elif x.get('cq') or x.get('cid') is not None: out.append((x, 'call of %s (no body, not noexcept)' % nm))
            for c in A.children(x): rec(c, ia)
        rec(ast, in_assert)
        return out

    def may_throw(self, f):
        if f.get('nothrow'): return False
        k = f['id']
        if k in self.memo: return self.memo[k]
        self.memo[k] = False           # cycle: assume quiet
        if f.get('body') is None: r = True
        else:
            r = bool(self.ops(f, f['body']))
            for ini in f.get('inits') or []:
                if ini.get('init') is not None and self.ops(f, ini['init']): r = True
        self.memo[k] = r
        return r

def r19_2(chk, facts):
    chk.rule('R19.2', 'raw allocation protection: while a block obtained from allocate() is held only by a local pointer, no operation that may '
                      'throw (inferred from bodies; noexcept respected; internal assertions excluded) executes outside a try whose catch-all '
                      'handler deallocates the block and rethrows', floor=5)
    from . import c05
    th = Throws(facts)
    n = 0; seen = set()
    for fn in facts.functions:
        if fn.get('body') is None or fn.get('dep') or not fn['file'].startswith('include/jsoncons/'): continue
        if fn['file'].endswith(('bigint.hpp',)) : pass
        allocs = [c for c in A.calls_in(fn['body'], no_lambda=True) if A.callee_name(c) == 'allocate']
        if not allocs or fn['id'] in seen: continue       # every instantiation: what may throw depends on the argument types
        seen.add(fn['id'])
        chk.analysed(fn)
        g = C.CFG(fn['body'])
        pm = c05.parent_map(fn['body'])
        for i, c in enumerate(allocs):
            nd = g.node_of(c)
            if nd is None: continue
            # the local (or member) that receives the block
            holder = None
            if nd.ast.get('k') == 'DeclStmt':
                for d in nd.ast.get('decls') or []:
                    if d.get('init') is not None and any(y is c for y in A.walk(d['init'])): holder = ('local', d.get('n'))
            am = U.assigned_member(nd.ast)
            if holder is None and am and any(y is c for y in A.walk(am[1])):
                l = A.strip(nd.ast.get('lhs') if nd.ast.get('k') == 'BinaryOperator' else None, casts=True)
                holder = ('member' if (l is not None and l.get('k') == 'MemberExpr') else 'local', am[0])
            n += 1
            site = U.site(fn, 'allocate#%d' % (i + 1))
            if holder is None:
                chk.fail('R19.2', site, fn['file'], c.get('l'), '%s: the result of allocate() is not stored' % fn['n'], None, fn['q']); continue
            if holder[0] == 'member':
                # owned by the object from the first moment (its destructor releases it)
                chk.ok('R19.2', site, {'line': c.get('l'), 'held_by': 'member %s' % holder[1]}); continue
            name = holder[1]
            def protected(x):
                cur = pm.get(id(x))
                child = x
                while cur is not None:
                    if cur.get('k') == 'CXXTryStmt' and cur.get('body') is not None and any(y is child or y is x for y in A.walk(cur['body'])):
                        for h in cur.get('handlers') or []:
                            txt_calls = [cc for cc in A.calls_in(h.get('body') or {}) if A.callee_name(cc) == 'deallocate' and any(A.ref_name(a) == name for a in cc.get('args') or [])]
                            rethrow = any(y.get('k') == 'CXXThrowExpr' for y in A.walk(h.get('body') or {}))
                            if txt_calls and rethrow and h.get('catch_all', True): return True
                    child = cur; cur = pm.get(id(cur))
                return False
            def in_assert(x):
                cur = x
                while cur is not None:
                    if cur.get('m') in ASSERT_MACROS[:2]: return True
                    cur = pm.get(id(cur))
                return False
            bad = None
            # path walk with one correlation: pointers known to be non-null (assigned from the block) decide `p == nullptr` tests
            seen_n = set(); stack = [(s2, frozenset()) for s2 in nd.succ]
            while stack and bad is None:
                x, nonnull = stack.pop()
                if (x.id, nonnull) in seen_n: continue
                seen_n.add((x.id, nonnull))
                if x.kind == 'edge' and isinstance(x.ast, dict):
                    cmp_ = G.comparison(x.ast)
                    if cmp_ and cmp_[0] in ('==', '!=') and A.ref_name(cmp_[1]) in nonnull and (A.strip(cmp_[2], casts=True) or {}).get('k') in ('CXXNullPtrLiteralExpr', 'GNUNullExpr') :
                        if (cmp_[0] == '==') == bool(x.label): continue       # infeasible: the pointer is not null
                if x.kind in ('stmt', 'cond', 'return', 'switch') and isinstance(x.ast, dict):
                    am2 = U.assigned_member(x.ast)
                    if am2 and (A.ref_name(am2[1]) == name or A.ref_name(am2[1]) in nonnull or any(A.ref_name(a) == name for cc in A.calls_in(am2[1]) for a in cc.get('args') or [])):
                        nonnull = nonnull | {am2[0]}
                    if x.ast.get('k') == 'DeclStmt':
                        for d in x.ast.get('decls') or []:
                            if d.get('init') is not None and any(A.ref_name(a) == name for cc in A.calls_in(d['init']) for a in cc.get('args') or []): nonnull = nonnull | {d.get('n')}
                    released = any(A.callee_name(cc) == 'deallocate' and any(A.ref_name(a) == name for a in cc.get('args') or []) for cc in A.calls_in(x.ast))
                    for opn, why in ([] if in_assert(x.ast) else th.ops(fn, x.ast)):
                        if A.callee_name(opn) == 'deallocate': continue
                        if not protected(opn): bad = (opn, why); break
                    if released or x.kind == 'return': continue
                if x.kind == 'catch': continue
                stack.extend((s2, nonnull) for s2 in x.succ)
            if bad is None: chk.ok('R19.2', site, {'line': c.get('l'), 'held_by': name})
            else: chk.fail('R19.2', site, fn['file'], bad[0].get('l'), '%s: the block from allocate() at line %s is held only by `%s` when %s at line %s may throw, outside a try that deallocates it: the block leaks' % (
                fn['n'], c.get('l'), name, bad[1], bad[0].get('l')), {'allocation': c.get('l'), 'operation': bad[1]}, fn['q'])
    chk.require(n >= 5, 'R19.2: only %d raw allocations found' % n)

def r19_3(chk, facts):
    """Byte balance of heap_string: the size handed to deallocate() equals the size the block was requested with."""
    from .. import linear as L
    chk.rule('R19.3', 'byte balance: heap_string_factory::destroy returns the block with the size create() requested (the stored fields '
                      'length_/align_pad_ substituted by what create() stored in them; symbolic comparison of the size expressions), and every '
                      'constant-size allocate(k) of basic_json is paired with deallocate(.., k)', floor=4)
    cr = [f for f in facts.functions if f['n'] == 'create' and f['file'].endswith('heap_string.hpp') and f.get('body') is not None and not f.get('dep')]
    de = [f for f in facts.functions if f['n'] == 'destroy' and f['file'].endswith('heap_string.hpp') and f.get('body') is not None and not f.get('dep')]
    chk.require(cr and de, 'heap_string_factory::create/destroy not found')
    def render(form):
        return L.show(form)
    def form(e, subst, fields):
        """Linear form with opaque atoms; `subst` maps local names to expressions/constants, `fields` maps stored field names to locals."""
        s2 = A.strip(e, casts=True)
        if s2 is None: return None
        c = A.const(s2)
        if c is not None: return {1: c}
        k = s2.get('k')
        if k == 'DeclRefExpr':
            n = s2.get('n')
            if n in subst:
                v = subst[n]
                return {1: v} if isinstance(v, int) else form(v, {k2: v2 for k2, v2 in subst.items() if k2 != n}, fields)
            return {n: 1}
        if k == 'MemberExpr':
            n = s2.get('n')
            if n in fields: return form({'k': 'DeclRefExpr', 'n': fields[n]}, subst, fields)
            return {'field:' + n: 1}
        if k == 'BinaryOperator' and s2.get('op') in ('+', '-'):
            a, b = form(s2.get('lhs'), subst, fields), form(s2.get('rhs'), subst, fields)
            if a is None or b is None: return None
            return L.add(a, b, 1 if s2['op'] == '+' else -1)
        if k == 'BinaryOperator' and s2.get('op') == '*':
            a, b = form(s2.get('lhs'), subst, fields), form(s2.get('rhs'), subst, fields)
            if a is None or b is None: return None
            if set(a) <= {1}: return {v: c2 * a.get(1, 0) for v, c2 in b.items()}
            if set(b) <= {1}: return {v: c2 * b.get(1, 0) for v, c2 in a.items()}
            return {'(%s)*(%s)' % (render(a), render(b)): 1}
        if k == 'UnaryExprOrTypeTraitExpr': return {'sizeof#%s' % s2.get('at'): 1}
        if k in A.CALLS:
            args = [form(a, subst, fields) for a in s2.get('args') or []]
            return {'%s(%s)' % (A.callee_name(s2), ', '.join(render(a) if a is not None else '?' for a in args)): 1}
        return None
    n = 0
    for fc in U.one_per_inst(cr)[:1]:
        fd = next((d for d in de if d.get('cls') == fc.get('cls')), de[0])
        chk.analysed(fc); chk.analysed(fd)
        # create(): local initialisers, field stores, allocations
        inits = {}; fields = {}; assigns = {}
        for x in A.walk_no_lambda(fc['body']):
            if x.get('k') == 'VarDecl' and x.get('init') is not None: inits[x['n']] = x['init']
            if x.get('k') == 'BinaryOperator' and x.get('op') == '=':
                l = A.strip(x.get('lhs'), casts=True)
                if l is not None and l.get('k') == 'MemberExpr' and A.ref_name(x.get('rhs')): fields[l.get('n')] = A.ref_name(x.get('rhs'))
                elif l is not None and l.get('k') == 'DeclRefExpr': assigns.setdefault(l.get('n'), []).append(x)
        pm = __import__('jcsa.props.c05', fromlist=['x']).parent_map(fc['body'])
        allocs = [c for c in A.calls_in(fc['body'], no_lambda=True) if A.callee_name(c) == 'allocate' and c.get('args')]
        chk.require(len(allocs) >= 1 and fields, 'heap_string create(): allocations / field stores not recognised')
        # destroy(): the size passed to deallocate
        dinits = {x['n']: x['init'] for x in A.walk_no_lambda(fd['body']) if x.get('k') == 'VarDecl' and x.get('init') is not None}
        deals = [c for c in A.calls_in(fd['body'], no_lambda=True) if A.callee_name(c) == 'deallocate' and len(c.get('args') or []) >= 2]
        chk.require(deals, 'heap_string destroy(): deallocate not found')
        dform = form(deals[0]['args'][1], dinits, fields)
        chk.require(dform is not None, 'heap_string destroy(): size expression not understood')
        def block_of(x):
            cur = pm.get(id(x))
            while cur is not None and cur.get('k') != 'CompoundStmt': cur = pm.get(id(cur))
            return cur
        for i, a in enumerate(allocs):
            n += 1
            # locals that are re-assigned only in the block of another allocation keep their initial value here
            sub = {}
            for v, init in inits.items():
                reass = assigns.get(v, [])
                if v in [fields[f] for f in fields]:
                    if all(block_of(r) is not block_of(a) and any(block_of(r) is block_of(o) for o in allocs if o is not a) for r in reass) and A.const(init) is not None:
                        sub[v] = A.const(init)
                    # otherwise the stored value is the local itself (symbolic)
                elif not reass: sub[v] = init
            aform = form(a['args'][0], sub, {})
            want = form(deals[0]['args'][1], dict(dinits), fields)
            # evaluate the deallocation size under the same knowledge about the stored locals
            want = form(deals[0]['args'][1], dict(list(dinits.items()) + [(v, c) for v, c in sub.items() if isinstance(c, int)]), fields)
            def subst_consts(fm):
                out = {}
                for k2, c2 in fm.items():
                    if k2 in sub and isinstance(sub[k2], int): out[1] = out.get(1, 0) + c2 * sub[k2]
                    else: out[k2] = out.get(k2, 0) + c2
                return {k2: c2 for k2, c2 in out.items() if c2 != 0 or k2 == 1}
            # the requested size with locals expanded, the returned size with stored fields mapped back to those locals
            a2 = {k2: c2 for k2, c2 in subst_consts(aform or {}).items() if c2 != 0}
            w2 = {k2: c2 for k2, c2 in subst_consts(form(deals[0]['args'][1], {k3: v3 for k3, v3 in list(dinits.items())}, fields) or {}).items() if c2 != 0}
            # expand remaining create()-locals with initialisers on both sides
            def expand(fm):
                out = {}
                for k2, c2 in fm.items():
                    if k2 in inits and k2 not in sub and not assigns.get(k2):
                        f2 = form(inits[k2], {}, {})
                        for k3, c3 in (f2 or {k2: 1}).items(): out[k3] = out.get(k3, 0) + c2 * c3
                    else: out[k2] = out.get(k2, 0) + c2
                return {k2: c2 for k2, c2 in out.items() if c2 != 0}
            a3, w3 = expand(a2), expand(w2)
            site = U.site(fc, 'allocate#%d size' % (i + 1))
            if a3 == w3: chk.ok('R19.3', site, {'requested': L.show(a3), 'returned': L.show(w3)})
            else: chk.fail('R19.3', site, fc['file'], a.get('l'), 'heap_string: the block requested with size `%s` at line %s is returned by destroy() with size `%s`' % (
                L.show(a3), a.get('l'), L.show(w3)), {'requested': L.show(a3), 'returned': L.show(w3)}, fc['q'])
    # constant-size pairs in basic_json (allocate(alloc, 1) / deallocate(alloc, p, 1))
    consts = {'allocate': set(), 'deallocate': set()}
    seen = set()
    for fn in facts.functions:
        if fn.get('body') is None or fn.get('dep') or not fn['file'].endswith('basic_json.hpp') or (fn['file'], fn['l']) in seen: continue
        seen.add((fn['file'], fn['l']))
        for c in A.calls_in(fn['body'], no_lambda=True):
            nm = A.callee_name(c)
            if nm in consts and 'allocator_traits' in (c.get('cq') or ''):
                v = A.const((c.get('args') or [None])[-1])
                n += 1
                site = U.site(fn, '%s count@%d' % (nm, c.get('l', 0) - fn['l']))
                if v == 1: chk.ok('R19.3', site, {'count': v})
                else: chk.fail('R19.3', site, fn['file'], c.get('l'), '%s: %s with element count %s; the storage objects are allocated and released one at a time' % (fn['n'], nm, v if v is not None else A.text((c.get('args') or [None])[-1])), None, fn['q'])
    chk.require(n >= 4, 'R19.3: only %d allocation sizes compared' % n)

def r19_6(chk, tier):
    """unique_ptr::release() handed straight to a call that can throw: if the call fails the object is owned by nobody."""
    chk.rule('R19.6', 'no ownership gap: the result of unique_ptr::release() is never an argument of a container insertion or another call that may '
                      'allocate (emplace_back(p.release()) leaks the object when the vector has to grow and that allocation fails); expected '
                      'count zero, positive control in drivers/control.cpp', floor=1)
    ctl = False; n = 0
    for unit in ('core', 'jsonpath', 'jmespath', 'jsonschema', 'patch', 'control'):
        facts = F.load([unit], tier)
        if unit not in chk.units: chk.units.append(unit)
        seen = set()
        for fn in facts.functions:
            if fn.get('body') is None or (fn['file'], fn['l']) in seen: continue
            in_ctl = fn['file'].startswith('drivers/control.cpp')
            if not in_ctl and not fn['file'].startswith('include/jsoncons'): continue
            hits = []
            for c in A.calls_in(fn['body'], no_lambda=True):
                if A.callee_name(c) in ('emplace_back', 'push_back', 'emplace', 'insert', 'try_emplace', 'insert_or_assign', 'make_unique', 'make_shared'):
                    for a in c.get('args') or []:
                        for y in A.calls_in(a):
                            if A.callee_name(y) == 'release' and 'unique_ptr' in (y.get('cq') or ''): hits.append((c, y))
            if not hits: continue
            seen.add((fn['file'], fn['l']))
            if in_ctl: ctl = True; continue
            for c, y in hits:
                n += 1
                chk.analysed(fn)
                chk.fail('R19.6', U.site(fn, 'release into %s' % A.callee_name(c)), fn['file'], y.get('l'), '%s: `%s(... .release() ...)` - the object leaves its unique_ptr before the insertion has succeeded; if the container has to grow and the allocation fails the object is leaked' % (
                    fn['n'], A.callee_name(c)), None, fn['q'])
    chk.require(ctl, 'R19.6 positive control (release() into emplace_back in drivers/control.cpp) not detected')
    chk.ok('R19.6', 'drivers/control.cpp positive control', {'control_found': True, 'library_instances': n})

def r19_7(chk, facts):
    """What is given back to the allocator is what was taken from it."""
    chk.rule('R19.7', 'heap string block size: the size helper that heap_string_factory::create uses for allocate() and the one destroy() uses for '
                      'deallocate() receive the same function of the string length (the same canonical expression once the length is '
                      'abstracted): a block allocated with one size and released with another is undefined behaviour for sized allocators, and '
                      'differs exactly for character types wider than one byte', floor=1)
    fns = {}
    for f in facts.functions:
        if f['file'].endswith('utility/heap_string.hpp') and f.get('body') is not None and not f.get('dep') and f['n'] in ('create', 'destroy'):
            fns.setdefault((f.get('cls'), f['n']), f)
    classes = sorted(set(c for c, n in fns))
    n = 0
    for cls in classes:
        cr, de = fns.get((cls, 'create')), fns.get((cls, 'destroy'))
        if cr is None or de is None: continue
        def shapes(fn):
            out = {}
            al = A.pure_aliases(fn['body'])
            for c in A.calls_in(fn['body'], no_lambda=True):
                if c.get('k') not in ('CallExpr', 'CXXMemberCallExpr'): continue
                cal = facts.callee(fn, c)
                if cal is None or cal.get('cls') != fn.get('cls') or cal['n'] in ('create', 'destroy'): continue
                def norm(e):
                    t = A.canon(e, al)
                    import re as _re
                    t = _re.sub(r'[A-Za-z_>\-\.\(\)]*length_?\b', 'LEN', t)
                    return t
                out.setdefault(cal['n'], set()).add(tuple(norm(a) for a in c.get('args') or []))
            return out
        sa, sb = shapes(cr), shapes(de)
        common = set(sa) & set(sb)
        if not common: continue
        n += 1
        chk.analysed(cr); chk.analysed(de)
        for h in sorted(common):
            site = U.site(cr, 'size helper %s' % h)
            if sa[h] == sb[h]: chk.ok('R19.7', site, {'argument': sorted(sa[h])})
            else: chk.fail('R19.7', site, cr['file'], cr['l'], 'create() calls %s(%s) for the block it allocates, destroy() calls %s(%s) for the block it releases' % (
                h, ', '.join(x[0] for x in sorted(sa[h])), h, ', '.join(x[0] for x in sorted(sb[h]))), None, cr['q'])
        if n >= 2: break
    chk.require(n >= 1, 'R19.7: heap_string_factory create/destroy with a common size helper not found')

def r19_8(chk, facts):
    """Allocator-extended constructors use the allocator they are given."""
    chk.rule('R19.8', 'allocator-extended constructors of the containers (json_array, sorted_json_object, order_preserving_json_object): a constructor '
                      'that takes an allocator initialises its allocator base with that parameter, and every member that is built with an '
                      'allocator gets it from the parameter, not from the get_allocator() of the object being copied; otherwise the copy '
                      'keeps allocating from (and must be freed by) the source allocator', floor=8)
    n = 0; seen = set()
    for f in sorted(facts.functions, key=lambda f: bool(f.get('dep'))):
        if f.get('fk') != 'CXXConstructor' or not f['file'].endswith(('ordered_json_object.hpp', 'sorted_json_object.hpp', 'json_array.hpp')) or not f.get('inits'): continue
        if (f['file'], f['l']) in seen: continue
        al = [p for p in f['params'] if 'alloc' in (p['n'] or '')]
        if not al: continue
        seen.add((f['file'], f['l']))
        chk.analysed(f)
        aid = al[0]['id']
        for i in f['inits']:
            e = i.get('init')
            if e is None: continue
            uses_param = any(y.get('k') == 'DeclRefExpr' and y.get('id') == aid for y in A.walk(e))
            foreign = any(y.get('k') in A.CALLS and A.callee_name(y) == 'get_allocator' for y in A.walk(e))
            is_base = i.get('m') is None
            if not (is_base or uses_param or foreign): continue
            n += 1
            site = U.site(f, 'ctor@%s %s' % (f['l'], i.get('m') or 'allocator base'))
            if (uses_param or not is_base) and not foreign and (uses_param or not is_base): chk.ok('R19.8', site, None)
            else:
                chk.fail('R19.8', site, f['file'], f['l'], 'the allocator-extended constructor at line %s initialises %s with `%s` instead of its `%s` parameter' % (
                    f['l'], i.get('m') or 'its allocator base', A.canon(e)[:60], al[0]['n']), None, f['q'])
    chk.require(n >= 8, 'R19.8: only %d allocator initialisations found in the container constructors' % n)

def r19_9(chk, tier):
    """An allocation failure is not turned into an ordinary answer."""
    chk.rule('R19.9', 'catch-all handlers: every `catch (...)` of the library either rethrows, follows a handler of the same try that rethrows '
                      'std::bad_alloc, or stands in a destructor or in an exception class\'s what() (which must not throw); a catch-all that '
                      'answers "invalid" / false swallows std::bad_alloc and reports an allocation failure as a verdict about the data', floor=10)
    n = 0; seen = set()
    for unit in ('core', 'jsonschema', 'reflect', 'jsonpath', 'jmespath', 'csv', 'cbor', 'ubjson'):
        facts = F.load([unit], tier)
        if unit not in chk.units: chk.units.append(unit)
        for fn in sorted(facts.functions, key=lambda f: bool(f.get('dep'))):
            if fn.get('body') is None or not fn['file'].startswith('include/'): continue
            for t in A.walk(fn['body']):
                if t.get('k') != 'CXXTryStmt': continue
                hs = t.get('handlers') or []
                for i, h in enumerate(hs):
                    if h.get('ct'): continue          # a typed handler
                    key = (fn['file'], h.get('l'))
                    if key in seen: continue
                    seen.add(key); n += 1
                    def rethrows(hh):
                        return any(y.get('k') == 'CXXThrowExpr' and y.get('sub') is None for y in A.walk(hh.get('body') or {}))
                    prior = any(rethrows(p_) and 'bad_alloc' in (fn['_types'][p_['ct'] - 1] if p_.get('ct') else '') for p_ in hs[:i])
                    site = '%s:%s catch-all at line %s' % (fn['file'], fn['n'], h.get('l'))
                    # a noexcept function (the constructors of the exception classes build their message under catch-all) cannot let anything out
                    ok = rethrows(h) or prior or fn.get('fk') == 'CXXDestructor' or fn.get('nothrow') or fn['n'] in ('what', 'message') or fn['n'].startswith('~')
                    if ok: chk.ok('R19.9', site, None)
                    else:
                        chk.analysed(fn)
                        chk.fail('R19.9', site, fn['file'], h.get('l'), '%s: `catch (...)` at line %s neither rethrows nor is preceded by a handler that rethrows std::bad_alloc: an allocation failure '
                                 'inside the try is reported as an ordinary result' % (fn['n'], h.get('l')), None, fn['q'])
    chk.require(n >= 10, 'R19.9: only %d catch-all handlers found' % n)

ALLOCATING = ('basic_json', 'basic_string', 'vector', 'heap_string', 'byte_string', 'map<', 'unique_ptr', 'shared_ptr', 'optional', 'expression')

def r19_10(chk, tier, units=('core', 'jmespath', 'jsonpath')):
    """A non-throwing move takes the members of its source, it does not copy them."""
    chk.rule('R19.10', 'non-throwing moves: in a function declared noexcept (or called from one with the same argument) that receives an rvalue '
                       'reference `T&& other` to its own class, a member of `other` whose type owns heap storage is handed to a constructor or '
                       'assignment as an rvalue (std::move / a cast to T&&); handed as it is, the copy constructor runs and an allocation '
                       'failure inside a noexcept function ends in std::terminate', floor=5)
    n = 0
    for unit in units:
        facts = F.load([unit], tier)
        if unit not in chk.units: chk.units.append(unit)
        seen = set()
        for fn in facts.functions:
            if fn.get('body') is None or fn.get('dep') or not fn.get('cls') or (fn['file'], fn['l']) in seen: continue
            cls_short = A.strip_targs(fn['cls']).split('::')[-1]
            rv = [p_ for p_ in fn['params'] if F.tname(fn, p_['t']).rstrip().endswith('&&')]
            rv = [p_ for p_ in rv if cls_short in A.strip_targs(F.tname(fn, p_['t']))]
            if not rv: continue
            # the function itself is non-throwing, or it is a helper of the class called by a non-throwing member with the same argument
            nothrow = bool(fn.get('nothrow'))
            if not nothrow:
                for f2 in facts.functions:
                    if f2.get('cls') == fn['cls'] and f2.get('nothrow') and f2.get('body') is not None and any(facts.callee(f2, c) is fn for c in A.calls_in(f2['body'], no_lambda=True)):
                        nothrow = True; break
            if not nothrow: continue
            seen.add((fn['file'], fn['l']))
            pid = set(p_['id'] for p_ in rv)
            def is_other_member(e):
                e2 = e
                while e2 is not None and e2.get('k') in ('ImplicitCastExpr', 'ParenExpr', 'MaterializeTemporaryExpr', 'CXXBindTemporaryExpr', 'ExprWithCleanups'): e2 = e2.get('sub')
                if e2 is None or e2.get('k') != 'MemberExpr': return None
                b = A.strip(e2.get('base'), casts=True)
                while b is not None and b.get('k') == 'MemberExpr': b = A.strip(b.get('base'), casts=True)      # members of an anonymous union
                return e2 if b is not None and b.get('k') == 'DeclRefExpr' and b.get('id') in pid else None
            k = 0
            for y in A.walk_no_lambda(fn['body']):
                args = []
                if y.get('k') in ('CXXConstructExpr', 'CXXTemporaryObjectExpr') and len(y.get('args') or []) >= 1: args = [y['args'][0]]
                elif y.get('k') == 'CXXOperatorCallExpr' and y.get('oop') == '=' and len(y.get('args') or []) == 2: args = [y['args'][1]]
                for a in args:
                    moved = any(A.is_call(z) and A.callee_name(z) in ('move', 'forward') for z in A.walk(a)) or any(z.get('k') == 'CXXStaticCastExpr' for z in A.walk(a))
                    m = is_other_member(a) if not moved else None
                    mm = m
                    if moved:
                        mm = next((z for z in A.walk(a) if z.get('k') == 'MemberExpr' and z.get('n') and is_other_member(z) is not None), None)
                    if mm is None: continue
                    tn = F.tname(fn, mm.get('t'))
                    if not any(w in tn for w in ALLOCATING): continue
                    k += 1; n += 1
                    chk.analysed(fn)
                    site = U.site(fn, 'takes %s #%d' % (mm.get('n'), k))
                    if moved: chk.ok('R19.10', site, {'member': mm.get('n'), 'type': tn[:40]} if k == 1 else None)
                    else:
                        chk.fail('R19.10', site, fn['file'], y.get('l'), '%s::%s (non-throwing, or called from a noexcept move with the same argument) builds or assigns from `%s.%s` (%s) without std::move: the member is '
                                 'copied, which allocates, and a failure there cannot leave a noexcept function' % (cls_short, fn['n'], rv[0]['n'], mm.get('n'), tn[:40]), None, fn['q'])
    chk.require(n >= 5, 'R19.10: only %d member hand-overs in non-throwing moves found' % n)

def run(chk, tier, only_rule=None):
    chk.explanation = EXPLANATION
    chk.not_decided = NOT_DECIDED
    facts = F.load(['core'], tier)
    chk.units = ['core']
    r19_1(chk, facts)
    r19_2(chk, facts)
    r19_3(chk, facts)
    r19_7(chk, facts)
    r19_8(chk, facts)
    r19_9(chk, tier)
    r19_10(chk, tier)
    r19_6(chk, tier)
    r19_4(chk, tier)
    from . import c15
    c15.r15_6(chk, F.load(['patch'], tier))
    c15.r19_5(chk, F.load(['patch'], tier))     # an allocation failure inside apply_patch leaves the state at begin: the destructor must roll back
