"""C03 Decoding does not depend on how the input is delivered - structural clauses."""
from .. import frontend as F, ast as A, cfg as C, util as U

EXPLANATION = ('Decides structural necessary conditions of chunking-independence: (R03.1) every suspend point of the '
               'incremental JSON number/string sub-automata stores the state whose dispatch entry jumps back to the label that '
               'suspended; (R03.2) the consumed slice is carried into buffer_/position_ on every suspend; further rules are listed '
               'under coverage.rules.  Each obligation is evaluated on the resolved AST of every instantiation in the drivers.')
NOT_DECIDED = ('equality of event sequences between access modes for all inputs; stream-source stitching arithmetic; '
               'the behaviour itself (only the listed structural clauses are decided)')

def _is_exhaust_edge(ast, label, endvars):
    """True if edge (cond ast, polarity) means 'cursor >= end of buffer'."""
    if not isinstance(label, bool) or ast is None: return False
    s = A.strip(ast)
    if s is None or s.get('k') != 'BinaryOperator': return False
    op = s.get('op')
    l, r = A.ref_name(s.get('lhs')), A.ref_name(s.get('rhs'))
    if r in endvars and l and l not in endvars:
        pass
    elif l in endvars and r and r not in endvars:
        op = {'<': '>', '>': '<', '<=': '>=', '>=': '<='}.get(op, op)
    else:
        return False
    if op in ('>=', '==') and label is True: return True
    if op in ('<', '!=') and label is False: return True
    return False

def dispatch_table(g, state_member):
    """state value -> label name, from the entry switch over `state_member`."""
    table = {}
    sw = None
    for n in g.rpo:
        if n.kind == 'switch' and U.is_member_ref(n.ast, state_member):
            sw = n; break
    if sw is None: return None, None
    for e in sw.succ:
        if e.kind != 'edge' or e.label[0] != 'case': continue
        # follow join -> goto -> label
        cur = e.succ[0]; steps = 0; lab = None
        while cur is not None and steps < 6:
            if cur.kind == 'label': lab = cur.label; break
            if cur.kind == 'goto': lab = cur.label; break
            cur = cur.succ[0] if cur.succ else None; steps += 1
        for v in range(e.label[1], e.label[2] + 1):
            table[v] = lab
    return table, sw

def r03_1_2(chk, facts):
    chk.rule('R03.1', 'resume consistency: the state stored on a buffer-exhausted return of parse_number/parse_string must be '
                      'dispatched (entry switch) back to the label whose region contains that return', floor=18)
    chk.rule('R03.2', 'token carry: every buffer-exhausted return of parse_number (and of the text region of parse_string) '
                      'appends the consumed slice to buffer_ and advances position_', floor=9)
    for fname, member, enum in (('parse_number', 'number_state_', 'parse_number_state'),
                                ('parse_string', 'string_state_', 'parse_string_state')):
        fns = U.functions(facts, cls='basic_json_parser', name=fname)
        chk.require(fns, 'basic_json_parser::%s not found' % fname)
        en = U.enum_value_names(U.enum_by_suffix(facts, '::' + enum))
        for fn in fns:
            chk.analysed(fn)
            g = C.CFG(fn['body'])
            table, sw = dispatch_table(g, member)
            chk.require(table, '%s: entry switch over %s not found' % (fn['q'], member))
            # all enumerators must be dispatched
            for v, n in en.items():
                chk.require(v in table and table[v], '%s: state %s has no dispatch entry' % (fn['q'], n))
            endvars = {'local_input_end', 'input_end_'}
            nsusp = 0
            for r in g.rpo:
                if r.kind != 'return': continue
                saved = None; saved_line = None; edge = None; region = None
                appended = False; pos = False
                for d in g.dominators(r):
                    if d.kind == 'label':
                        region = d.label; break
                    if edge is None:
                        if d.kind == 'stmt':
                            am = U.assigned_member(d.ast)
                            if am and am[0] == member and saved is None:
                                saved = A.const(am[1]); saved_line = d.line
                                if saved is None:
                                    chk.broken('%s:%d: cannot fold the state stored into %s' % (fn['file'], d.line, member))
                            s = A.strip(d.ast)
                            if s is not None and A.is_call(s) and A.callee_name(s) == 'append' and A.ref_name(s.get('obj')) == 'buffer_':
                                appended = True
                            if s is not None and s.get('k') == 'CompoundAssignOperator' and s.get('op') == '+=' and A.ref_name(s.get('lhs')) == 'position_':
                                pos = True
                        if d.kind == 'edge' and _is_exhaust_edge(d.ast, d.label, endvars):
                            edge = d
                if edge is None or region is None:
                    continue
                # the exhaust edge must belong to this region (edge dominated by the label: true by construction of the walk)
                nsusp += 1
                site = U.site(fn, 'label=%s' % region)
                facts_ = {'function': fn['q'], 'label': region, 'return_line': r.line,
                          'saved_state': en.get(saved, saved), 'dispatch_of_saved': table.get(saved),
                          'exhaust_test_line': edge.line}
                if saved is None:
                    chk.fail('R03.1', site + ' saved=none', fn['file'], r.line,
                             'suspend return under label %s stores no resume state' % region, facts_, fn['q'])
                elif table.get(saved) != region:
                    chk.fail('R03.1', site + ' saved=%s' % en.get(saved, saved), fn['file'], saved_line,
                             'suspend under label `%s` stores %s::%s, which resumes at label `%s`' % (
                                 region, enum, en.get(saved, saved), table.get(saved)), facts_, fn['q'])
                else:
                    chk.ok('R03.1', site, facts_)
                if fname == 'parse_number' or region == 'text':
                    if appended and pos:
                        chk.ok('R03.2', site, {'function': fn['q'], 'label': region, 'append': True, 'position': True})
                    else:
                        chk.fail('R03.2', site + ' carry', fn['file'], r.line,
                                 'suspend under label %s does not carry the consumed slice (buffer_.append=%s, position_+= %s)' % (region, appended, pos),
                                 facts_, fn['q'])
            chk.require(nsusp >= 8, '%s: only %d suspend points recognised (expected >= 8)' % (fn['q'], nsusp))

def run(chk, tier, only_rule=None):
    chk.explanation = EXPLANATION
    chk.not_decided = NOT_DECIDED
    facts = F.load(['core'], tier)
    chk.units = facts.units
    r03_1_2(chk, facts)
