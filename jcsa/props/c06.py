"""C06 Binary formats round-trip the data model - encoder ladders vs decoder/specification tables."""
import json, os
from .. import frontend as F, ast as A, util as U, peval as P
from . import c07

EXPLANATION = ('Encoder width ladders are decided by boundary partition: every constant the ladder variable is compared with in the '
               'function yields the test points K-1, K, K+1 (plus the extremes of the parameter type); between two consecutive constants '
               'every branch condition has the same outcome, so the points represent all values.  For each point the function is '
               'partially evaluated (nothing runs) and the bytes it writes - marker, payload conversion type and the converted value - '
               'are decoded with the specification table the decoder was verified against (C07): the decoded value/length must equal the '
               'point (no truncation), the marker must belong to the right family, and every point must write something or store an '
               'error (exhaustive ladder).')
NOT_DECIDED = ('equality of decoded and original values for arbitrary documents; bigint<->bytes arithmetic; decimal128 conversion; '
               'only the ladder/marker/width clauses are decided')

U8, U16, U32, U64 = 0xff, 0xffff, 0xffffffff, 0xffffffffffffffff
I64MIN, I64MAX = -2**63, 2**63 - 1

def points_for(fn, var, lo, hi):
    """Test points from the constants `var` is compared with in fn."""
    ks = set()
    for x in A.walk_no_lambda(fn['body']):
        if x.get('k') == 'BinaryOperator' and x.get('op') in ('<', '<=', '>', '>=', '==', '!='):
            l, r = x.get('lhs'), x.get('rhs')
            if A.ref_name(l) == var and A.const(r) is not None: ks.add(A.const(r))
            elif A.ref_name(r) == var and A.const(l) is not None: ks.add(A.const(l))
        if x.get('k') == 'SwitchStmt' and A.ref_name(x.get('cond')) == var:
            for labels, st in P.PEval.switch_items(x['body']):
                for lo_, hi_ in labels:
                    if lo_ != 'default': ks.add(lo_); ks.add(hi_)
    pts = {lo, hi}
    if lo <= 0 <= hi: pts.add(0)
    for k in ks:
        for v in (k - 1, k, k + 1):
            if lo <= v <= hi: pts.add(v)
    return sorted(pts), sorted(ks)

def outputs(facts, fn, bind, follow=None):
    """Bytes/conversions written unconditionally, in order, and whether an error is stored/thrown."""
    pe = P.PEval(facts, fn, follow=follow or (lambda c, e: False), bind=bind, max_depth=2)
    try:
        pe.exec_body(fn, {})
    except P.Stop:
        pass
    out = []; err = False
    for e in pe.effects:
        if e.kind == 'loop': break
        if any(g.startswith('loop@') for g in e.guards): continue
        if e.guards:
            # guarded by something other than the ladder variable (e.g. the nesting-depth test): error branches are ignored
            if e.kind == 'set' and e.name == 'ec': continue
            if e.kind in ('call',) and not all('nesting_depth' in g or 'ec' in g for g in e.guards): pass
            continue
        if e.kind == 'call':
            n = e.name
            if is_sink_push(n):
                out.append(('byte', e.args[0] if e.args and isinstance(e.args[0], int) else None, e.line))
            elif n.split('::')[-1] in ('native_to_big', 'native_to_little'):
                ta = (e.extra.get('ta') or ['?'])[0]
                out.append((n.split('::')[-1], ta, e.args[0] if e.args and isinstance(e.args[0], int) else None, e.line))
        elif e.kind == 'set' and e.name == 'ec':
            err = True
        elif e.kind == 'throw':
            err = True
    return out, err, pe.effects

def is_sink_push(name):
    """push_back on the encoder's sink: the member `sink_`, or the sink handed to a static helper as a parameter (`sink`)"""
    return name.endswith('.push_back') and name.split('.')[0].rstrip('_') == 'sink'

RT = {v: k for k, v in c07.CTYPE.items() if k not in ('half',)}

def same_width(ct1, ct2):
    a = P.INT_TYPES.get(ct1); b = P.INT_TYPES.get(ct2)
    return a is not None and b is not None and a[0] == b[0]

def type_ok(written, announced_rt, v):
    """The conversion type agrees with the announced type: identical, or the same width with a value representable in both
    (identical bytes on the wire)."""
    want = c07.CTYPE[announced_rt]
    return written == want or (same_width(written, want) and fits(v, written) and fits(v, want))

def fits(v, ctype):
    t = P.INT_TYPES.get(ctype)
    if not t: return False
    bits, signed = t
    lo = -(1 << (bits - 1)) if signed else 0
    hi = (1 << (bits - 1)) - 1 if signed else (1 << bits) - 1
    return lo <= v <= hi

# ---------------------------------------------------------------------------------------------------
def msgpack_decode(rows, v, out, family):
    """Check that the written header decodes (per the MessagePack table) to value/length v in the given family."""
    if not out: return 'nothing is written'
    if out[0][0] in ('native_to_big', 'native_to_little') and out[0][1] in ('signed char', 'unsigned char') and out[0][2] is not None:
        out = [('byte', out[0][2] & 0xff, out[0][3])] + out[1:]      # a one-byte conversion written as the marker itself
    if out[0][0] != 'byte' or out[0][1] is None: return 'first output is not a constant marker byte'
    m = out[0][1] & 0xff
    r = rows[m]
    fam = r['event']
    want_fam = {'uint': ('uint64', 'int64'), 'int': ('int64', 'uint64'), 'str': ('string',), 'bin': ('byte_string',), 'array': ('begin_array',), 'map': ('begin_object',), 'ext': ('ext',)}[family]
    if fam not in want_fam: return 'marker 0x%02x belongs to family %s (%s), expected %s' % (m, r['family'], fam, '/'.join(want_fam))
    if family in ('uint', 'int'):
        if 'read_type' not in r:
            dec = m if r.get('value') == 'byte' else m - 256
            return None if dec == v else 'fixint marker 0x%02x decodes to %d, value is %d' % (m, dec, v)
        rt = r['read_type']
        if len(out) < 2: return 'marker 0x%02x (%s) without payload' % (m, r['family'])
        p = out[1]
        if p[0] == 'byte':
            if c07.WIDTH[rt] != 1: return 'payload of %s written as one byte' % rt
            dec = p[1] if rt == 'uint8' else (p[1] - 256 if p[1] is not None and p[1] > 127 else p[1])
            if p[1] is None: return 'payload byte not determined'
            if rt == 'int8' and p[1] > 127: dec = p[1] - 256
            return None if (dec & 0xff) == (v & 0xff) and fits(v, c07.CTYPE[rt]) else 'payload byte %s does not carry %d as %s' % (p[1], v, rt)
        if p[0] != 'native_to_big': return 'payload written with %s (MessagePack is big-endian)' % p[0]
        if not type_ok(p[1], rt, v): return 'marker 0x%02x announces %s but the payload is converted as %s' % (m, rt, p[1])
        if p[2] != v: return 'payload carries %s, value is %d (truncated by the cast)' % (p[2], v)
        if fam == 'uint64' and v < 0: return 'negative value written with an unsigned marker'
        return None
    # lengths
    if 'length' in r and isinstance(r['length'], int):
        return None if r['length'] == v else 'fixed-size header 0x%02x (%s) announces %d payload bytes, actual length %d' % (m, r['family'], r['length'], v)
    if 'length' in r and isinstance(r['length'], str):
        mask = 0x0f if r['length'] == 'low4' else 0x1f
        dec = m & mask
        return None if dec == v else 'fix header 0x%02x carries length %d, actual length %d' % (m, dec, v)
    lt = r['length_type']
    if len(out) < 2: return 'marker 0x%02x (%s) without a length' % (m, r['family'])
    p = out[1]
    if p[0] == 'byte':
        if lt != 'uint8': return 'length of %s written as one byte' % r['family']
        return None if p[1] == v else 'length byte %s, actual length %d' % (p[1], v)
    if p[0] != 'native_to_big': return 'length written with %s' % p[0]
    if not type_ok(p[1], lt, v): return 'marker 0x%02x announces a %s length but %s is written' % (m, lt, p[1])
    if p[2] != v: return 'length field carries %s, actual length %d (truncated)' % (p[2], v)
    return None

def cbor_decode(v, out, major, raw=False):
    if not out: return 'nothing is written'
    if out[0][0] != 'byte' or out[0][1] is None: return 'first output is not a constant initial byte'
    b = out[0][1] & 0xff
    mj, info = b >> 5, b & 0x1f
    if mj != major: return 'initial byte 0x%02x has major type %d, expected %d' % (b, mj, major)
    arg = v if (major != 1 or raw) else -1 - v
    if info < 24:
        return None if info == arg else 'immediate argument %d, expected %d' % (info, arg)
    if info not in c07.ARGW: return 'additional information %d is reserved/indefinite' % info
    t, w = c07.ARGW[info]
    if len(out) < 2: return 'initial byte 0x%02x announces a %d-byte argument but none is written' % (b, w)
    p = out[1]
    if p[0] == 'byte':
        if w != 1: return 'argument of %d bytes written as one byte' % w
        return None if p[1] == arg else 'argument byte %s, expected %d' % (p[1], arg)
    if p[0] != 'native_to_big': return 'argument written with %s (CBOR is big-endian)' % p[0]
    if not type_ok(p[1], t, arg): return 'additional information %d announces %s but %s is written' % (info, t, p[1])
    if p[2] != arg: return 'argument field carries %s, expected %d (truncated)' % (p[2], arg)
    return None

UBJ = {'i': 'int8', 'U': 'uint8', 'I': 'int16', 'l': 'int32', 'L': 'int64'}
def ubjson_decode(v, out, pre=0):
    """Integer value (or count) written as marker + big-endian payload; `pre` = number of leading bytes to skip ('#', '[' ...)."""
    o = out[pre:]
    if not o: return 'nothing is written'
    if o[0][0] != 'byte' or o[0][1] is None: return 'no constant type marker'
    mk = chr(o[0][1] & 0xff)
    if mk == 'H':
        # high-precision number: the only representation of an integer that no UBJSON integer type holds
        return None if (v > I64MAX or v < I64MIN) else 'high-precision marker used for %d, which fits an integer type' % v
    if mk not in UBJ: return 'marker %r is not an integer type' % mk
    rt = UBJ[mk]
    if len(o) < 2: return 'marker %r without payload' % mk
    p = o[1]
    if p[0] == 'byte':
        if c07.WIDTH[rt] != 1: return 'payload of %s written as one byte' % rt
        return None if p[1] is not None and (p[1] & 0xff) == (v & 0xff) and fits(v, c07.CTYPE[rt]) else 'payload byte %s does not carry %d' % (p[1], v)
    if p[0] != 'native_to_big': return 'payload written with %s (UBJSON is big-endian)' % p[0]
    if not type_ok(p[1], rt, v): return 'marker %r announces %s but %s is written' % (mk, rt, p[1])
    if p[2] != v: return 'payload carries %s, value is %d (truncated)' % (p[2], v)
    return None

# ---------------------------------------------------------------------------------------------------
def check_ladder(chk, rid, facts, fn, var, lo, hi, decode, extra_bind=None, label='', follow=None):
    pts, ks = points_for(fn, var, lo, hi)
    chk.analysed(fn)
    nbad = 0
    for v in pts:
        bind = dict(extra_bind or {}); bind[var] = v
        out, err, eff = outputs(facts, fn, bind, follow)
        site = U.site(fn, '%s %s=%d' % (label or fn['n'], var, v))
        short = [(o[0], o[1]) + ((o[2],) if len(o) > 3 else ()) for o in out[:3]]
        facts_ = {'function': fn['q'], 'variable': var, 'point': v, 'written': short, 'error': err, 'comparison_constants': ks[:12]}
        if err and not out:
            chk.ok(rid, site, dict(facts_, verdict='rejected with an error')); continue
        why = decode(v, out)
        if why is None:
            chk.ok(rid, site, facts_ if v in (pts[0], pts[-1]) or nbad == 0 and v in ks else None)
        else:
            line = out[0][-1] if out else fn['l']
            # one finding per rung: key by the nearest comparison constant below the point
            rung = max([k for k in ks if k <= v] or [lo])
            chk.fail(rid, U.site(fn, '%s %s>%s' % (label or fn['n'], var, rung)) if not out else U.site(fn, '%s rung@%s' % (label or fn['n'], rung)),
                     fn['file'], line, '%s(%s=%d): %s' % (fn['n'], var, v, why), facts_, fn['q'])
    return len(pts)

def r06_3(chk, tier):
    from .. import cfg as C, guards as G
    chk.rule('R06.3', 'CBOR string references: min_length_for_stringref equals the stringref specification ladder; encoder and decoder both test '
                      '`length >= min_length_for_stringref(<current table size>)` and append to their table exactly under that test', floor=10)
    facts = F.load(['cbor'], tier)
    sp = c07.spec('cbor.json')['stringref_min_length']
    fns = [f for f in facts.functions if f['n'] == 'min_length_for_stringref' and f.get('body') is not None and not f.get('dep')]
    if not fns:
        fns = [f for f in facts.functions if f['n'] == 'min_length_for_stringref' and f.get('body') is not None]
    chk.require(fns, 'min_length_for_stringref not found')
    fn = fns[0]
    chk.analysed(fn)
    pts, ks = points_for(fn, 'index', 0, U64)
    for v in pts:
        pe = P.PEval(facts, fn, bind={'index': v}, max_depth=1)
        pe.exec_body(fn, {})
        rets = [e.extra.get('value') for e in pe.effects if e.kind == 'return' and not e.guards]
        want = None
        for bound, n in sp:
            if bound is None or v <= bound: want = n; break
        site = U.site(fn, 'index=%d' % v)
        if rets == [want]: chk.ok('R06.3', site, {'index': v, 'min_length': want} if v in (0, 23, 24, 256, 65536) else None)
        else: chk.fail('R06.3', U.site(fn, 'rung@%s' % max([k for k in ks if k <= v] or [0])), fn['file'], fn['l'],
                       'min_length_for_stringref(%d) returns %s, the stringref specification says %d' % (v, rets, want), None, fn['q'])
    # use sites
    n_enc = n_dec = 0
    for f in facts.functions:
        if f.get('dep') or f.get('body') is None: continue
        if not f['file'].endswith(('cbor_encoder.hpp', 'cbor_parser.hpp')): continue
        calls = [c for c in A.walk_no_lambda(f['body']) if c.get('k') == 'CallExpr' and A.callee_name(c) == 'min_length_for_stringref']
        if not calls: continue
        g = C.CFG(f['body'])
        chk.analysed(f)
        enc = f['file'].endswith('cbor_encoder.hpp')
        for i, c in enumerate(calls):
            nd = g.node_of(c)
            site = U.site(f, 'stringref test#%d' % (i + 1))
            if nd is None or nd.kind != 'cond':
                chk.fail('R06.3', site, f['file'], c.get('l'), 'min_length_for_stringref is not used in a branch condition', None, f['q']); continue
            cmp_ = G.comparison(nd.ast)
            arg = A.text(A.strip((c.get('args') or [None])[0], casts=True))
            want_arg = 'next_stringref_' if enc else 'stringref_map_stack_.back().size()'
            # orientation-free: `length >= min(...)` with the eligible outcome on the true edge, or its negation `length < min(...)` with
            # the eligible outcome on the false edge; the call may stand on either side
            elig = True
            if cmp_ is not None and any(y is c for y in A.walk(cmp_[1])):
                cmp_ = (G.FLIP[cmp_[0]], cmp_[2], cmp_[1])
            if cmp_ is not None and cmp_[0] == '<':
                cmp_ = ('>=', cmp_[1], cmp_[2]); elig = False
            lhs = A.strip(cmp_[1], casts=True) if cmp_ is not None else None
            ok_cmp = cmp_ is not None and cmp_[0] == '>=' and any(y is c for y in A.walk(cmp_[2])) and \
                     (A.callee_name(lhs) in ('size', 'length') or (lhs is not None and lhs.get('k') == 'DeclRefExpr' and lhs.get('n') in ('length', 'size', 'len')))
            te = [e for e in nd.succ if e.label is elig]
            appends = False
            if te:
                for x in G.region_of_edge(g, te[0]):
                    if isinstance(x.ast, dict):
                        for cc in A.calls_in(x.ast):
                            if A.callee_name(cc) in ('emplace', 'emplace_back', 'push_back') and ('stringref' in A.text(cc.get('obj')) ): appends = True
                        # a string that is never referenced still consumes an index: the counter advances without a table entry
                        if enc and any(y.get('k') == 'UnaryOperator' and y.get('op') == '++' and (A.strip(y.get('sub'), casts=True) or {}).get('n') == 'next_stringref_' for y in A.walk_no_lambda(x.ast)): appends = True
            if enc: n_enc += 1
            else: n_dec += 1
            if ok_cmp and arg == want_arg and appends:
                chk.ok('R06.3', site, {'function': f['q'], 'condition': A.text(nd.ast)[:90]})
            else:
                chk.fail('R06.3', site, f['file'], c.get('l'), 'string reference eligibility in %s is `%s` (table append under it: %s); both sides must test '
                         '`length >= min_length_for_stringref(%s)` and append under it' % (f['n'], A.text(nd.ast)[:70], appends, want_arg), None, f['q'])
    chk.require(n_enc >= 2 and n_dec >= 3, 'R06.3: stringref tests found: encoder %d, decoder %d' % (n_enc, n_dec))

def r06_5(chk, tier):
    """Every definite-length string the CBOR encoder writes is accounted for in the stringref numbering."""
    from .. import cfg as C, guards as G
    chk.rule('R06.5', 'CBOR stringref accounting: every byte/text string header the encoder writes (write_byte_string, write_utf8_string, the '
                      'bignum payload header) is preceded by the index accounting (registration with next_stringref_++, or '
                      'count_unreferenced_byte_string) or sits on the branch where the string is too short / packing is off; a decoder enters '
                      'every sufficiently long string of the namespace in its table, tagged or not', floor=12)
    facts = F.load(['cbor'], tier)
    if 'cbor' not in chk.units: chk.units.append('cbor')
    PRIMS = ('write_byte_string', 'write_utf8_string', 'write_unreferenced_byte_string', 'count_unreferenced_byte_string', 'write_type_and_length')
    n = 0; seen = set()
    for fn in facts.functions:
        if fn.get('dep') or fn.get('body') is None or not fn['file'].endswith('cbor_encoder.hpp') or 'basic_cbor_encoder' not in (fn.get('cls') or ''): continue
        if fn['n'] in PRIMS or (fn['file'], fn['l']) in seen: continue
        writes = []
        g = None
        for c in A.calls_in(fn['body'], no_lambda=True):
            nm = A.callee_name(c)
            if nm in ('write_byte_string', 'write_utf8_string', 'write_unreferenced_byte_string'): writes.append((c, nm))
            elif nm == 'write_type_and_length' and A.const((c.get('args') or [None])[0]) in (0x40, 0x60): writes.append((c, 'header 0x%02x' % A.const(c['args'][0])))
            elif nm == 'native_to_big' and c.get('args'):
                a0 = A.strip(c['args'][0], casts=True)
                if a0 is not None and a0.get('k') == 'BinaryOperator' and a0.get('op') == '+' and A.const(a0.get('lhs')) in (0x40, 0x60): writes.append((c, 'short header 0x%02x+n' % A.const(a0['lhs'])))
        if not writes: continue
        seen.add((fn['file'], fn['l']))
        chk.analysed(fn)
        g = C.CFG(fn['body'])
        acct = []
        for nd in g.rpo:
            if nd.kind not in ('stmt', 'cond') or not isinstance(nd.ast, dict): continue
            if any(A.callee_name(c) in ('count_unreferenced_byte_string', 'write_unreferenced_byte_string') for c in A.calls_in(nd.ast)): acct.append(nd)
            if any(y.get('k') == 'UnaryOperator' and y.get('op') == '++' and (A.strip(y.get('sub'), casts=True) or {}).get('n') == 'next_stringref_' for y in A.walk_no_lambda(nd.ast)): acct.append(nd)
        for i, (c, what) in enumerate(writes):
            nd = g.node_of(c)
            n += 1
            site = U.site(fn, 'string write#%d' % (i + 1))
            # every path to the write passes the accounting, or leaves the eligibility test on its false side
            def not_eligible(e):
                # outcome of a branch that means "this string gets no index": packing is off, or it is shorter than the minimum
                a = A.strip(e.ast, casts=True); lab = e.label
                while a is not None and a.get('k') == 'UnaryOperator' and a.get('op') == '!':
                    a = A.strip(a.get('sub'), casts=True); lab = not lab
                if a is None: return False
                if a.get('k') == 'MemberExpr' and a.get('n') == 'pack_strings_': return lab is False
                cm = G.comparison(a)
                if cm and any(A.callee_name(y) == 'min_length_for_stringref' for y in A.calls_in(a)):
                    op = cm[0]
                    if any(A.callee_name(y) == 'min_length_for_stringref' for y in A.calls_in(cm[1])): op = G.FLIP[op]
                    return (op == '>=' and lab is False) or (op == '<' and lab is True)
                return False
            exempt_edges = [e for e in g.rpo if e.kind == 'edge' and e.label in (True, False) and isinstance(e.ast, dict) and not_eligible(e)]
            ok = nd is not None and (nd in acct or not g.can_reach(g.entry, [nd], avoid=acct + exempt_edges))
            if ok: chk.ok('R06.5', site, {'function': fn['n'], 'line': c.get('l')})
            else: chk.fail('R06.5', site, fn['file'], c.get('l'), '%s writes a string (%s) at line %s without stringref accounting: with pack_strings a decoder gives this string an index the encoder does not count, and every later reference resolves to the wrong string' % (fn['n'], what, c.get('l')), None, fn['q'])
    chk.require(n >= 12, 'R06.5: only %d string writes found in the CBOR encoder' % n)

def r06_6(chk, tier):
    """Typed arrays unrolled element by element keep the element kind."""
    import re as _re
    chk.rule('R06.6', 'typed-array element events: every visit_typed_array overload that unrolls its span into single events (the default '
                      'implementations of json_visitor / generic_visitor and the CBOR encoder without typed-array support) emits the event of '
                      'the element type: unsigned integers -> uint64_value, signed integers -> int64_value, float/double -> double_value, '
                      'half (half_arg) -> half_value; a signed element sent as uint64_value turns -1 into 18446744073709551615', floor=30)
    EV = {'uint64_value': 'unsigned', 'visit_uint64': 'unsigned', 'int64_value': 'signed', 'visit_int64': 'signed',
          'double_value': 'floating', 'visit_double': 'floating', 'half_value': 'half', 'visit_half': 'half'}
    n = 0
    for unit in ('core', 'cbor'):
        facts = F.load([unit], tier)
        if unit not in chk.units: chk.units.append(unit)
        seen = set()
        for fn in facts.functions:
            if fn['n'] != 'visit_typed_array' or fn.get('body') is None or (fn['file'], fn['l']) in seen: continue
            calls = [c for c in A.calls_in(fn['body'], no_lambda=True) if A.callee_name(c) in EV]
            if not calls: continue
            seen.add((fn['file'], fn['l']))
            chk.analysed(fn)
            pts = [fn['_types'][p['t'] - 1] for p in fn['params']]
            half = any('half_arg' in t for t in pts[:1])
            spans = [t for t in pts if 'span<' in t]
            m = _re.search(r'span<const ([a-z _0-9]+?)\s*[,>]', spans[0]) if spans else None
            chk.require(m is not None, 'R06.6: element type of %s not recognised (%s)' % (fn['q'], pts[:2]))
            et = m.group(1).strip()
            if half: want = 'half'
            elif et in ('float', 'double', 'long double'): want = 'floating'
            elif et.startswith('unsigned') or et in ('uint8_t', 'uint16_t', 'uint32_t', 'uint64_t', 'bool'): want = 'unsigned'
            else: want = 'signed'
            for c in calls:
                n += 1
                got = EV[A.callee_name(c)]
                site = U.site(fn, 'elements of span<%s>%s' % (et, ' (half)' if half else ''))
                if got == want: chk.ok('R06.6', site, {'function': fn['q'], 'event': A.callee_name(c)})
                else:
                    chk.fail('R06.6', site, fn['file'], c.get('l'), '%s over span<const %s>%s emits %s for each element: %s elements are reported as %s values' % (
                        fn['n'], et, ' with half_arg' if half else '', A.callee_name(c), want, got), None, fn['q'])
    chk.require(n >= 30, 'R06.6: only %d element events found in visit_typed_array overloads' % n)

def r06_4(chk, tier):
    chk.rule('R06.4', 'CBOR tag symmetry: for every semantic tag the encoder writes as CBOR tag N on a text or byte string, the decoder maps '
                      'tag N on that major type back to the same semantic tag', floor=7)
    facts = F.load(['cbor'], tier)
    st = U.enum_by_suffix(F.load(['core'], tier), '::semantic_tag')
    tags = dict(st['values']); names = {v: k for k, v in st['values']}
    def enc_table(fname, nparams):
        out = {}
        fns = [f for f in U.functions(facts, cls='basic_cbor_encoder', name=fname) if len(f['params']) == nparams and f.get('body') is not None]
        chk.require(fns, 'basic_cbor_encoder::%s not found' % fname)
        fn = U.one_per_inst(fns)[0]
        chk.analysed(fn)
        for name, v in st['values']:
            pe = P.PEval(facts, fn, bind={'tag': v}, max_depth=1)
            try: pe.exec_body(fn, {})
            except P.Stop: pass
            wt = [e.args[0] for e in pe.effects if e.kind == 'call' and e.name == 'write_tag' and not e.guards and e.args and isinstance(e.args[0], int)]
            if len(wt) == 1: out[name] = wt[0]
        return out, fn
    enc_text, ef = enc_table('visit_string', 4)
    enc_bytes, ebf = enc_table('visit_byte_string', 4)
    chk.require(len(enc_text) >= 3 and len(enc_bytes) >= 3, 'R06.4: encoder tag tables too small (%s, %s)' % (enc_text, enc_bytes))
    # decoder: text strings
    hs = [f for f in U.functions(facts, cls='basic_cbor_parser', name='handle_string') if f.get('body') is not None]
    chk.require(hs, 'basic_cbor_parser::handle_string not found')
    hfn = U.one_per_inst(hs)[0]
    chk.analysed(hfn)
    for sem, N in sorted(enc_text.items()):
        if sem in ('bigint', 'bigdec', 'bigfloat'): continue      # written as tagged byte strings / arrays, not text
        pe = P.PEval(facts, hfn, max_depth=1)
        pe.exec_body(hfn, {('m', 'raw_tag_'): N})
        got = set(str(e.args[0]).split('::')[-1] for e in pe.effects if e.kind == 'assign' and e.name == 'tag' and e.args and 'semantic_tag' in str(e.args[0]) and any('item_tag' in g and not g.startswith('!') for g in e.guards))
        site = U.site(hfn, 'text tag %d <-> %s' % (N, sem))
        if got == {sem}: chk.ok('R06.4', site, {'semantic_tag': sem, 'cbor_tag': N})
        else: chk.fail('R06.4', site, hfn['file'], hfn['l'], 'encoder writes semantic_tag::%s on a text string as CBOR tag %d, but the decoder maps tag %d on a text string to %s' % (sem, N, N, sorted(got) or 'no tag'), None, hfn['q'])
    # decoder: byte strings
    rb = [f for f in U.functions(facts, cls='basic_cbor_parser', name='read_byte_string') if f.get('body') is not None and len(f['params']) == 3]
    chk.require(rb, 'basic_cbor_parser::read_byte_string(Read, visitor, ec) not found')
    rfn = U.one_per_inst(rb)[0]
    chk.analysed(rfn)
    for sem, N in sorted(enc_bytes.items()):
        pe = P.PEval(facts, rfn, max_depth=1, max_effects=8000)
        try: pe.exec_body(rfn, {('m', 'raw_tag_'): N})
        except P.Stop: pass
        got = set()
        for e in pe.effects:
            if e.kind == 'call' and e.name == 'visitor.byte_string_value' and len(e.args) > 1 and any('item_tag' in g and not g.startswith('!') for g in e.guards):
                a = e.args[1]
                got.add(names.get(a, str(a).split('::')[-1]) if not isinstance(a, str) else a.split('::')[-1])
        site = U.site(rfn, 'byte string tag %d <-> %s' % (N, sem))
        if got == {sem}: chk.ok('R06.4', site, {'semantic_tag': sem, 'cbor_tag': N})
        else: chk.fail('R06.4', site, rfn['file'], rfn['l'], 'encoder writes semantic_tag::%s on a byte string as CBOR tag %d, but the decoder maps tag %d on a byte string to %s' % (sem, N, N, sorted(got) or 'no tag'), None, rfn['q'])

# BSON element type -> the event class the (verified, R07.bson) decoder produces for it
BSON_CLASS = {0x01: 'double', 0x02: 'string', 0x03: 'object', 0x04: 'array', 0x05: 'byte_string', 0x06: 'null', 0x07: 'string', 0x08: 'bool',
              0x09: 'integer', 0x0a: 'null', 0x0b: 'string', 0x0d: 'string', 0x0e: 'string', 0x10: 'integer', 0x11: 'integer', 0x12: 'integer', 0x13: 'string'}
BSON_VISIT = {'visit_null': 'null', 'visit_bool': 'bool', 'visit_double': 'double', 'visit_int64': 'integer', 'visit_uint64': 'integer',
              'visit_string': 'string', 'visit_byte_string': 'byte_string', 'visit_begin_object': 'object', 'visit_begin_array': 'array'}
SIZEOF = {'double': 8, 'float': 4, 'long': 8, 'unsigned long': 8, 'int': 4, 'unsigned int': 4, 'short': 2, 'unsigned short': 2, 'char': 1,
          'unsigned char': 1, 'signed char': 1, 'bool': 1, 'long long': 8, 'unsigned long long': 8}

def r06_bson(chk, tier):
    from .. import cfg as C
    chk.rule('R06.bson', 'BSON encoder: every element type byte a visit_* writes belongs to the event class the decoder produces for that type '
                         '(BSON 1.1 element table), and the little-endian payload written after it has the width the table gives', floor=20)
    facts = F.load(['bson'], tier)
    if 'bson' not in chk.units: chk.units.append('bson')
    sp = c07.spec('bson.json')
    types = {int(k, 16): v for k, v in sp['types'].items()}
    n = 0
    for name, cls in sorted(BSON_VISIT.items()):
        fns = [f for f in U.functions(facts, cls='basic_bson_encoder', name=name) if f.get('body') is not None]
        chk.require(fns, 'basic_bson_encoder::%s not found' % name)
        done = set()
        for fn in U.one_per_inst(fns):
            key = (fn['l'],)
            if key in done: continue
            done.add(key)
            chk.analysed(fn)
            # the element may be written by a private helper the visit_* function hands over to (E11)
            from .. import inline as I
            fn = I.expand(facts, fn, allow=lambda callee, call: any(A.is_call(z) and A.callee_name(z) == 'before_value' for z in A.walk_no_lambda(callee['body'])), depth=2)
            g = C.CFG(fn['body'])
            marks = []
            for nd in g.rpo:
                if nd.kind not in ('stmt', 'cond') or not isinstance(nd.ast, dict): continue
                for c in A.calls_in(nd.ast):
                    if A.callee_name(c) == 'before_value' and c.get('args'): marks.append((nd, c))
            if not marks:
                chk.fail('R06.bson', U.site(fn, 'type byte'), fn['file'], fn['l'], '%s writes no element type byte (before_value)' % name, None, fn['q']); continue
            mark_nodes = [m[0] for m in marks]
            for i, (nd, c) in enumerate(marks):
                code = A.const(c['args'][0])
                n += 1
                site = U.site(fn, 'type byte #%d' % (i + 1))
                if code is None:
                    chk.fail('R06.bson', site, fn['file'], c.get('l'), '%s: element type is not a constant' % name, None, fn['q']); continue
                row = types.get(code)
                got = BSON_CLASS.get(code)
                if got != cls:
                    chk.fail('R06.bson', site, fn['file'], c.get('l'), '%s writes element type 0x%02x (%s), which the decoder reads back as %s, not %s' % (
                        name, code, row['name'] if row else 'undefined', got or 'an error', cls), {'type': '0x%02x' % code}, fn['q']); continue
                # payload width: the first native_to_little reachable from here before another type byte
                prob = None
                if row and row.get('payload') in (1, 4, 8) and row.get('read_type'):
                    seen = set(); stack = list(nd.succ); widths = []
                    while stack:
                        x = stack.pop()
                        if x.id in seen or x in mark_nodes: continue
                        seen.add(x.id)
                        hit = False
                        if x.kind in ('stmt', 'cond') and isinstance(x.ast, dict):
                            for c2 in A.calls_in(x.ast):
                                if A.callee_name(c2) == 'native_to_little' and c2.get('args'):
                                    a0 = c2['args'][0]
                                    tn = fn['_types'][a0['t'] - 1].replace('const ', '').replace('&', '').strip() if a0.get('t') else ''
                                    tn = {'int64_t': 'long', 'uint64_t': 'unsigned long', 'int32_t': 'int', 'uint32_t': 'unsigned int'}.get(tn, tn)
                                    widths.append((SIZEOF.get(tn), tn, c2.get('l'))); hit = True
                        if not hit: stack.extend(x.succ)
                    if not widths: prob = 'no little-endian payload follows'
                    for w, tn, l in widths:
                        if w != row['payload']: prob = 'the payload written at line %s is %s (%s bytes), the table says %d bytes' % (l, tn, w, row['payload'])
                if prob: chk.fail('R06.bson', site, fn['file'], c.get('l'), '%s, element type 0x%02x (%s): %s' % (name, code, row['name'], prob), None, fn['q'])
                else: chk.ok('R06.bson', site, {'function': name, 'type': '0x%02x' % code, 'name': row['name'] if row else None})
    chk.require(n >= 20, 'R06.bson: only %d element type writes found' % n)

def marker_pairs(facts, fn, bind=None):
    """(marker byte, following conversion (name, type) or None, guards, line) for every constant byte the function pushes."""
    pe = P.PEval(facts, fn, follow=lambda c, e: False, bind=bind or {}, max_depth=1)
    try: pe.exec_body(fn, {})
    except P.Stop: pass
    out = []
    effs = [e for e in pe.effects if e.kind == 'call']
    for i, e in enumerate(effs):
        one_byte_conv = e.name.split('::')[-1] in ('native_to_big', 'native_to_little') and (e.extra.get('ta') or ['?'])[0] in ('unsigned char', 'signed char', 'char')
        if (is_sink_push(e.name) or one_byte_conv) and e.args and isinstance(e.args[0], int) and not any(g.startswith('loop@') for g in e.guards):
            nxt = next((x for x in effs[i + 1:i + 4] if 'back_inserter' not in x.name), None)
            conv = None
            if nxt is not None and nxt.name.split('::')[-1] in ('native_to_big', 'native_to_little') and nxt.guards == e.guards:
                conv = (nxt.name.split('::')[-1], (nxt.extra.get('ta') or ['?'])[0])
            out.append((e.args[0] & 0xff, conv, e.guards, e.line))
    return out

def r06_scalars_msgpack(chk, facts, rows):
    """null / bool / double markers of the MessagePack encoder against the specification rows."""
    for name, binds, want in (('visit_null', [{}], [('null', None)]), ('visit_bool', [{'val': 1}, {'val': 0}], [('bool', True), ('bool', False)]),
                              ('visit_double', [{}], [('double', None)])):
        fns = [f for f in U.functions(facts, cls='basic_msgpack_encoder', name=name) if f.get('body') is not None]
        chk.require(fns, 'basic_msgpack_encoder::%s not found' % name)
        for fn in U.one_per_inst(fns):
            chk.analysed(fn)
            for b, (ev, val) in zip(binds, want if len(want) == len(binds) else want * len(binds)):
                mp = marker_pairs(facts, fn, b)
                site = U.site(fn, 'marker %s' % ('/'.join('%s=%s' % kv for kv in b.items()) or 'value'))
                if name != 'visit_double': mp = [m for m in mp if not m[2]][:1]
                if not mp:
                    chk.fail('R06.msgpack', site, fn['file'], fn['l'], '%s writes no constant marker byte' % name, None, fn['q']); continue
                bad = None
                for m, conv, gs, line in mp:
                    r = rows[m]
                    if r['event'] != ev: bad = (line, 'marker 0x%02x is %s (%s), expected a %s marker' % (m, r['family'], r['event'], ev)); break
                    if val is not None and r.get('value') is not val: bad = (line, 'marker 0x%02x encodes %s, the value is %s' % (m, r.get('value'), val)); break
                    if ev == 'double':
                        if conv is None or conv[0] != 'native_to_big': bad = (line, 'marker 0x%02x (%s) is not followed by a big-endian payload' % (m, r['family'])); break
                        if conv[1] != r['read_type']: bad = (line, 'marker 0x%02x announces %s but a %s is written' % (m, r['read_type'], conv[1])); break
                if name == 'visit_double' and not bad and sorted(set(m[0] for m in mp)) != [0xca, 0xcb]:
                    pass
                if bad: chk.fail('R06.msgpack', site, fn['file'], bad[0], '%s: %s' % (name, bad[1]), None, fn['q'])
                else: chk.ok('R06.msgpack', site, {'function': name, 'markers': ['0x%02x' % m[0] for m in mp]})

def r06_scalars(chk, rid, facts, cls, classify, floats):
    """null / bool / double markers of an encoder: classify(marker) -> ('null'|'bool'|'double'|..., value, payload type) from the specification."""
    for name, binds, want in (('visit_null', [{}], [('null', None)]), ('visit_bool', [{'val': 1, 'value': 1}, {'val': 0, 'value': 0}], [('bool', True), ('bool', False)]),
                              ('visit_double', [{}], [('double', None)])):
        fns = [f for f in U.functions(facts, cls=cls, name=name) if f.get('body') is not None]
        chk.require(fns, '%s::%s not found' % (cls, name))
        for fn in U.one_per_inst(fns)[:1]:
            chk.analysed(fn)
            for b, (ev, val) in zip(binds, want):
                mp = marker_pairs(facts, fn, b)
                if name == 'visit_null': mp = [m for m in mp if classify(m[0])[0] in ('null', 'undefined')] or mp
                if name == 'visit_bool': mp = [m for m in mp if not m[2]][:1]
                if name == 'visit_double': mp = [m for m in mp if m[1] is not None and m[1][1] in ('float', 'double', 'unsigned short')] or mp
                site = U.site(fn, 'marker %s' % ('%s' % val if val is not None else 'value'))
                if not mp:
                    chk.fail(rid, site, fn['file'], fn['l'], '%s writes no constant marker byte' % name, None, fn['q']); continue
                bad = None
                for m, conv, gs, line in mp:
                    got, gval, ptype = classify(m)
                    if name == 'visit_null' and got == 'undefined' and any('undefined' in g for g in gs): continue
                    if got != ev: bad = (line, 'marker 0x%02x denotes %s, expected %s' % (m, got, ev)); break
                    if val is not None and gval is not val: bad = (line, 'marker 0x%02x encodes %s, the value is %s' % (m, gval, val)); break
                    if ev == 'double':
                        if conv is None or conv[0] != 'native_to_big': bad = (line, 'marker 0x%02x is not followed by a big-endian payload' % m); break
                        if conv[1] != ptype: bad = (line, 'marker 0x%02x announces a %s payload but a %s is written' % (m, ptype, conv[1])); break
                if bad: chk.fail(rid, site, fn['file'], bad[0], '%s::%s: %s' % (cls, name, bad[1]), None, fn['q'])
                else: chk.ok(rid, site, {'function': name, 'markers': ['0x%02x' % m[0] for m in mp]})

def cbor_classify(m):
    if m >> 5 != 7: return ('major %d' % (m >> 5), None, None)
    info = m & 0x1f
    return {20: ('bool', False, None), 21: ('bool', True, None), 22: ('null', None, None), 23: ('undefined', None, None),
            25: ('double', None, 'unsigned short'), 26: ('double', None, 'float'), 27: ('double', None, 'double')}.get(info, ('simple/reserved %d' % info, None, None))

def ubjson_classify_factory(markers):
    def f(m):
        r = markers.get(chr(m))
        if not r: return ('undefined marker', None, None)
        ev = r['event']
        if ev == 'null': return ('null', None, None)
        if ev.startswith('bool'): return ('bool', ev.endswith('true'), None)
        if ev == 'double': return ('double', None, r['read_type'])
        return (ev, None, None)
    return f

def r06_timestamp(chk, facts):
    """MessagePack timestamp extension (type -1): the 32/64/96-bit form chosen must carry (seconds, nanoseconds) without loss."""
    fns = [f for f in U.functions(facts, cls='basic_msgpack_encoder', name='write_timestamp') if f.get('body') is not None]
    chk.require(fns, 'basic_msgpack_encoder::write_timestamp not found')
    secs = [0, 1, (1 << 32) - 1, 1 << 32, (1 << 34) - 1, 1 << 34, 1 << 40, -1, -(1 << 40)]
    nans = [0, 1, 999999999]
    for fn in U.one_per_inst(fns)[:1]:
        chk.analysed(fn)
        for sv in secs:
            for nv in nans:
                out, err, eff = outputs(facts, fn, {'seconds': sv, 'nanoseconds': nv})
                site = U.site(fn, 'timestamp sec=%d nsec=%d' % (sv, nv))
                why = None
                b = [o for o in out]
                def u(v, bits): return v & ((1 << bits) - 1)
                if not b or b[0][0] != 'byte': why = 'no marker byte written'
                else:
                    m = b[0][1]
                    if m == 0xd6:      # fixext4: uint32 seconds
                        if len(b) < 3 or b[1][1] != 0xff: why = 'fixext4 without type -1'
                        elif b[2][0] != 'native_to_big' or b[2][1] not in ('unsigned int',): why = 'timestamp32 payload written as %s' % (b[2][1],)
                        elif nv != 0 or not (0 <= sv < (1 << 32)) or b[2][2] != sv: why = 'timestamp32 (uint32 seconds) chosen, it carries seconds=%s nanoseconds=0' % (b[2][2],)
                    elif m == 0xd7:    # fixext8: nsec:30 | sec:34
                        if len(b) < 3 or b[1][1] != 0xff: why = 'fixext8 without type -1'
                        elif b[2][0] != 'native_to_big' or b[2][1] not in ('unsigned long', 'unsigned long long'): why = 'timestamp64 payload written as %s' % (b[2][1],)
                        else:
                            v = b[2][2]
                            if v is None or (v >> 34) != nv or (v & 0x3ffffffff) != sv or not (0 <= sv < (1 << 34)): why = 'timestamp64 chosen, it decodes to seconds=%s nanoseconds=%s' % (None if v is None else v & 0x3ffffffff, None if v is None else v >> 34)
                    elif m == 0xc7:    # ext8 length 12: uint32 nsec, int64 sec
                        if len(b) < 5 or b[1][1] != 12 or b[2][1] != 0xff: why = 'ext8 timestamp header is not (12, -1)'
                        elif b[3][0] != 'native_to_big' or b[3][1] != 'unsigned int' or b[3][2] != nv: why = 'timestamp96 nanoseconds field carries %s' % (b[3][2],)
                        elif b[4][0] != 'native_to_big' or b[4][1] not in ('unsigned long', 'long', 'unsigned long long', 'long long') or u(b[4][2], 64) != u(sv, 64): why = 'timestamp96 seconds field carries %s' % (b[4][2],)
                    else: why = 'marker 0x%02x is not a timestamp form' % m
                if why is None: chk.ok('R06.msgpack', site, {'marker': '0x%02x' % b[0][1]} if (sv, nv) in ((0, 0), (1 << 32, 0), (1 << 34, 1)) else None)
                else: chk.fail('R06.msgpack', U.site(fn, 'timestamp form'), fn['file'], b[0][2] if b else fn['l'], 'write_timestamp(seconds=%d, nanoseconds=%d): %s' % (sv, nv, why), None, fn['q'])

def r06_timestamp_unpack(chk, facts):
    """The decoder splits the 64-bit timestamp word at the bit where the encoder joined it."""
    enc = [f for f in U.functions(facts, cls='basic_msgpack_encoder', name='write_timestamp') if f.get('body') is not None]
    chk.require(enc, 'basic_msgpack_encoder::write_timestamp not found')
    joins = set()
    for x in A.walk_no_lambda(U.one_per_inst(enc)[0]['body']):
        if x.get('k') == 'BinaryOperator' and x.get('op') == '|':
            for y in A.walk(x):
                if y.get('k') == 'BinaryOperator' and y.get('op') == '<<' and A.const(y.get('rhs')) is not None: joins.add(A.const(y['rhs']))
    chk.require(len(joins) == 1, 'write_timestamp: the `(nanoseconds << K) | seconds` join was not recognised (%s)' % sorted(joins))
    K = joins.pop()
    n = 0
    for fn in U.one_per_inst([f for f in U.functions(facts, cls='basic_msgpack_parser') if f.get('body') is not None]):
        masks = {}; shifts = {}
        for d in A.walk_no_lambda(fn['body']):
            if d.get('k') != 'VarDecl' or d.get('init') is None: continue
            i = A.strip(d['init'], casts=True)
            if i is None or i.get('k') != 'BinaryOperator' or i.get('op') not in ('&', '>>'): continue
            v = A.strip(i.get('lhs'), casts=True); c = A.const(i.get('rhs'))
            if v is None or v.get('k') != 'DeclRefExpr' or c is None: continue
            (masks if i['op'] == '&' else shifts)[v.get('id')] = (c, d)
        for vid in set(masks) & set(shifts):
            n += 1
            chk.analysed(fn)
            (m, dm), (sh, ds) = masks[vid], shifts[vid]
            site = U.site(fn, 'timestamp64 split')
            if sh == K and m == (1 << K) - 1: chk.ok('R06.msgpack', site, {'shift': sh, 'mask': hex(m), 'encoder_join': K})
            else:
                chk.fail('R06.msgpack', site, fn['file'], dm.get('l'), 'timestamp64: the decoder takes seconds = word & %s and nanoseconds = word >> %d, the encoder writes '
                         '(nanoseconds << %d) | seconds: seconds above 2^%d are truncated or mixed with the nanoseconds' % (hex(m), sh, K, bin(m).count('1')), None, fn['q'])
    chk.require(n >= 1, 'msgpack parser: the split of the 64-bit timestamp word (mask and shift of one local) was not found')

def r06_timestamp_sign(chk, facts):
    """Negative time stamps: the encoder writes (truncated seconds, |remainder|); the decoder must take the remainder off again."""
    from .. import cfg as C, guards as G
    enc = [f for f in U.functions(facts, cls='basic_msgpack_encoder') if f.get('body') is not None]
    abs_sites = 0
    for fn in U.one_per_inst(enc):
        ts_args = set(A.ref_name((c.get('args') or [None, None])[1]) for c in A.calls_in(fn['body']) if A.callee_name(c) == 'write_timestamp' and len(c.get('args') or []) == 2)
        ts_args.discard(''); ts_args.discard(None)
        if not ts_args: continue
        g = C.CFG(fn['body'])
        for nd in g.rpo:
            if nd.kind != 'stmt' or not isinstance(nd.ast, dict): continue
            x = A.strip(nd.ast)
            if x is None or x.get('k') != 'BinaryOperator' or x.get('op') != '=' or A.ref_name(x.get('lhs')) not in ts_args: continue
            r = A.strip(x.get('rhs'), casts=True)
            if r is None or r.get('k') != 'UnaryOperator' or r.get('op') != '-' or A.ref_name(r.get('sub')) != A.ref_name(x.get('lhs')): continue
            v = A.ref_name(x.get('lhs'))
            if any((G.comparison(a) or (None,))[0] == '<' and A.ref_name(G.comparison(a)[1]) == v and A.const(G.comparison(a)[2]) == 0 and lab is True for a, lab, e in g.guards(nd)):
                abs_sites += 1
    if not abs_sites: return      # the encoder does not write |remainder|: nothing to mirror
    n = 0
    for fn in U.one_per_inst([f for f in U.functions(facts, cls='basic_msgpack_parser') if f.get('body') is not None]):
        # accumulators built from a signed seconds count: `bigint nano(sec)` with sec of a signed integer type
        accs = {}
        for d in A.walk_no_lambda(fn['body']):
            if d.get('k') != 'VarDecl' or d.get('init') is None or 'bigint' not in F.tname(fn, d.get('t')): continue
            srcs = [y for y in A.walk(d['init']) if y.get('k') == 'DeclRefExpr' and y.get('dk') == 'Var']
            if len(srcs) == 1 and F.tname(fn, srcs[0].get('t')).replace('const ', '').strip() in ('long', 'long long', 'int', 'int64_t', 'int32_t'):
                accs[d['id']] = d
        if not accs: continue
        g = C.CFG(fn['body'])
        chk.analysed(fn)
        for aid, d in accs.items():
            adds = []; subs = []
            for nd in g.rpo:
                if nd.kind != 'stmt' or not isinstance(nd.ast, dict): continue
                for c in A.calls_in(nd.ast):
                    if c.get('k') == 'CXXOperatorCallExpr' and c.get('oop') in ('+=', '-=') and (A.strip((c.get('args') or [None])[0], casts=True) or {}).get('id') == aid:
                        sign = [lab for a, lab, e in g.guards(nd) if (G.comparison(a) or (None,))[0] == '<' and (A.strip(G.comparison(a)[1], casts=True) or {}).get('id') == aid and A.const(G.comparison(a)[2]) == 0]
                        (adds if c['oop'] == '+=' else subs).append((nd, sign))
            if not adds and not subs: continue
            n += 1
            site = U.site(fn, 'signed timestamp join `%s`' % d.get('n'))
            ok = bool(adds) and bool(subs) and all(sg == [False] for nd, sg in adds) and all(sg == [True] for nd, sg in subs)
            if ok: chk.ok('R06.msgpack', site, {'encoder_abs_sites': abs_sites, 'line': d.get('l')})
            else:
                chk.fail('R06.msgpack', site, fn['file'], (adds or subs)[0][0].line, 'timestamp 96: the encoder writes a negative time as (seconds truncated toward zero, |sub-second remainder|) '
                         '(%d sites negate the remainder), so the decoder must subtract the nanoseconds when seconds*10^9 is negative and add them otherwise; here `%s` is '
                         'combined with %d addition(s) under %s and %d subtraction(s) under %s' % (abs_sites, d.get('n'), len(adds), [sg for _, sg in adds], len(subs), [sg for _, sg in subs]), None, fn['q'])
    chk.require(n >= 1, 'msgpack parser: the join of signed seconds and nanoseconds (timestamp 96) was not found')

def run(chk, tier, only_rule=None):
    chk.explanation = EXPLANATION
    chk.not_decided = NOT_DECIDED
    ladders(chk, tier)
    r06_3(chk, tier)
    r06_4(chk, tier)
    r06_5(chk, tier)
    r06_6(chk, tier)
    from . import c08
    c08.r08_4(chk, tier)      # what the encoders hand to a stream sink is what reaches the stream
    from . import c10, c03
    c10.r10_9(chk, tier)      # a composite value (bigfloat, decimal fraction) closes the array it opened through the encoder's own end function
    c03.r03_11(chk, F.load(['core'], tier))   # a long string read from an iterator range comes out of a scratch buffer that holds nothing else

def ladders(chk, tier):
    # ---- MessagePack
    chk.rule('R06.msgpack', 'MessagePack encoder ladders: integer, string, bin, array and map headers are exhaustive, non-truncating and use the '
                            'marker whose specification row reads the same width/type', floor=40)
    facts = F.load(['msgpack'], tier); chk.units.append('msgpack')
    rows = {}
    for r in c07.spec('msgpack.json')['rows']:
        for b in range(r['lo'], r['hi'] + 1): rows[b] = r
    none_tag = U.enum_by_suffix(F.load(['core'], tier), '::semantic_tag')
    tag_none = dict((n, v) for n, v in none_tag['values'])['none']
    def one(cls, name, pred=None):
        fs = [f for f in U.functions(facts_cur, cls=cls, name=name) if pred is None or pred(f)]
        chk.require(fs, '%s::%s not found' % (cls, name))
        return U.one_per_inst(fs)
    facts_cur = facts
    for fn in one('basic_msgpack_encoder', 'visit_uint64'):
        check_ladder(chk, 'R06.msgpack', facts, fn, 'val', 0, U64, lambda v, o: msgpack_decode(rows, v, o, 'uint'), {'tag': tag_none})
    for fn in one('basic_msgpack_encoder', 'visit_int64'):
        check_ladder(chk, 'R06.msgpack', facts, fn, 'val', I64MIN, I64MAX, lambda v, o: msgpack_decode(rows, v, o, 'int'), {'tag': tag_none})
    for fn in one('basic_msgpack_encoder', 'write_string_value'):
        check_ladder(chk, 'R06.msgpack', facts, fn, 'length', 0, U64, lambda v, o: msgpack_decode(rows, v, o, 'str'))
    for fn in one('basic_msgpack_encoder', 'visit_byte_string'):
        is_ext = 'raw_tag' in [p_['n'] for p_ in fn['params']] or 'unsigned long' == F.tname(fn, fn['params'][1]['t'])
        check_ladder(chk, 'R06.msgpack', facts, fn, 'length', 0, U64, lambda v, o, fam=('ext' if is_ext else 'bin'): msgpack_decode(rows, v, o, fam), label='visit_byte_string(%s)' % ('ext' if is_ext else 'bin'))
    r06_scalars_msgpack(chk, facts, rows)
    r06_timestamp(chk, facts)
    r06_timestamp_unpack(chk, facts)
    r06_timestamp_sign(chk, facts)
    for fn in one('basic_msgpack_encoder', 'visit_begin_array', lambda f: len(f['params']) == 4):
        check_ladder(chk, 'R06.msgpack', facts, fn, 'length', 0, U64, lambda v, o: msgpack_decode(rows, v, o, 'array'))
    for fn in one('basic_msgpack_encoder', 'visit_begin_object', lambda f: len(f['params']) == 4):
        check_ladder(chk, 'R06.msgpack', facts, fn, 'length', 0, U64, lambda v, o: msgpack_decode(rows, v, o, 'map'))
    # ---- CBOR
    chk.rule('R06.cbor', 'CBOR encoder ladders: write_type_and_length / write_uint64_value / write_int64_value are exhaustive, non-truncating '
                         'and use the additional-information value whose argument width matches (RFC 8949)', floor=20)
    facts = F.load(['cbor'], tier); chk.units.append('cbor'); facts_cur = facts
    for fn in one('basic_cbor_encoder', 'write_type_and_length'):
        for mj in (0, 1, 2, 3, 4, 5):
            check_ladder(chk, 'R06.cbor', facts, fn, 'length', 0, U64, lambda v, o, mj=mj: cbor_decode(v, o, mj, raw=True), {'major_type': mj << 5}, label='major%d' % mj)
    fol = c07.same_class_follow('basic_cbor_encoder')
    for fn in one('basic_cbor_encoder', 'write_uint64_value'):
        check_ladder(chk, 'R06.cbor', facts, fn, 'value', 0, U64, lambda v, o: cbor_decode(v, o, 0), follow=fol)
    for fn in one('basic_cbor_encoder', 'write_int64_value'):
        check_ladder(chk, 'R06.cbor', facts, fn, 'value', I64MIN, I64MAX, lambda v, o: cbor_decode(v, o, 0 if v >= 0 else 1), follow=fol)
    r06_scalars(chk, 'R06.cbor', facts, 'basic_cbor_encoder', cbor_classify, None)
    # ---- UBJSON
    chk.rule('R06.ubjson', 'UBJSON encoder ladders: visit_int64 / visit_uint64 write the smallest fitting integer marker with a big-endian '
                           'payload of that type, for every value (an unrepresentable value must store an error)', floor=20)
    facts = F.load(['ubjson'], tier); chk.units.append('ubjson'); facts_cur = facts
    for fn in one('basic_ubjson_encoder', 'visit_int64'):
        check_ladder(chk, 'R06.ubjson', facts, fn, 'val', I64MIN, I64MAX, lambda v, o: ubjson_decode(v, o), {'tag': tag_none})
    for fn in one('basic_ubjson_encoder', 'put_length'):
        check_ladder(chk, 'R06.ubjson', facts, fn, 'length', 0, U64, lambda v, o: ubjson_decode(v, o))
    for fn in one('basic_ubjson_encoder', 'visit_uint64'):
        check_ladder(chk, 'R06.ubjson', facts, fn, 'val', 0, U64, lambda v, o: ubjson_decode(v, o), {'tag': tag_none})
    r06_scalars(chk, 'R06.ubjson', facts, 'basic_ubjson_encoder', ubjson_classify_factory(c07.spec('ubjson.json')['markers']), None)
    r06_bson(chk, tier)
