#include <jsoncons/json.hpp>
#include <jsoncons_ext/csv/csv.hpp>
#include <iostream>
using namespace jsoncons;
static std::string drain(csv::csv_string_cursor& c)
{
    std::string out;
    for (; !c.done(); c.next())
    {
        const auto& e = c.current();
        switch (e.event_type())
        {
            case staj_event_type::begin_array: out += "["; break;
            case staj_event_type::end_array: out += "]"; break;
            case staj_event_type::begin_object: out += "{"; break;
            case staj_event_type::end_object: out += "}"; break;
            case staj_event_type::key: out += e.get<std::string>() + ":"; break;
            default: out += e.get<std::string>() + ","; break;
        }
    }
    return out;
}
int main()
{
    auto opts = csv::csv_options{}.assume_header(true).comment_starter('#');
    std::string in1 = "#one\n#two\nA,B\n1,2\n";
    std::string in2 = "A,B\n3,4\n";
    csv::csv_string_cursor cur(in1, opts);
    std::string r1 = drain(cur);
    cur.reset(in2);
    std::string r2 = drain(cur);
    csv::csv_string_cursor fresh(in2, opts);
    std::string r3 = drain(fresh);
    std::cout << r1 << "\n" << r2 << "\n" << r3 << "\n";
    if (r2 != r3) { std::cout << "MISMATCH: reused cursor differs from a fresh one\n"; return 1; }
    std::cout << "OK\n"; return 0;
}
