#include <jsoncons/json.hpp>
#include <jsoncons_ext/bson/bson.hpp>
#include <iostream>
using namespace jsoncons;
int main() {
    for (const char* s : {"1E6144", "1E6145", "-1E6145", "10E6144", "0.10E6146"}) {
        bson::decimal128_t d;
        auto r = bson::decimal128_from_chars(s, s + strlen(s), d);
        char buf[bson::decimal128_limits::buf_size+1];
        auto r2 = bson::decimal128_to_chars(buf, buf+sizeof(buf), d);
        std::cout << s << " -> ec=" << (int)r.ec << " " << std::string(buf, r2.ptr) << "\n";
    }
}
