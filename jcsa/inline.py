"""Helper inlining on the statement trees (refactoring robustness).

A maintainer may move a few statements of a function into a private helper (`return end_container(ec);`,
`check_declared_length(stack_.back(), ec);`).  Rules that look at one function body - its CFG, its guards - would lose sight of
those statements.  `expand(facts, fn)` returns a copy of the function record whose body has such calls replaced by the helper's
body (an `InlinedCall` node; parameters substituted by the argument expressions), so that the rule analyses the same statements
whether or not they were extracted.  Only calls in statement position are expanded:

    return helper(args);      tail call - the helper's returns are the caller's returns
    helper(args);             the helper's `return` continues after the call (cfg.Ctx.ret)

and only helpers that are resolved (direct callee with a body in the same file), not recursive, called on `this` (or free
functions), whose parameters are not modified inside, and that the caller-supplied `allow` predicate accepts.  A call inside a
condition (`if (!enter(ec)) return;`) is left alone - rules that need it use guards.wrapper summaries.
"""
import copy
from . import ast as A

MAX_NODES = 4000

def _count(n):
    return sum(1 for _ in A.walk(n))

def _subst(node, mapping):
    """Replace DeclRefExpr nodes that refer to a helper parameter by (a copy of) the argument expression."""
    if isinstance(node, dict):
        if node.get('k') == 'DeclRefExpr' and node.get('id') in mapping:
            arg = copy.deepcopy(mapping[node['id']])
            sa = A.strip(arg, casts=True)
            if sa is not None and sa.get('k') in ('DeclRefExpr', 'MemberExpr'): return sa
            return {'k': 'ParenExpr', 'l': node.get('l'), 'sub': arg, 't': node.get('t')}
        out = {k: _subst(v, mapping) for k, v in node.items()}
        if out.get('k') == 'CXXOperatorCallExpr' and out.get('oop') == '()' and out.get('args'):
            # a callable parameter bound to a lambda whose body is a single `return E;` (a comparator handed to a shared helper):
            # `comp(a, b)` is E with the lambda's parameters replaced by a and b
            le = _lambda_of(out['args'][0]) if any(y.get('k') == 'DeclRefExpr' and y.get('id') in mapping for y in A.walk(node['args'][0])) else None
            if le is not None and isinstance(le.get('params'), list) and len(le['params']) == len(out['args']) - 1:
                b = le.get('body') or {}
                st = [x for x in (b.get('c') or [])] if b.get('k') == 'CompoundStmt' else []
                if len(st) == 1 and st[0].get('k') == 'ReturnStmt' and st[0].get('val') is not None:
                    inner = {p_['id']: a for p_, a in zip(le['params'], out['args'][1:])}
                    return {'k': 'ParenExpr', 'l': out.get('l'), 'sub': _subst(copy.deepcopy(st[0]['val']), inner), 't': out.get('t')}
        if out.get('k') == 'ConditionalOperator' and isinstance(out.get('cond'), dict):
            # `flag ? a : b` with a constant argument substituted for the parameter `flag` is the selected operand
            c = A.const(out['cond'])
            if c is not None and any(y.get('k') == 'DeclRefExpr' and y.get('id') in mapping for y in A.walk(node.get('cond'))):
                return out.get('then') if c else out.get('else')
        return out
    if isinstance(node, list):
        return [_subst(x, mapping) for x in node]
    return node

def _call_of(stmt):
    """The call expression when stmt is `call(...);` or `return call(...);`, with the flag `tail`."""
    if not isinstance(stmt, dict): return None, False
    k = stmt.get('k')
    if k == 'ReturnStmt':
        v = stmt.get('val')
        while v is not None and v.get('k') in ('ExprWithCleanups', 'MaterializeTemporaryExpr', 'CXXBindTemporaryExpr', 'ParenExpr', 'ImplicitCastExpr'):
            v = v.get('sub')
        if v is not None and v.get('k') in ('CallExpr', 'CXXMemberCallExpr'): return v, True
        return None, False
    e = stmt
    while e is not None and e.get('k') in ('ExprWithCleanups', 'ParenExpr', 'ImplicitCastExpr'):
        e = e.get('sub')
    if e is not None and e.get('k') in ('CallExpr', 'CXXMemberCallExpr'): return e, False
    return None, False

def expand(facts, fn, allow=None, depth=2):
    """Copy of fn with helper calls in statement position inlined (see module doc).  Returns fn itself when nothing applies."""
    if fn.get('body') is None: return fn
    def fkey(f): return (f['q'], f['file'], f['l'])       # overloads share a qualified name
    stack = [fkey(fn)]
    changed = [False]
    def inlinable(call):
        callee = facts.callee(fn, call)
        if callee is None or callee.get('body') is None or callee.get('dep'): return None
        if callee['file'] != fn['file'] or fkey(callee) in stack: return None
        if call.get('k') == 'CXXMemberCallExpr':
            o = A.strip(call.get('obj'), casts=True)
            if o is not None and o.get('k') != 'CXXThisExpr': return None
        if allow is not None and not allow(callee, call): return None
        if _count(callee['body']) > MAX_NODES: return None
        # a parameter the helper writes to is substitutable only when it is a reference bound to a plain variable or member of the caller
        mut = A.mutated_ids(callee['body'])
        for p, a in zip(callee['params'], call.get('args') or []):
            if p['id'] not in mut: continue
            sa = A.strip(a, casts=True)
            if not callee['_types'][p['t'] - 1].endswith('&') or sa is None or sa.get('k') not in ('DeclRefExpr', 'MemberExpr'): return None
        if any(x.get('k') in ('GotoStmt', 'LabelStmt') for x in A.walk_no_lambda(callee['body'])): return None
        return callee
    def tx(stmt, d):
        if not isinstance(stmt, dict): return stmt
        k = stmt.get('k')
        call, tail = _call_of(stmt)
        if call is not None and d > 0:
            callee = inlinable(call)
            if callee is not None:
                args = call.get('args') or []
                mapping = {p['id']: a for p, a in zip(callee['params'], args)}
                stack.append(fkey(callee))
                body = tx(_subst(copy.deepcopy(callee['body']), mapping), d - 1)
                stack.pop()
                changed[0] = True
                return {'k': 'InlinedCall', 'l': stmt.get('l'), 'tail': tail, 'callee': None, 'name': callee['n'], 'q': callee['q'], 'body': body, 'call': call}
        if k == 'CompoundStmt':
            return dict(stmt, c=[tx(c, d) for c in stmt.get('c') or []])
        if k == 'IfStmt':
            return dict(stmt, **{'then': tx(stmt.get('then'), d), 'else': tx(stmt.get('else'), d)})
        if k in ('ForStmt', 'WhileStmt', 'DoStmt', 'CXXForRangeStmt', 'SwitchStmt', 'InlinedCall'):
            return dict(stmt, body=tx(stmt.get('body'), d))
        if k in ('CaseStmt', 'DefaultStmt', 'LabelStmt'):
            return dict(stmt, sub=tx(stmt.get('sub'), d))
        if k == 'CXXTryStmt':
            return dict(stmt, body=tx(stmt.get('body'), d)) if stmt.get('body') is not None else stmt
        return stmt
    body = tx(fn['body'], depth)
    if not changed[0]: return fn
    out = dict(fn)
    out['body'] = body
    out['_expanded'] = True
    return out


def closure_bodies(facts, fn, depth=2, allow=None):
    """Body of fn plus the bodies of the same-file helpers it calls on `this` (or free functions), transitively to `depth`:
    for rules that ask "does this function (by itself or through a helper it was split into) contain ...?"."""
    def fkey(f): return (f['q'], f['file'], f['l'])
    out = []; seen = {fkey(fn)}
    def rec(f, d):
        out.append(f['body'])
        if d == 0: return
        for call in A.calls_in(f['body'], no_lambda=True):
            if call.get('k') not in ('CallExpr', 'CXXMemberCallExpr'): continue
            callee = facts.callee(f, call)
            if callee is None or callee.get('body') is None or callee.get('dep') or fkey(callee) in seen or callee['file'] != fn['file']: continue
            if call.get('k') == 'CXXMemberCallExpr':
                o = A.strip(call.get('obj'), casts=True)
                if o is not None and o.get('k') != 'CXXThisExpr': continue
            if allow is not None and not allow(callee, call): continue
            seen.add(fkey(callee))
            rec(callee, d - 1)
    if fn.get('body') is not None: rec(fn, depth)
    return out


# ---- local lambdas -------------------------------------------------------------------------------------------------------------
def _lambda_of(init):
    e = init
    while e is not None and e.get('k') in ('ExprWithCleanups', 'MaterializeTemporaryExpr', 'CXXBindTemporaryExpr', 'ImplicitCastExpr', 'CXXConstructExpr', 'ParenExpr'):
        if e.get('k') == 'CXXConstructExpr':
            a = e.get('args') or []
            if len(a) != 1: return None
            e = a[0]
        else:
            e = e.get('sub')
    return e if e is not None and e.get('k') == 'LambdaExpr' else None

def desugar_lambdas(body, depth=2):
    """A maintainer may wrap a repeated statement sequence in a local lambda:

        auto fail = [&](errc e) { ec = e; more_ = false; return val; };  ...  return fail(errc::eof);

    The rules analyse statements.  This pass replaces a call of such a lambda *in statement position* - `return f(args);` or `f(args);` -
    by the statements of its body with the parameters replaced by the (side-effect free) arguments, which means the same: the lambda
    captures everything by reference, is never reassigned, and a body used in `f(args);` position has no return other than a final one.
    Anything else (by-copy captures, calls inside expressions, impure arguments) is left as it is."""
    if not isinstance(body, dict) or depth <= 0: return body
    lams = {}
    for x in A.walk(body):
        if x.get('k') == 'VarDecl' and x.get('init') is not None:
            le = _lambda_of(x['init'])
            if le is not None and le.get('capref') and isinstance(le.get('params'), list) and isinstance(le.get('body'), dict):
                lams[x.get('id')] = le
    if not lams: return body
    for i in A.mutated_ids(body): lams.pop(i, None)
    if not lams: return body
    changed = [False]
    def call_of(e):
        while e is not None and e.get('k') in ('ExprWithCleanups', 'ParenExpr', 'ImplicitCastExpr', 'MaterializeTemporaryExpr', 'CXXBindTemporaryExpr', 'CXXFunctionalCastExpr', 'CStyleCastExpr', 'CXXStaticCastExpr'):
            e = e.get('sub')
        if e is None or e.get('k') != 'CXXOperatorCallExpr' or e.get('oop') != '()': return None
        a = e.get('args') or []
        if not a: return None
        f = A.strip(a[0], casts=True)
        if f is None or f.get('k') != 'DeclRefExpr' or f.get('id') not in lams: return None
        le = lams[f['id']]
        if len(le['params']) != len(a) - 1: return None
        if not all(A.pure_expr(x, True) for x in a[1:]): return None
        return le, a[1:]
    def body_of(le, args):
        mapping = {p['id']: a for p, a in zip(le['params'], args)}
        return _subst(copy.deepcopy(le['body']), mapping)
    def returns_in(b):
        return [y for y in A.walk_no_lambda(b) if y.get('k') == 'ReturnStmt']
    def tx(stmt):
        if isinstance(stmt, list): return [tx(x) for x in stmt]
        if not isinstance(stmt, dict): return stmt
        k = stmt.get('k')
        if k == 'LambdaExpr': return stmt
        if k == 'ReturnStmt':
            r = call_of(stmt.get('val'))
            if r is not None:
                changed[0] = True
                return body_of(*r)
            return stmt
        r = call_of(stmt) if k in ('CXXOperatorCallExpr', 'ExprWithCleanups', 'ParenExpr') else None
        if r is not None:
            b = body_of(*r)
            rets = returns_in(b)
            top = b.get('c') or [] if b.get('k') == 'CompoundStmt' else []
            if not rets or (len(rets) == 1 and top and top[-1] is rets[0] and (rets[0].get('val') is None or A.pure_expr(rets[0]['val'], True))):
                changed[0] = True
                return dict(b, c=[x for x in top if not rets or x is not rets[0]])
            return stmt
        if k == 'CompoundStmt': return dict(stmt, c=[tx(c) for c in stmt.get('c') or []])
        if k == 'IfStmt': return dict(stmt, **{'then': tx(stmt.get('then')), 'else': tx(stmt.get('else'))})
        if k in ('ForStmt', 'WhileStmt', 'DoStmt', 'CXXForRangeStmt', 'SwitchStmt', 'InlinedCall', 'CXXTryStmt', 'CXXCatchStmt'):
            out = dict(stmt)
            if stmt.get('body') is not None: out['body'] = tx(stmt['body'])
            if isinstance(stmt.get('handlers'), list): out['handlers'] = tx(stmt['handlers'])
            return out
        if k in ('CaseStmt', 'DefaultStmt', 'LabelStmt', 'AttributedStmt'):
            return dict(stmt, sub=tx(stmt.get('sub'))) if stmt.get('sub') is not None else stmt
        return stmt
    out = tx(body)
    if not changed[0]: return body
    return desugar_lambdas(out, depth - 1)
