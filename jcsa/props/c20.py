"""C20 Immutable artifacts are safe to share across threads - absence of shared writable state behind the const API."""
from .. import frontend as F, ast as A, util as U

EXPLANATION = ('Who-may-do-what scans over the resolved program: (R20.1) no mutable field in the artifact classes and everything they '
               'are built from; (R20.2) no const_cast; (R20.3) no object of static storage duration to which non-const access is handed '
               'out, except a frozen table with checked supporting facts; (R20.4) inside const methods of the artifact classes, calls through '
               'pointer members resolve to const methods (deep const); (R20.5) per-call evaluation state is not stored in the artifact. '
               'Zero-count rules carry positive controls in /verif/drivers/control.cpp.')
NOT_DECIDED = 'interleavings and equality of per-thread results (schedules are runtime); only the structural absence of shared writable state is decided'

ARTIFACT_FILES = ('jsoncons_ext/jsonschema/', 'jsoncons_ext/jsonpath/', 'jsoncons_ext/jmespath/',
                  'jsoncons/basic_json.hpp', 'jsoncons/json_array.hpp', 'jsoncons/sorted_json_object.hpp', 'jsoncons/ordered_json_object.hpp',
                  'jsoncons/key_value.hpp', 'jsoncons/utility/heap_string.hpp', 'jsoncons/utility/uri.hpp', 'jsoncons/utility/byte_string.hpp',
                  'jsoncons/json_type.hpp', 'jsoncons/semantic_tag.hpp', 'jsoncons/utility/bigint.hpp',
                  # number and text conversion helpers that evaluation (to_string, number comparison, regex keys) runs through
                  'jsoncons/utility/write_number.hpp', 'jsoncons/utility/read_number.hpp', 'jsoncons/detail/grisu3.hpp', 'jsoncons/utility/unicode_traits.hpp')

MUTABLE_OK = {
    # (class without template args, field): reason
    ('jsoncons::key_not_found', 'what_'): 'exception object, created per throw; lazily formatted message',
    ('jsoncons::not_an_object', 'what_'): 'exception object, created per throw; lazily formatted message',
    ('jsoncons::jsonpath::jsonpath_error', 'what_'): 'exception object, created per throw; lazily formatted message',
    ('jsoncons::jmespath::jmespath_error', 'what_'): 'exception object, created per throw; lazily formatted message',
}

STATIC_OK = {
    # (function without template args, variable): (reason, supporting fact checker name)
    ('jsoncons::jsonpath::detail::eval_context::null_value', 'a_null'):
        ('returned by evaluate() for a missing member only; never passed to the update callback', 'only_returned'),
}

def in_artifact(file):
    return any(x in file for x in ARTIFACT_FILES)

def is_nonconst_ref_or_ptr(t):
    t = t.strip()
    if t.endswith('&') or t.endswith('*'):
        inner = t[:-1].strip()
        if t.endswith('&&'): inner = t[:-2].strip()
        return not (inner.startswith('const ') or inner.endswith(' const') or inner.endswith('const'))
    return False

def run(chk, tier, only_rule=None):
    chk.explanation = EXPLANATION
    chk.not_decided = NOT_DECIDED
    units = ['core', 'jsonpath', 'jmespath', 'jsonschema', 'control']
    facts = F.load(units, tier)
    chk.units = units
    chk.rule('R20.1', 'no mutable field in a class of the artifact files (json_schema, jsonpath/jmespath expressions, basic_json and parts), '
                      'except exception what_ caches (table)', floor=100)
    chk.rule('R20.2', 'no const_cast in any function of the artifact files', floor=500)
    chk.rule('R20.3', 'no object of static storage duration is handed out through a non-const reference or pointer, unless its class has '
                      'no data members or it is a table entry whose supporting fact holds', floor=30)
    chk.rule('R20.4', 'deep const: in const methods of artifact classes, member calls through pointer-like fields resolve to const methods', floor=100)
    chk.rule('R20.5', 'per-call evaluation state (eval_context, dynamic_resources, evaluation context stacks) is not a field of an artifact class', floor=3)
    # ---- R20.1
    ctl_mut = False
    seen = set()
    for r in facts.records:
        for f in r['fields']:
            key = (A.strip_targs(r['q']), f['n'])
            if r['file'].startswith('drivers/control.cpp'):
                if f.get('mutable'): ctl_mut = True
                continue
            if not in_artifact(r['file']): continue
            if key in seen: continue
            seen.add(key)
            site = '%s %s::%s' % (r['file'], key[0].replace('jsoncons::', ''), key[1])
            if f.get('mutable') and key not in MUTABLE_OK:
                chk.fail('R20.1', site, r['file'], f['l'], 'mutable field %s::%s (type %s) is writable through a const artifact' % (key[0], key[1], F.tname(r, f['t'])[:60]),
                         {'class': r['q'], 'field': f['n']}, r['q'])
            else:
                chk.ok('R20.1', site, {'class': key[0], 'field': key[1], 'mutable': bool(f.get('mutable')), 'exempt': MUTABLE_OK.get(key)} if f.get('mutable') else None,
                       nontrivial=bool(f.get('mutable')) or len(seen) % 10 == 0)
    chk.require(ctl_mut, 'R20.1 positive control (mutable field in drivers/control.cpp) not detected')
    # ---- R20.2
    ctl_cc = False
    fseen = set()
    for fn in facts.functions:
        body = fn.get('body')
        if body is None: continue
        k = (fn['file'], fn['l'], fn['n'], bool(fn.get('dep')))
        ctl = fn['file'].startswith('drivers/control.cpp')
        if not ctl and not in_artifact(fn['file']): continue
        if k in fseen: continue
        fseen.add(k)
        chk.analysed(fn)
        ccs = [x for x in A.walk(body) if x.get('k') == 'CXXConstCastExpr']
        if ctl:
            if ccs: ctl_cc = True
            continue
        site = U.site(fn, 'const_cast')
        if ccs:
            chk.fail('R20.2', site, fn['file'], ccs[0].get('l'), 'const_cast in %s' % fn['q'][:100], {'expr': A.text(ccs[0])}, fn['q'])
        else:
            chk.ok('R20.2', site, None, nontrivial=False)
    chk.require(ctl_cc, 'R20.2 positive control (const_cast in drivers/control.cpp) not detected')
    # ---- R20.3
    fn_by_q = {}; fns_by_q = {}
    for fn in facts.functions:
        fn_by_q.setdefault(fn['q'], fn)
        fns_by_q.setdefault(fn['q'], []).append(fn)
    callers_of_null = []
    ctl_static = False
    vseen = set()
    for v in facts.vars:
        if v.get('const'): continue
        ctl = v['file'].startswith('drivers/control.cpp')
        if not ctl and not v['file'].startswith('include/jsoncons'): continue
        k = (v['file'], v['l'], v['n'])
        fq = v.get('fn')
        if v.get('dep'):
            # uninstantiated pattern: decidable only when no instantiation exists and the return type is syntactically a
            # non-const reference/pointer (a dependent typedef such as `reference` is left to the instantiations)
            if any((w['file'], w['l'], w['n']) == k and not w.get('dep') for w in facts.vars): continue
            f0 = fn_by_q.get(fq) if fq else None
            if f0 is None: continue
            rt0 = F.tname(f0, f0['ret'])
            if 'typename' in rt0 or '::' in rt0.replace('std::', '') or not is_nonconst_ref_or_ptr(rt0): continue
        site = '%s %s %s' % (v['file'], A.strip_targs(fq or v['q']).replace('jsoncons::', ''), v['n'])
        if site in vseen: continue
        vseen.add(site)
        handed = None
        if v.get('local') and fq:
            f = fn_by_q.get(fq)
            if f is None:
                chk.note('R20.3: enclosing function %s of static %s not in facts' % (fq, v['n'])); continue
            rt = F.tname(f, f['ret'])
            # does the function return (a pointer/reference to) this variable?
            refs = False
            for x in A.walk(f['body']):
                if x.get('k') == 'ReturnStmt':
                    for y in A.walk(x.get('val')):
                        if y.get('k') == 'DeclRefExpr' and y.get('id') == v['id']: refs = True
            if refs and is_nonconst_ref_or_ptr(rt): handed = 'returned as `%s` by %s' % (rt[:60], A.strip_targs(fq))
        else:
            handed = 'namespace-scope or static-member object that is not const'
        if ctl:
            if handed: ctl_static = True
            continue
        if not handed:
            chk.ok('R20.3', site, {'static': v['n'], 'function': fq, 'verdict': 'no non-const access handed out'}); continue
        if v.get('rec_empty'):
            chk.ok('R20.3', site, {'static': v['n'], 'verdict': 'class has no data members'}); continue
        key = (A.strip_targs(fq or v['q']), v['n'])
        if key in STATIC_OK:
            reason, fact = STATIC_OK[key]
            # supporting fact: every use of the accessor is the operand of a return statement
            bad = None
            acc = key[0].rsplit('::', 1)[-1]
            for g in facts.functions:
                if g.get('dep') or g.get('body') is None: continue
                for st in A.walk(g['body']):
                    if st.get('k') in A.CALLS and A.callee_name(st) == acc and A.strip_targs(st.get('cq', '')) == key[0]:
                        # find enclosing return
                        ok = False
                        for r in A.walk(g['body']):
                            if r.get('k') == 'ReturnStmt' and any(y is st for y in A.walk(r.get('val'))): ok = True
                        if not ok: bad = (g, st)
            if bad:
                chk.fail('R20.3', site + ' fact', bad[0]['file'], bad[1].get('l'),
                         'table entry %s relies on "%s", but %s uses it outside a return statement' % (key, reason, bad[0]['q'][:80]), None, bad[0]['q'])
            else:
                chk.ok('R20.3', site, {'static': v['n'], 'exempt': reason, 'supporting_fact': 'every use of the accessor is returned'})
            continue
        chk.fail('R20.3', site, v['file'], v['l'], 'writable static `%s` (%s) is %s' % (v['n'], F.tname(v, v['t'])[:50], handed),
                 {'static': v['q'], 'function': fq}, fq or v['q'])
    chk.require(ctl_static, 'R20.3 positive control (static handed out by non-const reference) not detected')
    # ---- R20.6: a function-local static is initialised once (thread-safe) and never written again
    chk.rule('R20.6', 'function-local statics of the artifact files are never written after their initialisation (no assignment, ++/--, mutating '
                      'member call, or binding to a non-const reference parameter): concurrent calls share them', floor=30)
    WRITERS = {'assign', 'append', 'push_back', 'emplace_back', 'pop_back', 'clear', 'insert', 'erase', 'resize', 'reserve', 'swap', 'replace',
               'emplace', 'try_emplace', 'insert_or_assign', 'operator=', 'operator+=', 'reset', 'store', 'exchange', 'fetch_add'}
    ctl_w = False; wseen = set()
    fn_by_id = {}
    for fn in facts.functions: fn_by_id.setdefault(fn['id'], fn)
    for v in sorted(facts.vars, key=lambda w: 1 if w.get('dep') else 0):      # instantiations first; a pattern only when nothing instantiates it
        if not v.get('local') or v.get('const') or not v.get('fn'): continue
        ctl = v['file'].startswith('drivers/control.cpp')
        if not ctl and not in_artifact(v['file']): continue
        # the function (overload, instantiation) that actually declares this static
        f = None
        for cand in fns_by_q.get(v['fn'], []):
            if cand.get('body') is not None and any(d.get('k') == 'VarDecl' and d.get('id') == v['id'] for d in A.walk(cand['body'])): f = cand; break
        if f is None: f = fn_by_q.get(v['fn'])
        if f is None or f.get('body') is None: continue
        site = '%s %s static %s' % (v['file'], A.strip_targs(v['fn']).replace('jsoncons::', ''), v['n'])
        if site in wseen: continue
        wseen.add(site)
        wr = None
        def is_v(e):
            s2 = A.strip(e, casts=True)
            return s2 is not None and s2.get('k') == 'DeclRefExpr' and s2.get('id') == v['id']
        for x in A.walk(f['body']):
            k = x.get('k')
            if k in ('BinaryOperator', 'CompoundAssignOperator') and x.get('op', '').endswith('=') and x.get('op') not in ('==', '!=', '<=', '>=') and is_v(x.get('lhs')): wr = (x, 'assigned')
            elif k == 'UnaryOperator' and x.get('op') in ('++', '--') and is_v(x.get('sub')): wr = (x, 'incremented')
            elif k == 'CXXOperatorCallExpr' and x.get('oop') in ('=', '+=', '-=', '++', '--', '<<=', '|=', '&=') and x.get('args') and is_v(x['args'][0]): wr = (x, 'assigned (operator%s)' % x['oop'])
            elif k == 'CXXMemberCallExpr' and is_v(x.get('obj')) and not x.get('cconst') and A.callee_name(x) in WRITERS: wr = (x, 'modified by %s()' % A.callee_name(x))
            elif k == 'CallExpr' and v.get('dep') and x.get('callee') is not None:
                # uninstantiated pattern: member call through a dependent member expression
                ce = A.strip(x['callee'], casts=True)
                if ce is not None and ce.get('n') in WRITERS and is_v(ce.get('base')): wr = (x, 'modified by %s()' % ce.get('n'))
            elif k in A.CALLS and x.get('cid') not in fn_by_id and any(is_v(a) for a in x.get('args') or []):
                # a callee outside the unit (snprintf, memcpy ...): the static is written if it is passed as a pointer to non-const
                for a in x.get('args') or []:
                    if is_v(a) and a.get('t') and is_nonconst_ref_or_ptr(F.tname(f, a['t'])): wr = (x, 'passed as `%s` to %s' % (F.tname(f, a['t'])[:30], A.callee_name(x)))
            elif k in A.CALLS and x.get('cid') in fn_by_id:
                cal = fn_by_id[x['cid']]
                for p_, a in zip(cal.get('params') or [], x.get('args') or []):
                    if is_v(a) and is_nonconst_ref_or_ptr(F.tname(cal, p_['t'])): wr = (x, 'passed as `%s` to %s' % (F.tname(cal, p_['t'])[:40], cal['n']))
            if wr: break
        if ctl:
            if wr: ctl_w = True
            continue
        if wr is None: chk.ok('R20.6', site, None, nontrivial=len(wseen) % 10 == 0)
        else: chk.fail('R20.6', site, f['file'], wr[0].get('l'), 'function-local static `%s` (%s) is %s in %s: every thread that calls it shares and rewrites the same object' % (
            v['n'], F.tname(v, v['t'])[:50], wr[1], A.strip_targs(v['fn'])), {'static': v['n']}, v['fn'])
    chk.require(ctl_w, 'R20.6 positive control (written function-local static in drivers/control.cpp) not detected')
    # ---- R20.4 deep const
    ctl_deep = False
    dseen = set()
    for fn in facts.functions:
        if not fn.get('const') or fn.get('dep') or fn.get('body') is None: continue
        ctl = fn['file'].startswith('drivers/control.cpp')
        if not ctl and not any(x in fn['file'] for x in ('jsoncons_ext/jsonschema/', 'jsoncons_ext/jsonpath/', 'jsoncons_ext/jmespath/')): continue
        for c in A.walk(fn['body']):
            if c.get('k') != 'CXXMemberCallExpr': continue
            if c.get('cconst') or not c.get('cq'): continue
            cq = A.strip_targs(c['cq'])
            if not (cq.startswith('jsoncons::') or cq.startswith('jcsa_control::')): continue
            # object reached through a pointer-like field of *this
            o = A.strip(c.get('obj'), casts=True)
            via = None
            cur = o; hops = 0
            while cur is not None and hops < 6:
                k = cur.get('k')
                if k == 'MemberExpr':
                    b = A.strip(cur.get('base'), casts=True)
                    if b is not None and b.get('k') == 'CXXThisExpr':
                        via = cur.get('n'); break
                    cur = b
                elif k == 'UnaryOperator' and cur.get('op') == '*':
                    cur = A.strip(cur.get('sub'), casts=True)
                elif k in ('CXXOperatorCallExpr',) and cur.get('oop') in ('->', '*', '[]'):
                    cur = A.strip((cur.get('args') or [None])[0], casts=True)
                elif k == 'CXXMemberCallExpr' and A.callee_name(cur) in ('get', 'operator->', 'operator*'):
                    cur = A.strip(cur.get('obj'), casts=True)
                else:
                    break
                hops += 1
            if via is None: continue
            # pointer-like: the call's object expression is not the field itself (a by-value field in a const method would make a
            # non-const call ill-formed), so reaching here means the path went through a pointer/smart pointer
            if o is not None and o.get('k') == 'MemberExpr' and A.strip(o.get('base'), casts=True) is not None and \
               A.strip(o.get('base'), casts=True).get('k') == 'CXXThisExpr' and not o.get('arrow'):
                continue
            site = U.site(fn, 'call %s via %s' % (cq.rsplit('::', 1)[-1], via))
            if site in dseen: continue
            dseen.add(site)
            if ctl:
                ctl_deep = True; continue
            chk.fail('R20.4', site, fn['file'], c.get('l'), 'const method %s calls non-const %s through pointer member %s' % (
                U.site(fn, '').strip(), cq, via), {'call': A.text(c)[:120]}, fn['q'])
        if not ctl:
            chk.ok('R20.4', U.site(fn, 'const method'), None, nontrivial=False)
    chk.require(ctl_deep, 'R20.4 positive control (non-const call through pointer member in a const method) not detected')
    # ---- R20.5
    for cls in ('jsoncons::jsonschema::json_schema', 'jsoncons::jsonpath::jsonpath_expression', 'jsoncons::jmespath::detail::jmespath_evaluator::jmespath_expression'):
        recs = [r for r in facts.records if A.strip_targs(r['q']) == cls and not r.get('dep')]
        chk.require(recs, 'R20.5: artifact class %s not found' % cls)
        for r in recs[:1]:
            bad = [f for f in r['fields'] if any(w in F.tname(r, f['t']) for w in ('eval_context', 'dynamic_resources', 'evaluation_context'))]
            site = '%s %s' % (r['file'], cls)
            if bad: chk.fail('R20.5', site, r['file'], bad[0]['l'], 'artifact class %s stores per-call state in field %s' % (cls, bad[0]['n']), None, r['q'])
            else: chk.ok('R20.5', site, {'class': cls, 'fields': [f['n'] for f in r['fields']]})
