"""C16 JSON Merge Patch follows RFC 7386 - dominance facts of the recursion."""
from .. import frontend as F, ast as A, cfg as C, util as U, guards as G, inline as I

EXPLANATION = ('Dominance facts over the CFG of mergepatch::detail::apply_merge_patch_ (RFC 7386 section 2): (R16.1) every insertion into the '
               'target is under `member.value()` not being null; (R16.2) when the key exists the old member is erased unconditionally, so null '
               'deletes; (R16.3) a non-object patch is returned as the result, and a non-object target is replaced by an empty object before '
               'the member loop; (R16.4) the inserted value is the recursive merge of the old value (or an empty object) with the patch member.')
NOT_DECIDED = 'equality with the RFC algorithm for all inputs; the from_diff law; only the dominance facts are decided'

def guard_texts(g, n):
    return [(A.text(a), lab) for a, lab, e in g.guards(n)]

def run(chk, tier, only_rule=None):
    chk.explanation = EXPLANATION
    chk.not_decided = NOT_DECIDED
    facts = F.load(['patch'], tier)
    chk.units = ['patch']
    chk.rule('R16.1', 'insertions into the target are control-dependent on the patch member being non-null', floor=2)
    chk.rule('R16.2', 'an existing member is erased on every path of the found branch', floor=1)
    chk.rule('R16.3', 'non-object patch is returned; non-object target becomes an empty object before the loop', floor=2)
    chk.rule('R16.4', 'the inserted value is apply_merge_patch_(old value | empty object, patch member)', floor=2)
    fns = [f for f in facts.functions if f['n'] == 'apply_merge_patch_' and not f.get('dep') and f.get('body') is not None]
    chk.require(fns, 'mergepatch::detail::apply_merge_patch_ not found')
    for fn in U.one_per_inst(fns):
        chk.analysed(fn)
        g = C.CFG(fn['body'])
        inserts = []; erases = []
        def old_value_expr(e):
            """`(*it).value()` / `it->value()`: the member the lookup found."""
            t = A.text(e)
            return 'value()' in t and 'it' in t and 'member' not in t
        for nd in g.rpo:
            if nd.kind not in ('stmt', 'cond') or not isinstance(nd.ast, dict): continue
            for c in A.calls_in(nd.ast):
                if c.get('k') == 'CXXMemberCallExpr' and A.ref_name(c.get('obj')) == 'target':
                    if A.callee_name(c) in ('try_emplace', 'insert_or_assign', 'emplace', 'insert', 'set'): inserts.append((nd, c, 'insert'))
                    if A.callee_name(c) == 'erase': erases.append((nd, c))
                # the same update made in place: `(*it).value() = v;` or `apply_merge_patch_((*it).value(), member.value());` as a statement
                if c.get('k') == 'CXXOperatorCallExpr' and c.get('oop') == '=' and len(c.get('args') or []) == 2 and old_value_expr(c['args'][0]):
                    inserts.append((nd, c, 'assign'))
            top = A.strip(nd.ast)
            if nd.kind == 'stmt' and top is not None and A.is_call(top) and A.callee_name(top) == 'apply_merge_patch_' and len(top.get('args') or []) == 2 and old_value_expr(top['args'][0]):
                inserts.append((nd, top, 'inplace'))
        chk.require(len(inserts) >= 2 and erases, 'apply_merge_patch_: updates of the target (insert / assignment / in-place merge) and erase calls not found')
        for i, (nd, c, how) in enumerate(inserts):
            gt = guard_texts(g, nd)
            ok = any(('is_null()' in t and 'member' in t and lab is False) for t, lab in gt)
            site = U.site(fn, 'insert#%d' % (i + 1))
            cname = A.callee_name(c) if how == 'insert' else ('assignment to the found member' if how == 'assign' else 'in-place merge')
            if ok: chk.ok('R16.1', site, {'line': c.get('l'), 'guards': [t for t, l in gt][:3]})
            else: chk.fail('R16.1', site, fn['file'], c.get('l'), 'target.%s is not under `!member.value().is_null()`: a null patch member would be inserted instead of deleting' % cname, None, fn['q'])
            # R16.4
            args = c.get('args') or []
            found_branch = any(('end()' in t and ((lab is True and '!=' in t) or (lab is False and '==' in t))) for t, lab in guard_texts(g, nd))
            site4 = U.site(fn, 'inserted value#%d' % (i + 1))
            ok4 = False
            why = 'the inserted value is not apply_merge_patch_(old value or empty object, member.value())'
            if how == 'inplace':
                second = A.text(args[1])
                ok4 = found_branch and 'member' in second and 'value()' in second
            else:
                rec = [x for x in A.calls_in(args[1]) if A.callee_name(x) == 'apply_merge_patch_'] if len(args) > 1 else []
                if rec:
                    ra = rec[0].get('args') or []
                    first = A.ref_name(ra[0]) if ra else ''
                    second = A.text(ra[1]) if len(ra) > 1 else ''
                    # `first` must hold, on every path, the old member value (found branch) or a fresh empty object (absent branch):
                    # all definitions of the local that reach this call are of the right kind
                    defs = []
                    for m in g.rpo:
                        if m.kind != 'stmt' or not isinstance(m.ast, dict): continue
                        if m.ast.get('k') == 'DeclStmt':
                            for d in m.ast.get('decls') or []:
                                if d.get('n') == first and d.get('init') is not None: defs.append((m, A.text(d['init'])))
                        am = U.assigned_member(m.ast)
                        if am and am[0] == first: defs.append((m, A.text(am[1])))
                    reaching = [(m, t) for m, t in defs if any(g.can_reach(s2, [nd], avoid=[x for x, _ in defs if x is not m]) for s2 in m.succ) or m is nd]
                    def kind_of(t): return 'old' if ('value()' in t and 'it' in t) else ('fresh' if 'json_object_arg' in t else 'other')
                    kinds = set(kind_of(t) for m, t in reaching)
                    ok4 = bool(reaching) and kinds == ({'old'} if found_branch else {'fresh'})
                    if not ra or (not first and old_value_expr(ra[0]) and found_branch): ok4 = bool(ra)
                    ok4 = ok4 and 'member' in second and 'value()' in second
                elif len(args) > 1 and 'member' in A.text(args[1]) and 'value()' in A.text(args[1]):
                    # the patch value stored as it is: right only where MergePatch(anything, Value) = Value, i.e. Value is not an object
                    # (an object value must go through the merge, which drops its null members)
                    ok4 = any('member' in t and 'is_object()' in t and lab is False for t, lab in gt)
                    why = 'the patch member value is stored unmerged on a path where it may be an object (RFC 7386: Target[Name] = MergePatch(Target[Name], Value); an object value keeps its null members this way)'
            if ok4: chk.ok('R16.4', site4, {'line': c.get('l')})
            else: chk.fail('R16.4', site4, fn['file'], c.get('l'), why, None, fn['q'])
        # R16.2: once the member is found, every way through the iteration either erases it or has established that the patch value is not null
        founds = [e for m in g.rpo if m.kind == 'cond' and 'end()' in A.text(m.ast) and 'find' not in A.text(m.ast) for e in m.succ
                  if e.kind == 'edge' and (A.strip(m.ast).get('oop') or A.strip(m.ast).get('op')) in ('!=', '==') and e.label is ((A.strip(m.ast).get('oop') or A.strip(m.ast).get('op')) == '!=')]
        nonnull = [e for m in g.rpo if m.kind == 'cond' and 'is_null()' in A.text(m.ast) and 'member' in A.text(m.ast) for e in m.succ if e.kind == 'edge' and e.label is False]
        chk.require(founds, 'apply_merge_patch_: test of the lookup result against end() not found')
        for i, fe in enumerate(founds):
            reach = g.reachable_from(fe, avoid=[x for x, _ in erases] + nonnull)
            leak = [m for m in g.rpo if m.id in reach and (m.kind == 'join' or m is g.exit_return or m.kind == 'return')]
            site = U.site(fn, 'erase#%d' % (i + 1))
            if not leak: chk.ok('R16.2', site, {'line': fe.line, 'erase_lines': [c.get('l') for _, c in erases]})
            else: chk.fail('R16.2', site, fn['file'], fe.line, 'a found member can stay in the target although the patch value is null: a path from the found branch reaches the next iteration without target.erase and without `member.value().is_null()` being false', None, fn['q'])
        # R16.3
        ok_ret = False; ok_reset = False
        for nd in g.rpo:
            if nd.kind == 'return':
                if A.ref_name(nd.ast.get('val')) == 'patch' or (A.text(nd.ast.get('val')) == 'patch'):
                    gt = guard_texts(g, nd)
                    if any('patch.is_object()' in t and lab is False for t, lab in gt): ok_ret = True
            if nd.kind == 'stmt':
                am = U.assigned_member(nd.ast)
                if am and am[0] == 'target' and 'json_object_arg' in A.text(am[1]):
                    gt = guard_texts(g, nd)
                    if any('target.is_object()' in t and lab is False for t, lab in gt) and any('patch.is_object()' in t and lab is True for t, lab in gt): ok_reset = True
        for ok, name, msg in ((ok_ret, 'non-object patch returned', 'a non-object patch is not returned as the result'),
                              (ok_reset, 'non-object target reset', 'a non-object target is not replaced by an empty object before members are merged')):
            site = U.site(fn, name)
            if ok: chk.ok('R16.3', site, {'fact': name})
            else: chk.fail('R16.3', site, fn['file'], fn['l'], msg, None, fn['q'])
    r16_5(chk, facts)
    # the algorithm copies, compares and re-inserts basic_json values: its result is the RFC's only if those operations are value-exact
    from . import c09
    c09.value_semantics(chk, tier)

def r16_5(chk, facts):
    """from_diff: the three emissions and their exact guard chains."""
    chk.rule('R16.5', 'from_diff emits exactly: (found in both and values differ) -> key: from_diff(old, new); (only in source) -> key: null; '
                      '(only in target) -> key: new value; each under exactly that condition, no further test, and non-objects return the target', floor=3)
    fns = [f for f in facts.functions if f['n'] == 'from_diff' and f['file'].endswith('mergepatch.hpp') and not f.get('dep') and f.get('body') is not None]
    chk.require(fns, 'mergepatch::from_diff not found')
    for fn in U.one_per_inst(fns):
        chk.analysed(fn)
        # the two member loops may live in helpers that receive `result` by reference (E11); the recursive call is not expanded
        fn = I.expand(facts, fn, allow=lambda callee, call: callee['n'] != 'from_diff', depth=3)
        g = C.CFG(fn['body'])
        ems = []
        for nd in g.rpo:
            if nd.kind not in ('stmt', 'cond') or not isinstance(nd.ast, dict): continue
            for c in A.calls_in(nd.ast):
                if c.get('k') == 'CXXMemberCallExpr' and A.ref_name(c.get('obj')) == 'result' and A.callee_name(c) in ('try_emplace', 'insert_or_assign', 'emplace', 'set'):
                    ems.append((nd, c))
        chk.require(len(ems) >= 3, 'from_diff: only %d emissions into result found' % len(ems))
        kinds = {}; em_kinds = []
        for nd, c in ems:
            args = c.get('args') or []
            val = args[1] if len(args) > 1 else None
            calls = [A.callee_name(x) for x in A.calls_in(val)] if val is not None else []
            # the local that holds the lookup result
            chain = []
            for a, lab, e in g.guards(nd):
                s = A.strip(a, casts=True)
                if s is None or s.get('k') == 'RangeHasNext': continue
                t = A.text(s)
                cmp_ = G.comparison(s)
                if cmp_ and any(A.callee_name(x) == 'end' for x in A.calls_in(cmp_[2])):
                    found = (cmp_[0] == '!=') == bool(lab)
                    chain.append('found' if found else 'absent')
                elif cmp_ and cmp_[0] in ('!=', '==') and 'value()' in t:
                    differ = (cmp_[0] == '!=') == bool(lab)
                    chain.append('differ' if differ else 'equal')
                elif [A.callee_name(x) for x in A.calls_in(s)] == ['is_object'] and A.ref_name(list(A.calls_in(s))[0].get('obj')) in ('source', 'target'): continue     # the entry test
                else: chain.append('other:%s=%s' % (t[:40], lab))
            vs = A.strip(val, casts=True) if val is not None else None
            while vs is not None and vs.get('k') in ('CXXConstructExpr', 'MaterializeTemporaryExpr', 'CXXBindTemporaryExpr') and (vs.get('args') or [vs.get('sub')])[0] is not None and len(vs.get('args') or [1]) == 1:
                vs = A.strip((vs.get('args') or [vs.get('sub')])[0], casts=True)
            if vs is not None and vs.get('k') == 'DeclRefExpr' and vs.get('dk') == 'Var':
                # a local holding the value: classify by its initialiser
                for d in A.walk_no_lambda(fn['body']):
                    if d.get('k') == 'VarDecl' and d.get('id') == vs.get('id') and d.get('init') is not None:
                        calls = [A.callee_name(x) for x in A.calls_in(d['init'])]
            if 'from_diff' in calls: kind, want = 'recurse', ['differ', 'found']
            elif 'null' in calls: kind, want = 'delete', ['absent']
            else: kind, want = 'add', ['absent']
            kinds.setdefault(kind, 0); kinds[kind] += 1; em_kinds.append(kind)
            site = U.site(fn, 'emission %s#%d' % (kind, kinds[kind]))
            if sorted(chain) == sorted(want): chk.ok('R16.5', site, {'line': c.get('l'), 'conditions': chain})
            else: chk.fail('R16.5', site, fn['file'], c.get('l'), 'from_diff: the "%s" emission is under the conditions %s, the diff is complete and minimal only under exactly %s' % (
                kind, chain, want), {'conditions': chain}, fn['q'])
        # must-pass: once the deciding outcome is known, every path to the next member (or the end) passes the emission
        heads = [nd for nd in g.rpo if nd.kind == 'join' and any(g.dominates(nd, p) for p in nd.pred)] + [g.exit_return]
        by_kind = {}
        for (nd, c), k2 in zip(ems, em_kinds): by_kind.setdefault(k2, []).append(nd)
        for nd in g.rpo:
            if nd.kind != 'cond': continue
            cmp_ = G.comparison(nd.ast)
            if not cmp_: continue
            t = A.text(nd.ast)
            for e in nd.succ:
                if e.kind != 'edge': continue
                want_kind = None
                if any(A.callee_name(x) == 'end' for x in A.calls_in(cmp_[2])):
                    found = (cmp_[0] == '!=') == bool(e.label)
                    if not found: want_kind = 'delete' if 'target' in A.text(cmp_[2]) else 'add'
                elif cmp_[0] in ('!=', '==') and 'value()' in t:
                    if (cmp_[0] == '!=') == bool(e.label): want_kind = 'recurse'
                if want_kind is None: continue
                site = U.site(fn, 'must emit %s' % want_kind)
                if not g.can_reach(e, heads, avoid=by_kind.get(want_kind, [])): chk.ok('R16.5', site, {'decided_at': nd.line})
                else: chk.fail('R16.5', site, fn['file'], nd.line, 'from_diff: after `%s` is %s a path reaches the next member without the "%s" emission: the diff misses that member' % (
                    t[:60], e.label, want_kind), None, fn['q'])
        for kind in ('recurse', 'delete', 'add'):
            if not kinds.get(kind):
                chk.fail('R16.5', U.site(fn, 'emission %s' % kind), fn['file'], fn['l'], 'from_diff has no "%s" emission' % kind, None, fn['q'])
