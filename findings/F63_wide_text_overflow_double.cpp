#include <jsoncons/json.hpp>
#include <iostream>
using namespace jsoncons;
int main() {
    auto opts = json_options{}.lossless_bignum(false);
    auto wopts = wjson_options{}.lossless_bignum(false);
    double a = json::parse("1e400", opts).as<double>();
    double b = wjson::parse(L"1e400", wopts).as<double>();
    double c = json::parse("-1e400", opts).as<double>();
    double d = wjson::parse(L"-1e400", wopts).as<double>();
    std::cout << "char: " << a << " " << c << "   wchar_t: " << b << " " << d << "\n";
    return (a == b && c == d) ? 0 : 1;
}
