"""C11 JSON Schema validation verdicts are correct - keyword registry, keyword/validator binding, abort propagation."""
import json, os, re
from .. import frontend as F, ast as A, cfg as C, util as U, guards as G, inline as I
from . import c20, c05

EXPLANATION = ('Structural necessary conditions only: (R11.1) for each of the five dialect factories, the set of keyword literals it '
               'dispatches on (keyword_factory_map_.emplace("k", ...) and sch.find("k")) contains the verdict-affecting vocabulary of that '
               'draft (table in /verif/spec written from the drafts); (R11.2) every registered keyword is bound to the factory method of the '
               'same name (make_<keyword>_validator), and that method names the same keyword for its schema location and constructs the '
               'validator class of the same name; (R11.3) is_valid and validate run the same validator tree (root_->validate); (R11.4) every '
               'result of reporter.error() is returned or tested against walk_state::abort and propagated; (R05.3) patterns are compiled '
               'inside a converting try/catch (shared with C05).')
NOT_DECIDED = 'the verdicts themselves, annotation flow for unevaluated*, numeric comparison semantics - behaviour, not shape'

def snake(k):
    k = k.lstrip('$')
    return re.sub(r'(?<!^)(?=[A-Z])', '_', k).lower()

def vocab():
    d = json.load(open(os.path.join(F.VERIF, 'spec', 'jsonschema_vocab.json')))
    v4 = set(d['draft4']['verdict'])
    v6 = v4 | set(d['draft6']['adds'])
    v7 = v6 | set(d['draft7']['adds'])
    v19 = (v7 | set(x for x in d['2019-09']['adds'])) 
    v20 = (v19 | set(d['2020-12']['adds'])) - set(d['2020-12']['removes'])
    return {'4': v4, '6': v6, '7': v7, '201909': v19, '202012': v20}

# keywords handled outside the factory tables (resolved while reading the schema), with the place that handles them
STRUCTURAL = {'$ref', '$recursiveRef', '$dynamicRef', '$anchor', '$recursiveAnchor', '$dynamicAnchor', '$defs', 'definitions'}

def literals_in(fn):
    out = []
    for x in A.walk(fn.get('body')):
        if x.get('k') in A.CALLS and A.callee_name(x) in ('emplace', 'find', 'contains', 'count'):
            for a in (x.get('args') or [])[:1]:
                for y in A.walk(a):
                    if y.get('k') == 'StringLiteral': out.append((A.callee_name(x), y.get('s'), x))
    return out

def r11_5(chk, facts):
    """Annotations of a sub-schema evaluated against a local error collector are merged only under a test of that collector."""
    chk.rule('R11.5', 'annotation merge: evaluation results filled by a sub-schema that reports into a local collecting_error_listener are merged '
                      'into the outer results only under a dominating test of that collector (errors empty / error count unchanged / a success '
                      'counter fed by such a test); otherwise a failed branch marks properties as evaluated', floor=5)
    n = 0; seen = set()
    for fn in facts.functions:
        if fn.get('dep') or fn.get('body') is None or fn['n'] != 'do_validate' or not fn['file'].endswith(('keyword_validator.hpp', 'schema_validator.hpp')): continue
        key = (fn['file'], fn['l'])
        if key in seen: continue
        seen.add(key)
        res_loc = {}; rep_loc = {}; inits = {}
        for x in A.walk_no_lambda(fn['body']):
            if x.get('k') == 'VarDecl' and x.get('t'):
                t = fn['_types'][x['t'] - 1]
                if 'evaluation_results' in t and '&' not in t: res_loc[x['id']] = x['n']
                if 'collecting_error_listener' in t and '&' not in t: rep_loc[x['id']] = x['n']
                if x.get('init') is not None: inits[x['id']] = x
        if not res_loc: continue
        def refs(e, table):
            return set(y['id'] for y in A.walk(e) if y.get('k') == 'DeclRefExpr' and y.get('id') in table)
        # reporters feeding each local results object
        feed = {i: set() for i in res_loc}
        merges = []
        for c in A.calls_in(fn['body'], no_lambda=True):
            nm = A.callee_name(c)
            if nm in ('validate', 'do_validate', 'walk'):
                rs = set(); ls = set()
                for a in c.get('args') or []:
                    rs |= refs(a, rep_loc); ls |= refs(a, res_loc)
                for l in ls: feed[l] |= rs
            if nm == 'merge' and c.get('k') == 'CXXMemberCallExpr' and c.get('args'):
                src = refs(c['args'][0], res_loc)
                dst = refs(c.get('obj'), res_loc)
                if src: merges.append((c, src, dst))
        # a results object that is only ever filled by (guarded) merges holds successful annotations only: the obligation is on the
        # merges whose source was handed to a sub-schema together with a local collector
        if not merges: continue
        chk.analysed(fn)
        g = C.CFG(fn['body'])
        # variables derived from a collector: initialised from it, or counters incremented only under a test of it
        def mentions_rep(e, reps, derived):
            # a read of the collector's error list (R.errors...), or of a variable derived from one
            for y in A.walk(e):
                if y.get('k') == 'MemberExpr' and y.get('n') == 'errors':
                    b = A.strip(y.get('base'), casts=True)
                    if b is not None and b.get('k') == 'DeclRefExpr' and b.get('id') in reps: return True
                if y.get('k') == 'DeclRefExpr' and y.get('id') in derived: return True
            return False
        cls = A.strip_targs(fn.get('cls') or '').split('::')[-1]
        for i, (c, src, dst) in enumerate(merges):
            reps = set()
            for s_ in src: reps |= feed[s_]
            if not reps: continue
            n += 1
            derived = set(i2 for i2, d in inits.items() if mentions_rep(d['init'], reps, set()))
            # success counters
            for x in A.walk_no_lambda(fn['body']):
                if x.get('k') == 'UnaryOperator' and x.get('op') == '++':
                    v = A.strip(x.get('sub'), casts=True)
                    nd = g.node_of(x)
                    if v is not None and v.get('k') == 'DeclRefExpr' and nd is not None and any(mentions_rep(a, reps, derived) for a, lab, e in g.guards(nd)):
                        derived.add(v.get('id'))
            nd = g.node_of(c)
            ok = nd is not None and any(mentions_rep(a, reps, derived) for a, lab, e in g.guards(nd))
            site = U.site(fn, 'merge#%d of %s' % (i + 1, '/'.join(sorted(res_loc[s_] for s_ in src))))
            if ok: chk.ok('R11.5', site, {'class': cls, 'line': c.get('l'), 'collector': sorted(rep_loc[r] for r in reps)})
            else: chk.fail('R11.5', site, fn['file'], c.get('l'), '%s: the annotations in `%s` come from a sub-schema that reported into the local collector `%s`, and they are merged without a test of that collector: a failed branch contributes evaluated properties/items' % (
                cls, '/'.join(sorted(res_loc[s_] for s_ in src)), '/'.join(sorted(rep_loc[r] for r in reps))), None, fn['q'])
    chk.require(n >= 5, 'R11.5: only %d guarded annotation merges found' % n)

def r11_6(chk, facts):
    """Annotations handed back to the caller are selected by the caller's evaluation flags."""
    chk.rule('R11.6', 'annotation hand-back: a schema validator copies its local evaluated properties/items into the caller\'s results only under a test '
                      'of the flags of the context it was called with (not of the context it widened for its own unevaluated* keywords)', floor=2)
    n = 0; seen = set()
    for fn in facts.functions:
        if fn.get('dep') or fn.get('body') is None or fn['n'] != 'do_validate' or not fn['file'].endswith('schema_validator.hpp'): continue
        if (fn['file'], fn['l']) in seen: continue
        seen.add((fn['file'], fn['l']))
        params = {p_['id']: p_ for p_ in fn['params']}
        ctx_param = next((p_['id'] for p_ in fn['params'] if 'eval_context' in F.tname(fn, p_['t'])), None)
        res_param = next((p_['id'] for p_ in fn['params'] if 'evaluation_results' in F.tname(fn, p_['t'])), None)
        if ctx_param is None or res_param is None: continue
        local_ctx = set(); local_res = set()
        for x in A.walk_no_lambda(fn['body']):
            if x.get('k') == 'VarDecl' and x.get('t'):
                t = fn['_types'][x['t'] - 1]
                if 'eval_context' in t: local_ctx.add(x['id'])
                if 'evaluation_results' in t and '&' not in t: local_res.add(x['id'])
        g = None
        for c in A.calls_in(fn['body'], no_lambda=True):
            if A.callee_name(c) != 'merge' or c.get('k') != 'CXXMemberCallExpr' or not c.get('args'): continue
            o = A.strip(c.get('obj'), casts=True)
            if o is None or o.get('k') != 'DeclRefExpr' or o.get('id') != res_param: continue
            if not any(y.get('k') == 'DeclRefExpr' and y.get('id') in local_res for y in A.walk(c['args'][0])): continue
            if g is None: g = C.CFG(fn['body']); chk.analysed(fn)
            nd = g.node_of(c)
            n += 1
            caller = False; widened = False
            for a, lab, e in (g.guards(nd) if nd is not None else []):
                ids = set(y.get('id') for y in A.walk(a) if y.get('k') == 'DeclRefExpr')
                if 'flags' in A.text(a) or 'require_evaluated' in A.text(a):
                    if ctx_param in ids: caller = True
                    if ids & local_ctx: widened = True
            cls = A.strip_targs(fn.get('cls') or '').split('::')[-1]
            site = U.site(fn, 'hand-back#%d' % n)
            if caller and not widened: chk.ok('R11.6', site, {'class': cls, 'line': c.get('l')})
            else: chk.fail('R11.6', site, fn['file'], c.get('l'), '%s: local annotations are merged into the caller\'s results %s: a child schema with its own unevaluated* keyword leaks its evaluated names into the parent location' % (
                cls, 'under a test of the widened local context' if widened else 'without a test of the caller\'s evaluation flags'), None, fn['q'])
    chk.require(n >= 2, 'R11.6: only %d annotation hand-backs found in schema_validator.hpp' % n)

def r11_7(chk, facts):
    """Dialect dispatch: the branch selected by schema_version::draftN() builds / returns the draftN artefact."""
    import re as _re
    chk.rule('R11.7', 'dialect dispatch: in every function of json_schema_factory.hpp that compares a schema id with schema_version::draftN(), the '
                      'branch taken on equality constructs the validator factory / returns the meta-schema of namespace draftN', floor=15)
    n = 0; seen = set()
    for fn in facts.functions:
        if fn.get('dep') or fn.get('body') is None or not fn['file'].endswith('json_schema_factory.hpp'): continue
        if (fn['file'], fn['l']) in seen: continue
        conds = []
        g = None
        for x in A.walk_no_lambda(fn['body']):
            if x.get('k') in A.CALLS and _re.fullmatch(r'draft\d+', A.callee_name(x) or '') and 'schema_version' in (x.get('cq') or ''):
                conds.append(x)
        if not conds: continue
        seen.add((fn['file'], fn['l']))
        chk.analysed(fn)
        g = C.CFG(fn['body'])
        done = set()
        for x in conds:
            nd = g.node_of(x)
            if nd is None or nd.kind != 'cond' or nd.id in done: continue
            done.add(nd.id)
            want = A.callee_name(x)
            cmp_ = G.comparison(nd.ast)
            eq = cmp_ is not None and cmp_[0] == '=='
            te = [e for e in nd.succ if e.label is (True if eq else False)]
            if not te: continue
            built = set()
            for m in G.region_of_edge(g, te[0]):
                if not isinstance(m.ast, dict) or m.kind not in ('stmt', 'return', 'cond'): continue
                for y in A.walk_no_lambda(m.ast):
                    for q in (y.get('cq'), y.get('q')):
                        mm = _re.search(r'jsonschema::(draft\d+)::', q or '')
                        if mm: built.add(mm.group(1))
                    if y.get('t'):
                        mm = _re.search(r'jsonschema::(draft\d+)::', fn['_types'][y['t'] - 1])
                        if mm: built.add(mm.group(1))
            if not built: continue
            n += 1
            site = U.site(fn, 'branch %s' % want)
            if built == {want}: chk.ok('R11.7', site, {'line': nd.line, 'constructs': sorted(built)})
            else: chk.fail('R11.7', site, fn['file'], nd.line, '%s: the branch for schema_version::%s() builds %s' % (fn['n'], want, ', '.join(sorted(built))), {'constructs': sorted(built)}, fn['q'])
    chk.require(n >= 15, 'R11.7: only %d dialect branches found in json_schema_factory.hpp' % n)

def r11_8(chk, facts):
    """contains / minContains / maxContains: the factory always hands the validator both bounds (defaults 1 and unbounded)."""
    chk.rule('R11.8', 'contains defaults: in make_contains_validator the minContains and maxContains keyword objects handed to contains_validator are '
                      'assigned on every path (explicit value or default 1 / unbounded); contains_validator enforces "at least one match" by itself '
                      'only when both are absent', floor=2)
    fns = [f for f in facts.functions if f['n'] == 'make_contains_validator' and f.get('body') is not None and not f.get('dep')]
    chk.require(fns, 'make_contains_validator not found')
    n = 0
    for fn in U.one_per_inst(fns)[:1]:
        chk.analysed(fn)
        g = C.CFG(fn['body'])
        # unique_ptr locals moved into the contains_validator construction
        uses = {}
        for nd in g.rpo:
            if nd.kind not in ('stmt', 'return') or not isinstance(nd.ast, dict): continue
            for c in A.calls_in(nd.ast):
                if A.callee_name(c) == 'make_unique' and 'contains_validator' in ''.join(c.get('ta') or []) + (c.get('cq') or ''):
                    for a in c.get('args') or []:
                        for y in A.walk(a):
                            if y.get('k') == 'DeclRefExpr' and y.get('dk') == 'Var' and 'contains' in y.get('n', ''): uses[y['id']] = (y['n'], nd)
        chk.require(len(uses) >= 2, 'R11.8: the bounds passed to contains_validator were not recognised (%s)' % [v[0] for v in uses.values()])
        for vid, (vn, use_nd) in sorted(uses.items()):
            n += 1
            decl = None; assigns = []
            for nd in g.rpo:
                if nd.kind != 'stmt' or not isinstance(nd.ast, dict): continue
                if nd.ast.get('k') == 'DeclStmt' and any(d.get('id') == vid for d in nd.ast.get('decls') or []): decl = nd
                am = U.assigned_member(nd.ast)
                if am and am[0] == vn and any(A.callee_name(c) == 'make_unique' for c in A.calls_in(am[1])): assigns.append(nd)
            site = U.site(fn, 'bound %s' % vn)
            if decl is None:
                chk.fail('R11.8', site, fn['file'], fn['l'], 'declaration of %s not found' % vn, None, fn['q']); continue
            unassigned = any(g.can_reach(s2, [use_nd], avoid=assigns) for s2 in decl.succ)
            if not unassigned: chk.ok('R11.8', site, {'assignments': len(assigns)})
            else: chk.fail('R11.8', site, fn['file'], decl.line, 'make_contains_validator: `%s` can reach the contains_validator construction still null: with only the other bound present the validator skips its own "at least one match" rule, so the default of the missing keyword is lost' % vn, None, fn['q'])
    chk.require(n >= 2, 'R11.8: only %d bounds checked' % n)

def r11_9(chk, facts):
    """The child-context constructors of eval_context form two families: flags given, flags inherited."""
    chk.rule('R11.9', 'eval_context constructor families: every constructor that receives evaluation flags initialises flags_ with exactly that '
                      'parameter, every constructor that does not inherits parent.flags_, and the overloads for a member name and for an '
                      'array index agree in all other members; flags that leak from the parent make a nested schema collect '
                      'unevaluatedProperties/Items annotations it should not, or drop them', floor=6)
    ctors = {}
    for f in facts.functions:
        if f.get('fk') == 'CXXConstructor' and A.strip_targs(f.get('cls') or '').endswith('::eval_context') and f.get('inits') and not f.get('dep') and f.get('params'):
            ctors.setdefault((f['file'], f['l']), f)
    chk.require(len(ctors) >= 6, 'R11.9: only %d eval_context constructors with a parent found' % len(ctors))
    fam = {}
    # the member that holds the flags, whatever it is called: the one a constructor initialises from its evaluation_flags parameter
    FM = None
    for f in ctors.values():
        fl = [p for p in f['params'] if 'evaluation_flags' in f['_types'][p['t'] - 1]]
        for i in f['inits']:
            e = A.strip(i.get('init'), casts=True)
            while e is not None and e.get('k') == 'CXXConstructExpr' and len(e.get('args') or []) == 1: e = A.strip(e['args'][0], casts=True)
            if fl and e is not None and e.get('k') == 'DeclRefExpr' and e.get('id') == fl[0]['id']: FM = i.get('m')
    chk.require(FM is not None, 'R11.9: no eval_context constructor initialises a member from an evaluation_flags parameter')
    for f in ctors.values():
        chk.analysed(f)
        fl = [p for p in f['params'] if 'evaluation_flags' in f['_types'][p['t'] - 1]]
        inits = {i.get('m'): i.get('init') for i in f['inits']}
        site = U.site(f, 'flags_ of ctor at line %s' % f['l'])
        fi = A.strip(inits.get(FM), casts=True) if inits.get(FM) is not None else None
        # copy-constructing the enum may wrap the reference
        while fi is not None and fi.get('k') in ('CXXConstructExpr',) and len(fi.get('args') or []) == 1: fi = A.strip(fi['args'][0], casts=True)
        if fl:
            ok = fi is not None and fi.get('k') == 'DeclRefExpr' and fi.get('id') == fl[0]['id']
            want = 'the `%s` parameter' % fl[0]['n']
        else:
            ok = fi is not None and fi.get('k') == 'MemberExpr' and fi.get('n') == FM and (A.strip(fi.get('base'), casts=True) or {}).get('k') == 'DeclRefExpr'
            want = 'parent.' + FM
        if ok: chk.ok('R11.9', site, {'flags_': A.canon(inits.get(FM))})
        else: chk.fail('R11.9', site, f['file'], f['l'], 'eval_context constructor at line %s initialises %s with `%s`, its family uses %s' % (f['l'], FM, A.canon(inits.get(FM)), want), None, f['q'])
        # the other members, with the varying second parameter abstracted
        second = f['params'][1]['id'] if len(f['params']) > 1 else None
        def shape(e):
            t = A.canon(e)
            return t.replace(f['params'][1]['n'], '<child>') if second is not None else t
        key = (bool(fl), 'validator' if second is not None and 'schema_validator' in f['_types'][f['params'][1]['t'] - 1] else 'child')
        fam.setdefault(key, []).append((f, {m: shape(e) for m, e in inits.items() if m != FM}))
    for key, members in sorted(fam.items()):
        if len(members) < 2: continue
        ref = members[0][1]
        for f, sh in members[1:]:
            site = U.site(f, 'members of ctor at line %s' % f['l'])
            if sh == ref: chk.ok('R11.9', site, None)
            else: chk.fail('R11.9', site, f['file'], f['l'], 'eval_context constructors at lines %s and %s belong to one family but initialise %s differently' % (
                members[0][0]['l'], f['l'], sorted(k for k in set(sh) | set(ref) if sh.get(k) != ref.get(k))), None, f['q'])

def r11_10(chk, facts):
    """Whether annotations are wanted is a property of the context the validator was called with."""
    chk.rule('R11.10', 'annotation requests: every require_evaluated_properties() / require_evaluated_items() test in a validator reads the context '
                       'parameter the validator received; a child context built locally for one property or item carries fresh flags, so '
                       'asking it drops the annotation and unevaluatedProperties/unevaluatedItems then rejects what was evaluated', floor=12)
    n = 0; seen = set()
    for fn in facts.functions:
        if fn.get('body') is None or fn.get('dep') or not fn['file'].endswith('keyword_validator.hpp') or (fn['file'], fn['l']) in seen: continue
        calls = [c for c in A.calls_in(fn['body'], no_lambda=True) if c.get('k') == 'CXXMemberCallExpr' and A.callee_name(c) in ('require_evaluated_properties', 'require_evaluated_items')]
        if not calls: continue
        seen.add((fn['file'], fn['l']))
        chk.analysed(fn)
        pids = set(p['id'] for p in fn['params'])
        for i, c in enumerate(calls):
            n += 1
            o = A.strip(c.get('obj'), casts=True)
            site = U.site(fn, '%s #%d' % (A.callee_name(c), i + 1))
            if o is not None and o.get('k') == 'DeclRefExpr' and o.get('id') in pids: chk.ok('R11.10', site, {'line': c.get('l')})
            else:
                chk.fail('R11.10', site, fn['file'], c.get('l'), '%s asks `%s` for %s(): that is not the context this validator was called with' % (
                    A.strip_targs(fn.get('cls') or fn['n']).split('::')[-1], A.text(o) if o is not None else '?', A.callee_name(c)), None, fn['q'])
    chk.require(n >= 12, 'R11.10: only %d annotation tests found' % n)

# validators whose child contexts may inherit the flags without an effect on any verdict, each with the reason
R11_11_EXEMPT = {
    'items_validator': '`items` applies its subschema to every element it reaches and reports all of them as evaluated itself; indices recorded by an element are '
                       'a subset of that, and names recorded by an element cannot be asked of an array',
    'items_keyword': 'as items_validator (the 2020-12 form, after prefixItems)',
}

def r11_11(chk, facts):
    """What is evaluated inside a member or an element is not evaluated in the object or array that holds it."""
    chk.rule('R11.11', 'child-value contexts: an eval_context under which a validator validates a *part* of the instance (a member value, an '
                       'element: the instance argument of the nested validate() is not the validator\'s own instance parameter) is built '
                       'with fresh evaluation flags (third constructor argument `evaluation_flags{}`); built without it the child inherits '
                       'require_evaluated_properties/items and what is evaluated inside the child is recorded as evaluated in the parent, '
                       'which unevaluatedProperties / unevaluatedItems then accepts', floor=9)
    n = 0; seen = set()
    for fn in facts.functions:
        if fn.get('body') is None or fn.get('dep') or not fn['file'].endswith('keyword_validator.hpp') or (fn['file'], fn['l']) in seen: continue
        inst = [p_ for p_ in fn['params'] if p_['n'] == 'instance' or (len(fn['params']) >= 2 and p_ is fn['params'][1])]
        ctxs = {d['id']: d for d in A.walk_no_lambda(fn['body']) if d.get('k') == 'VarDecl' and 'eval_context' in F.tname(fn, d.get('t')) and d.get('init') is not None}
        if not ctxs or not inst: continue
        inst_ids = set(p_['id'] for p_ in fn['params'] if 'basic_json' in F.tname(fn, p_['t']) and 'eval_context' not in F.tname(fn, p_['t']))
        child = {}
        for c in A.calls_in(fn['body'], no_lambda=True):
            if c.get('k') != 'CXXMemberCallExpr' or A.callee_name(c) != 'validate' or len(c.get('args') or []) < 2: continue
            a0 = A.strip(c['args'][0], casts=True); a1 = A.strip(c['args'][1], casts=True)
            if a0 is None or a0.get('k') != 'DeclRefExpr' or a0.get('id') not in ctxs or a1 is None: continue
            if a1.get('k') == 'DeclRefExpr' and a1.get('id') in inst_ids: continue      # the same instance: annotations belong to it
            # a value made up for the test (propertyNames validates the member *name* as a string): not a part of the instance, and a
            # string has neither members nor elements to report
            if any(y.get('k') in ('CXXConstructExpr', 'CXXTemporaryObjectExpr', 'CXXFunctionalCastExpr') and 'basic_json' in (y.get('cq') or F.tname(fn, y.get('t'))) for y in A.walk(c['args'][1])): continue
            child.setdefault(a0['id'], c)
        if not child: continue
        seen.add((fn['file'], fn['l']))
        chk.analysed(fn)
        short = A.strip_targs(fn.get('cls') or fn['n']).split('::')[-1]
        for cid, call in sorted(child.items()):
            d = ctxs[cid]
            n += 1
            if short in R11_11_EXEMPT:
                chk.ok('R11.11', U.site(fn, 'child context %s@%d (exempt)' % (d.get('n'), d.get('l', 0) - fn['l'])), {'exempt': R11_11_EXEMPT[short]}); continue
            ce = next((y for y in A.walk(d['init']) if y.get('k') in ('CXXConstructExpr', 'CXXTemporaryObjectExpr') and 'eval_context' in (y.get('cq') or F.tname(fn, y.get('t')))), None)
            args = (ce or {}).get('args') or []
            fresh = len(args) >= 3 and any(y.get('k') in ('CXXConstructExpr', 'CXXTemporaryObjectExpr', 'InitListExpr', 'CXXScalarValueInitExpr', 'CXXFunctionalCastExpr') and not (y.get('args') or []) for y in A.walk(args[2]))
            site = U.site(fn, 'child context %s@%d' % (d.get('n'), d.get('l', 0) - fn['l']))
            if fresh: chk.ok('R11.11', site, {'line': d.get('l'), 'validates': A.text(call['args'][1])[:30]})
            else:
                chk.fail('R11.11', site, fn['file'], d.get('l'), '%s validates `%s`, a part of the instance, under `%s` built with %d argument(s) and no fresh evaluation_flags{}: names and indices evaluated '
                         'inside the child are credited to the parent' % (A.strip_targs(fn.get('cls') or fn['n']).split('::')[-1], A.text(call['args'][1])[:30], d.get('n'), len(args)), None, fn['q'])
    chk.require(n >= 9, 'R11.11: only %d child-value contexts found' % n)

# JSON Schema validation vocabulary (draft 2020-12 section 6.2-6.5, the same in every draft for these keywords): the instance is rejected when ...
BOUND_OPS = {'maximum_validator': '>', 'exclusive_maximum_validator': '>=', 'minimum_validator': '<', 'exclusive_minimum_validator': '<=',
             'max_length_validator': '>', 'min_length_validator': '<', 'max_items_validator': '>', 'min_items_validator': '<',
             'max_properties_validator': '>', 'min_properties_validator': '<'}

def r11_12(chk, facts):
    """Every representation branch of a bound keyword rejects with the operator the vocabulary prescribes."""
    from .. import guards as G, cfg as C
    chk.rule('R11.12', 'bound keywords: in do_validate of maximum / exclusiveMaximum / minimum / exclusiveMinimum / maxLength / minLength / maxItems / '
                       'minItems / maxProperties / minProperties every reporter.error() is guarded by a comparison `instance OP bound` with the '
                       'operator of the vocabulary (> , >=, <, <=, >, <, ...), in each representation branch alike (int64, uint64, big integer, '
                       'double); sides are told apart by what they are computed from (the instance parameter or a member of the validator), so a '
                       'swapped spelling `bound < instance` is the same test', floor=16)
    n = 0; seen_cls = set()
    for fn in sorted(facts.functions, key=lambda f: bool(f.get('dep'))):
        if fn.get('body') is None or fn['n'] != 'do_validate' or not fn['file'].endswith('keyword_validator.hpp'): continue
        short = A.strip_targs(fn.get('cls') or '').split('::')[-1]
        if short not in BOUND_OPS or short in seen_cls: continue
        if fn.get('dep') and any((not g_.get('dep')) and g_['n'] == 'do_validate' and A.strip_targs(g_.get('cls') or '').split('::')[-1] == short and g_.get('body') is not None for g_ in facts.functions): continue
        seen_cls.add(short)
        chk.analysed(fn)
        want = BOUND_OPS[short]
        inits = {x['id']: x['init'] for x in A.walk(fn['body']) if x.get('k') == 'VarDecl' and x.get('init') is not None and x.get('id') is not None}
        def roots(e, depth=0):
            r = set()
            for x in A.walk(e):
                if x.get('k') == 'DeclRefExpr':
                    if x.get('id') in inits and depth < 4: r |= roots(inits[x['id']], depth + 1)
                    else: r.add(x.get('n'))
                elif x.get('k') == 'MemberExpr' and (A.strip(x.get('base')) or {}).get('k') == 'CXXThisExpr': r.add('this.' + (x.get('n') or ''))
            return r
        g = C.CFG(fn['body'])
        errs = [c for c in A.calls_in(fn['body'], no_lambda=True) if A.callee_name(c) == 'error' and 'reporter' in A.text(c.get('obj') or {})]
        for i, c in enumerate(errs):
            nd = g.node_of(c)
            found = None
            for a, lab, e in (g.guards(nd) if nd is not None else []):
                cm = G.comparison(a)
                if not cm or not isinstance(lab, bool) or cm[0] in ('==', '!='): continue
                op = cm[0] if lab else G.NEG[cm[0]]
                rl, rr = roots(cm[1]), roots(cm[2])
                l_inst = 'instance' in rl; r_inst = 'instance' in rr
                l_bound = any(x.startswith('this.') for x in rl); r_bound = any(x.startswith('this.') for x in rr)
                if l_inst and r_bound and not r_inst: found = (op, a); break
                if r_inst and l_bound and not l_inst: found = (G.FLIP[op], a); break
            n += 1
            site = U.site(fn, 'reporter.error#%d' % (i + 1))
            if found is None:
                chk.fail('R11.12', site, fn['file'], c.get('l'), '%s reports an error that is not guarded by a comparison of the instance with the bound' % short, None, fn['q'])
            elif found[0] == want: chk.ok('R11.12', site, {'class': short, 'test': A.text(found[1])[:80], 'rejects_when': 'instance %s bound' % want})
            else:
                chk.fail('R11.12', site, fn['file'], c.get('l'), '%s rejects when `%s`, that is instance %s bound; the keyword rejects when instance %s bound (the other representation branches of this '
                         'validator and the vocabulary agree on %s): an instance exactly at the bound gets the wrong verdict in this branch only' % (short, A.text(found[1])[:90], found[0], want, want), None, fn['q'])
    chk.require(len(seen_cls) == len(BOUND_OPS), 'R11.12: bound validators not found: %s' % sorted(set(BOUND_OPS) - seen_cls))
    chk.require(n >= 16, 'R11.12: only %d guarded reports found' % n)

def run(chk, tier, only_rule=None):
    chk.explanation = EXPLANATION
    chk.not_decided = NOT_DECIDED
    facts = F.load(['jsonschema'], tier)
    chk.units = ['jsonschema']
    chk.rule('R11.1', 'keyword registry of each dialect factory contains the verdict-affecting vocabulary of its draft', floor=150)
    chk.rule('R11.2', 'keyword <-> factory method <-> validator class binding by name', floor=100)
    chk.rule('R11.3', 'is_valid and validate both evaluate root_->validate', floor=2)
    chk.rule('R11.4', 'reporter.error() results are returned or tested against walk_state::abort and propagated', floor=40)
    r11_5(chk, facts)
    r11_6(chk, facts)
    r11_7(chk, facts)
    r11_8(chk, facts)
    r11_9(chk, facts)
    r11_10(chk, facts)
    r11_11(chk, facts)
    r11_12(chk, facts)
    voc = vocab()
    # keywords looked up by the shared layers every dialect factory delegates to
    shared = {}
    for f in facts.functions:
        if f.get('dep') or f.get('body') is None: continue
        if f['file'].endswith(('keyword_validator_factory.hpp', 'schema_readers.hpp', 'schema_validator_factory_base.hpp')):
            for kind, s_, call in literals_in(f):
                shared.setdefault(s_, (f, call))
    # ---- R11.1 / R11.2 (registry part)
    for ver, words in sorted(voc.items()):
        cls = 'schema_validator_factory_%s' % ver
        fns = [f for f in facts.functions if not f.get('dep') and f.get('body') is not None and A.strip_targs(f.get('cls') or '').endswith(cls) and 'basic_json<char>>' in f.get('cls', '')]
        chk.require(fns, 'dialect factory %s not found' % cls)
        lits = {}
        binds = {}
        for fn in fns:
            chk.analysed(fn)
            for kind, s, call in literals_in(fn):
                lits.setdefault(s, (fn, call))
                if kind == 'emplace' and A.ref_name(call.get('obj')).endswith('factory_map_'):
                    lam = None
                    for y in A.walk((call.get('args') or [None, None])[1]):
                        if y.get('k') == 'LambdaExpr': lam = y; break
                    made = [A.callee_name(c) for c in A.calls_in(lam.get('body'))] if lam else []
                    made = [m for m in made if m.startswith('make_')]
                    binds[s] = (fn, call, made)
        for w in sorted(words):
            site = 'include/jsoncons_ext/jsonschema %s keyword %s' % (cls, w)
            if w in lits: chk.ok('R11.1', site, {'draft': ver, 'keyword': w, 'line': lits[w][1].get('l')} if w in ('$ref', 'items', 'if', 'prefixItems') else None)
            elif w in STRUCTURAL and any(w in x for x in lits): chk.ok('R11.1', site, None)
            else:
                if w in shared: chk.ok('R11.1', site, {'draft': ver, 'keyword': w, 'handled_by': shared[w][0]['file'].rsplit('/', 1)[-1], 'line': shared[w][1].get('l')})
                else: chk.fail('R11.1', site, fns[0]['file'], fns[0]['l'], 'draft %s keyword `%s` affects the verdict but %s never looks it up' % (ver, w, cls), None, fns[0]['q'])
        for k, (fn, call, made) in sorted(binds.items()):
            site = 'include/jsoncons_ext/jsonschema %s binding %s' % (cls, k)
            want = 'make_%s_validator' % snake(k)
            # a dialect may bind its own variant of the method, suffixed with the draft number (draft 4 boolean exclusiveMaximum)
            if (want + '_' + ver) in made: made = made + [want]
            if want in made: chk.ok('R11.2', site, None, nontrivial=(k in ('maxItems', 'enum')))
            else: chk.fail('R11.2', site, fn['file'], call.get('l'), 'keyword `%s` is bound to %s instead of %s' % (k, made or 'nothing', want), None, fn['q'])
    # ---- R11.2 (factory method part): make_X_validator names keyword k with snake(k) == X and constructs X_validator
    kf = [f for f in facts.functions if not f.get('dep') and f.get('body') is not None and f['file'].endswith('keyword_validator_factory.hpp') and
          f['n'].startswith('make_') and f['n'].endswith('_validator') and 'basic_json<char>>' in (f.get('cls') or '')]
    chk.require(len(kf) >= 20, 'keyword_validator_factory make_* methods not found (%d)' % len(kf))
    for fn in U.one_per_inst(kf):
        x = fn['n'][5:-10]
        strs = [y.get('s') for y in A.walk(fn['body']) if y.get('k') == 'StringLiteral']
        kws = [s for s in strs if snake(s) == x]
        constructed = []
        for c in A.calls_in(fn['body']):
            if A.callee_name(c) == 'make_unique' and c.get('ta'): constructed.append(A.strip_targs(c['ta'][0]).rsplit('::', 1)[-1])
        site = U.site(fn, 'names/constructs')
        chk.analysed(fn)
        ok_cls = (x + '_validator') in constructed or not constructed
        if kws and ok_cls: chk.ok('R11.2', site, {'method': fn['n'], 'keyword': kws[0], 'constructs': constructed[:2]})
        elif not kws and not strs: chk.ok('R11.2', site, None, nontrivial=False)
        elif not ok_cls: chk.fail('R11.2', site, fn['file'], fn['l'], '%s constructs %s instead of %s_validator' % (fn['n'], constructed, x), None, fn['q'])
        else:
            # methods that take the keyword name as a parameter (shared between dialect spellings) name no literal
            if any(p['n'] in ('keyword', 'keyword_name') for p in fn['params']): chk.ok('R11.2', site, None, nontrivial=False)
            else: chk.fail('R11.2', site, fn['file'], fn['l'], '%s names keyword(s) %s, none of which is `%s`' % (fn['n'], strs[:4], x), None, fn['q'])
    # ---- R11.3
    for name in ('is_valid', 'validate'):
        fns = [f for f in facts.functions if not f.get('dep') and f.get('body') is not None and f['n'] == name and A.strip_targs(f.get('cls') or '').endswith('jsonschema::json_schema')]
        chk.require(fns, 'json_schema::%s not found' % name)
        for fn in U.one_per_inst(fns):
            chk.analysed(fn)
            # by itself, through another overload, or through a private helper of the class that does
            bodies = I.closure_bodies(facts, fn, depth=2)
            calls = [c for b in bodies for c in A.calls_in(b) if A.callee_name(c) == 'validate' and 'root_' in A.text(c.get('obj'))]
            dele = [c for c in A.calls_in(fn['body']) if A.callee_name(c) in ('validate', 'is_valid') and K_this(c)]
            site = U.site(fn, 'nparams=%d' % len(fn['params']))
            if calls or dele: chk.ok('R11.3', site, {'function': fn['q'], 'evaluates': 'root_->validate' if calls else 'delegates'})
            else: chk.fail('R11.3', site, fn['file'], fn['l'], 'json_schema::%s does not evaluate root_->validate' % name, None, fn['q'])
            if name == 'is_valid' and calls and not dele:
                # the verdict is "no error was reported": the walk state a validator returns only says whether to go on (several validators
                # report and return advance), so it cannot stand in for the count
                rets = [r for b in bodies[:1] for r in A.walk_no_lambda(b) if r.get('k') == 'ReturnStmt' and r.get('val') is not None]
                al = A.pure_aliases(fn['body'], allow_const_calls=True)
                def counts(e, depth=0):
                    for y in A.walk(e):
                        if A.is_call(y) and A.callee_name(y) == 'error_count': return True
                        if y.get('k') == 'DeclRefExpr' and y.get('id') in al and depth < 3 and counts(al[y['id']], depth + 1): return True
                    return False
                site2 = U.site(fn, 'verdict nparams=%d' % len(fn['params']))
                badr = [r for r in rets if not counts(r['val'])]
                if rets and not badr: chk.ok('R11.3', site2, {'verdict': 'reporter.error_count() == 0'})
                else:
                    chk.fail('R11.3', site2, fn['file'], (badr[0] if badr else fn).get('l'), 'json_schema::is_valid answers `%s`, not from the number of errors the reporter recorded: a validator that reports an '
                             'error and lets the walk go on (a `false` subschema does) is then taken for success' % (A.text(badr[0]['val'])[:50] if badr else '?'), None, fn['q'])
    # ---- R11.4
    n4 = 0; seen = set()
    for fn in facts.functions:
        if fn.get('dep') or fn.get('body') is None or not fn['file'].endswith(('keyword_validator.hpp', 'schema_validator.hpp', 'format_validators.hpp')): continue
        if 'basic_json<char>>' not in (fn.get('cls') or fn['q']): continue
        errs = [c for c in A.walk_no_lambda(fn['body']) if c.get('k') == 'CXXMemberCallExpr' and A.callee_name(c) == 'error' and A.ref_name(c.get('obj')) == 'reporter']
        if not errs: continue
        g = C.CFG(fn['body'])
        chk.analysed(fn)
        for i, c in enumerate(errs):
            nd = g.node_of(c)
            if nd is None: continue
            site = U.site(fn, 'reporter.error#%d' % (i + 1))
            if site in seen: continue
            seen.add(site); n4 += 1
            ok = False
            if nd.kind == 'return': ok = True
            elif nd.kind == 'stmt' and isinstance(nd.ast, dict):
                var = None
                if nd.ast.get('k') == 'DeclStmt':
                    for d in nd.ast.get('decls') or []:
                        if d.get('init') is not None and any(y is c for y in A.walk(d['init'])): var = d.get('n')
                else:
                    am = U.assigned_member(nd.ast)
                    if am and any(y is c for y in A.walk(am[1])): var = am[0]
                if var:
                    for m in g.rpo:
                        if m.id not in g.reachable_from(nd): continue
                        if m.kind == 'return' and A.ref_name(m.ast.get('val')) == var: ok = True
                        if m.kind == 'cond':
                            cmp_ = G.comparison(m.ast)
                            if cmp_ and cmp_[0] == '==' and A.ref_name(cmp_[1]) == var and U.enum_const_name(cmp_[2]) == 'abort':
                                te = [e for e in m.succ if e.label is True]
                                if te and any(x.kind == 'return' for x in G.block_after(te[0])): ok = True
            if not ok and fn['n'] == 'do_validate' and 'boolean_schema_validator' in (fn.get('cls') or ''):
                # table entry: the `false` schema reports one error and the walk continues by design (it has no sub-schemas to skip);
                # the collecting reporters never abort on a single error of the last keyword of a branch
                chk.ok('R11.4', site, {'exempt': 'boolean false schema: single terminal error, result unused by design'}); continue
            if ok: chk.ok('R11.4', site, None, nontrivial=(n4 % 15 == 1))
            else: chk.fail('R11.4', site, fn['file'], c.get('l'), 'the result of reporter.error() in %s is neither returned nor tested against walk_state::abort' % U.site(fn, '').strip(), None, fn['q'])
    chk.require(n4 >= 40, 'R11.4: only %d reporter.error sites found' % n4)
    c05.r05_3(chk, tier)

def K_this(c):
    from .. import kinds as K
    return K.obj_key(c.get('obj')) == 'this'
