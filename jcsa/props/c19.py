"""C19 Allocation failure at any point is handled cleanly - lifecycle typestate and raw-allocation protection."""
from .. import frontend as F, ast as A, cfg as C, util as U, kinds as K

EXPLANATION = ('Exception-safety typestate over the structural CFG: (R19.1) after basic_json::destroy() the object is in a destroyed state '
               'until it is re-initialised by construct<S>() or a whole-object memcpy; no call that may throw (callee not noexcept) may be '
               'reachable in that state, otherwise the destructor frees the old storage a second time; (R19.2) every raw allocate() '
               'result held in a local is protected by try/catch(...) deallocate+rethrow around every following call that may throw; '
               '(R19.4) apply_patch constructs its unwinder (automatic storage) before the first mutation.')
NOT_DECIDED = ('that rollback itself cannot fail; byte balance of allocate/deallocate; behaviour under every failing allocation as such '
               '(only the structural clauses are decided)')

def may_throw_calls(ast, skip=()):
    out = []
    for x in A.walk_no_lambda(ast):
        k = x.get('k')
        if k in A.CALLS or k in ('CXXConstructExpr', 'CXXTemporaryObjectExpr'):
            if x.get('cnothrow'): continue
            if x.get('builtin'): continue
            n = A.callee_name(x)
            if n in skip: continue
            if not x.get('cq') and k not in A.CALLS: continue
            # trivial constructors of scalars/pointers do not appear as CXXConstructExpr; implicit copy of trivially copyable
            # types is not noexcept-annotated by clang unless evaluated, keep them only when they belong to jsoncons or std containers
            out.append(x)
        elif k == 'CXXNewExpr' and not x.get('placement'):
            out.append(x)
    return out

def r19_1(chk, facts):
    chk.rule('R19.1', 'no call that may throw is reachable between basic_json::destroy() and the re-initialisation of *this '
                      '(construct<S>() or whole-object memcpy)', floor=5)
    fns = [f for f in facts.functions if not f.get('dep') and f.get('body') is not None and
           A.strip_targs(f.get('cls') or '') == 'jsoncons::basic_json' and f['file'].endswith('basic_json.hpp')]
    n_sites = 0
    for fn in fns:
        dcalls = [c for c in A.walk_no_lambda(fn['body']) if c.get('k') == 'CXXMemberCallExpr' and A.callee_name(c) == 'destroy'
                  and K.obj_key(c.get('obj')) == 'this' and not (c.get('args') or [])]
        if not dcalls or fn['n'] == 'destroy': continue
        chk.analysed(fn)
        g = C.CFG(fn['body'])
        for i, d in enumerate(dcalls):
            n_sites += 1
            start = g.node_of(d)
            if start is None: continue
            site = U.site(fn, 'destroy#%d' % (i + 1))
            bad = None
            seen = set(); stack = list(start.succ)
            while stack and bad is None:
                n = stack.pop()
                if n.id in seen: continue
                seen.add(n.id)
                if n.kind in ('stmt', 'cond', 'switch', 'return') and isinstance(n.ast, dict):
                    reinit = False
                    for x in A.walk_no_lambda(n.ast):
                        if x.get('k') == 'CXXMemberCallExpr' and A.callee_name(x) == 'construct' and K.obj_key(x.get('obj')) == 'this':
                            reinit = True
                        if x.get('k') == 'CallExpr' and A.callee_name(x) in ('memcpy', '__builtin_memcpy'):
                            a0 = (x.get('args') or [None])[0]
                            if any(K.obj_key(y) == 'this' for y in A.walk(a0)): reinit = True
                    mt = [c for c in may_throw_calls(n.ast) if A.callee_name(c) not in ('construct', 'memcpy')]
                    # arguments of construct<S>(...) are evaluated before the re-initialisation: they count
                    if mt:
                        bad = (n, mt[0]); break
                    if reinit: continue
                stack.extend(n.succ)
            facts_ = {'function': fn['q'], 'destroy_line': d.get('l')}
            if bad:
                chk.fail('R19.1', site, fn['file'], bad[1].get('l'),
                         '%s: `%s` may throw while *this is destroyed (destroy() at line %s, no re-initialisation in between): '
                         'on failure ~basic_json frees the old storage again' % (fn['n'], A.text(bad[1])[:70], d.get('l')),
                         dict(facts_, call=A.text(bad[1])[:100], call_line=bad[1].get('l')), fn['q'])
            else:
                chk.ok('R19.1', site, facts_)
    chk.require(n_sites >= 5, 'R19.1: only %d destroy() call sites found' % n_sites)

def r19_4(chk, tier):
    chk.rule('R19.4', 'apply_patch: the operation_unwinder is a local with automatic storage constructed before the first mutating '
                      'jsonpointer call on the target', floor=1)
    facts = F.load(['patch'], tier)
    chk.units.append('patch')
    fns = [f for f in facts.functions if f['n'] == 'apply_patch' and not f.get('dep') and f.get('body') is not None and len(f['params']) == 3]
    chk.require(fns, 'jsonpatch::apply_patch(target, patch, ec) not found')
    MUT = ('add', 'add_if_absent', 'remove', 'replace')
    for fn in U.one_per_inst(fns):
        chk.analysed(fn)
        g = C.CFG(fn['body'])
        unw = None
        for n in g.rpo:
            if n.kind == 'stmt' and n.ast.get('k') == 'DeclStmt':
                for d in n.ast.get('decls') or []:
                    if 'operation_unwinder' in F.tname(fn, d.get('t')) and not d.get('static'):
                        unw = n
        site = U.site(fn, 'unwinder')
        if unw is None:
            chk.fail('R19.4', site, fn['file'], fn['l'], 'apply_patch has no local operation_unwinder', None, fn['q']); continue
        bad = None
        for n in g.rpo:
            if n.kind in ('stmt', 'cond') and isinstance(n.ast, dict):
                for c in A.calls_in(n.ast):
                    if A.callee_name(c) in MUT and 'jsonpointer' in c.get('cq', '') and not g.dominates(unw, n):
                        bad = c
        if bad: chk.fail('R19.4', site, fn['file'], bad.get('l'), 'mutation %s is not dominated by the unwinder construction' % A.text(bad)[:60], None, fn['q'])
        else: chk.ok('R19.4', site, {'function': fn['q'], 'unwinder_line': unw.line})

def run(chk, tier, only_rule=None):
    chk.explanation = EXPLANATION
    chk.not_decided = NOT_DECIDED
    facts = F.load(['core'], tier)
    chk.units = ['core']
    r19_1(chk, facts)
    r19_4(chk, tier)
    from . import c15
    c15.r15_6(chk, F.load(['patch'], tier))     # an allocation failure inside apply_patch leaves the state at begin: the destructor must roll back
