#include <jsoncons/json.hpp>
#include <jsoncons_ext/cbor/cbor.hpp>
#include <jsoncons_ext/msgpack/msgpack.hpp>
#include <iostream>
using namespace jsoncons;
int main(){
    int bad=0;
    std::vector<uint8_t> a{0x9b,0,0,0,0x20,0,0,0,0,0x01};
    try { auto v = cbor::decode_cbor<std::vector<int64_t>>(a); bad++; } catch (const ser_error& e) { std::cout << "cbor: " << e.what() << "\n"; } catch (const std::bad_alloc&) { std::cout<<"bad_alloc\n"; bad++; } catch (const std::length_error&) { std::cout<<"length_error\n"; bad++; }
    std::vector<uint8_t> b{0x9b,0x7f,0xff,0xff,0xff,0xff,0xff,0xff,0xff,0x01};
    try { auto v = cbor::decode_cbor<std::vector<int64_t>>(b); bad++; } catch (const ser_error& e) { std::cout << "cbor: " << e.what() << "\n"; } catch (const std::bad_alloc&) { std::cout<<"bad_alloc\n"; bad++; } catch (const std::length_error&) { std::cout<<"length_error\n"; bad++; }
    std::vector<uint8_t> m{0xdd,0x7f,0xff,0xff,0xff,0x01};
    try { auto v = msgpack::decode_msgpack<std::vector<int>>(m); bad++; } catch (const ser_error& e) { std::cout << "msgpack: " << e.what() << "\n"; } catch (const std::bad_alloc&) { std::cout<<"bad_alloc\n"; bad++; } catch (const std::length_error&) { std::cout<<"length_error\n"; bad++; }
    std::vector<int> big(5000); for (int i=0;i<5000;++i) big[i]=i; std::vector<uint8_t> enc; cbor::encode_cbor(big, enc);
    auto back = cbor::decode_cbor<std::vector<int>>(enc); if (back!=big) bad++;
    std::cout << (bad?"FAIL":"PASS") << "\n"; return bad;
}
