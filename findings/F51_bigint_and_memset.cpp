#include <jsoncons/json.hpp>
#include <jsoncons_ext/jmespath/jmespath.hpp>
#include <jsoncons/utility/bigint.hpp>
#include <iostream>
#include <csignal>
#include <unistd.h>
using namespace jsoncons;
int main(int argc, char** argv){
  int which = argc>1 ? atoi(argv[1]) : 0;
  alarm(5);
  if (which==0) { std::error_code ec; auto e = jmespath::make_expression<json>("{*: foo}", ec); std::cout << "compile {*: foo}: " << ec.message() << "\n"; }
  if (which==1) { std::error_code ec; auto e = jmespath::make_expression<json>("foo.{1: foo}", ec); std::cout << "compile foo.{1: foo}: " << ec.message() << "\n"; }
  if (which==2) { bigint a = bigint("340282366920938463463374607431768211456123456789012345678901234567890"); bigint b = bigint("3402823669209384634633746074317682114561234567890123456789012345678901234567890123456789"); a &= b; std::cout << "a&=b ok " << a.to_string() << "\n"; b &= a; std::cout << "b&=a ok\n"; }
  return 0;
}
