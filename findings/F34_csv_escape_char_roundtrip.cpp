#include <jsoncons/json.hpp>
#include <jsoncons_ext/csv/csv.hpp>
#include <iostream>
using namespace jsoncons;
int main(){
  int bad=0;
  for (std::string cell : {"a\\b", "a\\", "\\", "a\\\"b", "x,\\y"}) {
    json t(json_array_arg); json row(json_array_arg); row.push_back(cell); row.push_back("z"); t.push_back(row);
    auto opts = csv::csv_options{}.quote_escape_char('\\').quote_style(csv::quote_style_kind::all).mapping_kind(csv::csv_mapping_kind::n_rows).infer_types(false);
    std::string text; csv::encode_csv(t, text, opts);
    try { json r = csv::decode_csv<json>(text, opts); if (r != t) { ++bad; std::cout << "cell [" << cell << "] text " << text << " -> " << r << "\n"; } }
    catch (const std::exception& e) { ++bad; std::cout << "cell [" << cell << "] text " << text << " error " << e.what() << "\n"; }
  }
  std::cout << "bad=" << bad << "\n"; return bad?1:0;
}
