"""C07 Binary decoders implement their specifications - dispatch tables vs specification tables."""
import json, os
from .. import frontend as F, ast as A, util as U, peval as P

EXPLANATION = ('For each binary decoder the function that dispatches on the initial byte / type marker is partially evaluated '
               'once per byte value 0..255 (constant propagation of the byte through the if-chains, switches and helper '
               'functions, callees of the same class inlined); the guarded effects found for each byte - bytes read, integer type '
               'and byte order of the conversion, UTF-8 validation, visitor event and tag, error stored - are compared with the row of '
               'the specification table in /verif/spec written from the standard.  Nothing is executed.')
NOT_DECIDED = ('the decoded value beyond width/signedness/byte order; half/float conversion arithmetic; bigfloat/decimal-fraction text; '
               'behaviour on all inputs (only the per-byte dispatch rows are decided)')

CTYPE = {'uint8': 'unsigned char', 'int8': 'signed char', 'uint16': 'unsigned short', 'int16': 'short',
         'uint32': 'unsigned int', 'int32': 'int', 'uint64': 'unsigned long', 'int64': 'long',
         'float': 'float', 'double': 'double', 'half': 'unsigned short'}
WIDTH = {'uint8': 1, 'int8': 1, 'uint16': 2, 'int16': 2, 'uint32': 4, 'int32': 4, 'uint64': 8, 'int64': 8, 'float': 4, 'double': 8, 'half': 2}

def spec(name):
    return json.load(open(os.path.join(F.VERIF, 'spec', name)))

class Obs:
    """Observation of one partial evaluation: what the code does for one discriminant value."""
    def __init__(self, effects, skip_first_read=True):
        self.events = []     # (name, args, guards, line)
        self.reads = []      # (nbytes, guards, pointee type, line)
        self.spans = []      # (len, guards, line)
        self.conv = []       # (fn, T, nbytes, guards, line)
        self.errors = []     # (enumerator, guards, line)
        self.validates = []  # guards
        self.calls = []      # other member calls (name,args,guards)
        first = skip_first_read
        for e in effects:
            if e.kind == 'call':
                n = e.name
                if n.startswith('visitor.'):
                    if n != 'visitor.flush': self.events.append((n[8:], e.args, e.guards, e.line))
                elif n == 'source_.read':
                    if first: first = False; continue
                    a0 = (e.extra['ast'].get('args') or [None])[0]
                    pt = ''
                    if a0 is not None:
                        t = a0.get('t')
                        pt = e.extra.get('ptype', '')
                    self.reads.append((e.args[1] if len(e.args) > 1 else None, e.guards, pt, e.line))
                elif n == 'source_.read_span':
                    self.spans.append((e.args[0] if e.args else None, e.guards, e.line))
                elif n in ('big_to_native', 'little_to_native', 'binary::big_to_native', 'binary::little_to_native'):
                    ta = e.extra.get('ta') or ['?']
                    self.conv.append((n.split('::')[-1], ta[0], e.args[1] if len(e.args) > 1 else None, e.guards, e.line))
                elif n == 'validate' or n.endswith('.validate') or n.endswith('validate'):
                    self.validates.append(e.guards)
                else:
                    self.calls.append((n, e.args, e.guards, e.line))
            elif e.kind == 'set' and e.name == 'ec':
                self.errors.append((e.args[0], e.guards, e.line))

    def main_events(self):
        return [x for x in self.events if not x[2]]
    def main_errors(self):
        return [x for x in self.errors if not x[1]]
    def summary(self):
        return {'events': ['%s(%s)%s' % (n, ', '.join(str(a) for a in args[:3]), (' if ' + ' && '.join(g)) if g else '') for n, args, g, l in self.events][:6],
                'reads': [(n, list(g)) for n, g, t, l in self.reads][:6],
                'conv': ['%s<%s>' % (f, t) for f, t, n, g, l in self.conv][:6],
                'spans': [str(s[0]) for s in self.spans][:3],
                'errors': ['%s%s' % (e, (' if ' + ' && '.join(g)) if g else '') for e, g, l in self.errors][:4],
                'utf8_validated': bool(self.validates)}

def tag_of(args):
    for a in args:
        if isinstance(a, str) and a.startswith('semantic_tag::'): return a.split('::')[1]
    return None

def run_byte(facts, fn, bind, follow, pure=None, max_depth=4):
    pe = P.PEval(facts, fn, follow=follow, pure=pure, bind=bind, max_depth=max_depth)
    try:
        pe.exec_body(fn, {})
    except P.Stop:
        pass
    return pe.effects

def same_class_follow(cls_suffix, exclude=()):
    def follow(callee, call):
        if callee['n'] in exclude: return False
        c = A.strip_targs(callee.get('cls') or '')
        return c.endswith(cls_suffix) or ('::' + cls_suffix + '::') in c   # the class and its nested helper classes
    return follow

# ------------------------------------------------------------------------------------------------
def check_msgpack(chk, tier):
    rid = 'R07.msgpack'
    chk.rule(rid, 'basic_msgpack_parser::read_item: for every type byte 0..255 the bytes read, conversion type, UTF-8 validation, '
                  'visitor event/tag or error equal the MessagePack specification row', floor=256)
    facts = F.load(['msgpack'], tier); chk.units.append('msgpack')
    sp = spec('msgpack.json')
    rows = {}
    for r in sp['rows']:
        for b in range(r['lo'], r['hi'] + 1): rows[b] = r
    chk.require(len(rows) == 256, 'msgpack spec table does not cover 256 bytes')
    fns = U.functions(facts, cls='basic_msgpack_parser', name='read_item')
    chk.require(fns, 'basic_msgpack_parser::read_item not found')
    follow = same_class_follow('basic_msgpack_parser')
    for fn in fns:
        chk.analysed(fn)
        inst = fn['q']
        for b in range(256):
            o = Obs(run_byte(facts, fn, {'type': b}, follow))
            r = rows[b]
            bad = compare_msgpack(b, r, o)
            site = U.site(fn, 'byte=0x%02x' % b)
            facts_ = {'byte': '0x%02x' % b, 'spec': r, 'observed': o.summary(), 'instantiation': inst}
            if bad:
                chk.fail(rid, U.site(fn, 'family=%s' % r['family']) + ' ' + bad[0], fn['file'], bad[2] or fn['l'],
                         'type byte 0x%02x (%s): %s' % (b, r['family'], bad[1]), facts_, inst)
            else:
                chk.ok(rid, site, facts_ if b in (0x00, 0xa5, 0xc1, 0xcd, 0xd9, 0xdc, 0xe0) else None)

def first_line(o):
    for coll in (o.events, o.reads, o.conv, o.errors):
        for x in coll:
            return x[-1]
    return 0

def expect_single_event(o, name):
    ev = o.main_events()
    if len(ev) != 1 or ev[0][0] != name:
        return ('event', 'expected exactly one unconditional %s event, found %s' % (name, [e[0] for e in ev] or 'none'), first_line(o))
    return None

def expect_length_read(o, ltype, idx=0):
    """The idx-th data read is a big-endian unsigned length of type ltype."""
    w = WIDTH[ltype]
    reads = [r for r in o.reads if not r[1]]
    if len(reads) <= idx:
        return ('length', 'expected a %d-byte length read, none found' % w, first_line(o))
    if reads[idx][0] != w:
        return ('length', 'length is read as %s bytes, specification says %d (%s)' % (reads[idx][0], w, ltype), reads[idx][3])
    if w > 1 or o.conv:
        conv = [c for c in o.conv if not c[3]]
        if len(conv) <= idx:
            return ('length', 'no big-endian conversion of the %d-byte length' % w, reads[idx][3])
        f, t, n, g, l = conv[idx]
        if f != 'big_to_native':
            return ('order', 'length converted with %s (MessagePack is big-endian)' % f, l)
        if t != CTYPE[ltype]:
            return ('length', 'length converted as %s, specification says %s' % (t, ltype), l)
    return None

def compare_msgpack(b, r, o):
    ev = r['event']
    if ev == 'error':
        if o.events: return ('event', 'reserved byte produces event %s' % o.events[0][0], o.events[0][3])
        if not o.main_errors(): return ('error', 'reserved byte stores no error', first_line(o))
        return None
    if o.main_errors():
        return ('error', 'stores error %s unconditionally' % o.main_errors()[0][0], o.main_errors()[0][2])
    if ev in ('uint64', 'int64') and 'value' in r and 'read_type' not in r:
        bad = expect_single_event(o, ev + '_value')
        if bad: return bad
        n, args, g, l = o.main_events()[0]
        want = b if r['value'] == 'byte' else b - 256
        if not args or args[0] != want: return ('value', 'event carries %s, specification says %d' % (args[0] if args else None, want), l)
        if tag_of(args) != 'none': return ('tag', 'tag %s' % tag_of(args), l)
        if o.reads or o.spans: return ('payload', 'reads payload bytes for a fixint', l)
        return None
    if ev == 'null':
        return expect_single_event(o, 'null_value') or ((('payload', 'reads payload', first_line(o)) if o.reads or o.spans else None))
    if ev == 'bool':
        bad = expect_single_event(o, 'bool_value')
        if bad: return bad
        n, args, g, l = o.main_events()[0]
        if args[0] != (1 if r['value'] else 0): return ('value', 'bool value %s, specification says %s' % (args[0], r['value']), l)
        return None
    if 'read_type' in r:
        rt = r['read_type']
        bad = expect_single_event(o, ev + '_value')
        if bad: return bad
        n, args, g, l = o.main_events()[0]
        reads = [x for x in o.reads if not x[1]]
        if len(reads) != 1 or reads[0][0] != WIDTH[rt]:
            return ('payload', 'reads %s payload bytes, specification says %d' % ([x[0] for x in reads], WIDTH[rt]), l)
        conv = [c for c in o.conv if not c[3]]
        if conv:
            f, t, nb, g2, l2 = conv[0]
            if f != 'big_to_native': return ('order', 'payload converted with %s (MessagePack is big-endian)' % f, l2)
            if t != CTYPE[rt]: return ('type', 'payload converted as %s, specification says %s' % (t, rt), l2)
        elif WIDTH[rt] != 1:
            return ('type', 'multi-byte payload is not converted from big-endian', l)
        else:
            if rt == 'int8':
                return ('type', 'int8 payload read without a signed conversion', l)
        if tag_of(args) != 'none': return ('tag', 'tag %s on a plain number' % tag_of(args), l)
        return None
    if ev in ('string', 'byte_string'):
        name = 'string_value' if ev == 'string' else 'byte_string_value'
        bad = expect_single_event(o, name)
        if bad: return bad
        n, args, g, l = o.main_events()[0]
        spans = [s for s in o.spans if not s[1]]
        if len(spans) != 1: return ('payload', 'expected one read_span of the payload', l)
        if r.get('length') == 'low5':
            if spans[0][0] != (b & 0x1f): return ('length', 'fixstr length %s, specification says %d' % (spans[0][0], b & 0x1f), spans[0][2])
        else:
            bad = expect_length_read(o, r['length_type'])
            if bad: return bad
        if r.get('utf8') and not o.validates: return ('utf8', 'text string is not UTF-8 validated before the event', l)
        if tag_of(args) != 'none': return ('tag', 'tag %s' % tag_of(args), l)
        return None
    if ev in ('begin_array', 'begin_object'):
        bad = expect_single_event(o, ev)
        if bad: return bad
        n, args, g, l = o.main_events()[0]
        if r.get('length') == 'low4':
            if args[0] != (b & 0x0f): return ('length', 'fix container length %s, specification says %d' % (args[0], b & 0x0f), l)
            if o.reads: return ('payload', 'reads bytes for a fix container header', l)
        else:
            bad = expect_length_read(o, r['length_type'])
            if bad: return bad
        return None
    if ev == 'ext':
        # header: length (fixed or typed) then a 1-byte signed type
        if 'length_type' in r:
            bad = expect_length_read(o, r['length_type'])
            if bad: return bad
            idx = 1
        else:
            idx = 0
        reads = [x for x in o.reads if not x[1]]
        if len(reads) <= idx or reads[idx][0] != 1:
            return ('ext', 'ext type is not read as one byte', first_line(o))
        conv = [c for c in o.conv if not c[3]]
        if len(conv) > idx and conv[idx][1] != CTYPE['int8']:
            return ('ext', 'ext type converted as %s, specification says int8' % conv[idx][1], conv[idx][4])
        if not any(e[0] == 'byte_string_value' for e in o.events):
            return ('ext', 'no byte_string_value event for a generic ext', first_line(o))
        return None
    return ('spec', 'unhandled spec row kind %s' % ev, 0)


# ------------------------------------------------------------------------------------------------
ARGW = {24: ('uint8', 1), 25: ('uint16', 2), 26: ('uint32', 4), 27: ('uint64', 8)}

def cbor_pure(callee, call):
    return callee['n'] in ('get_major_type', 'get_additional_information_value')

def check_cbor(chk, tier):
    rid = 'R07.cbor'
    chk.rule(rid, 'basic_cbor_parser::read_item: for every initial byte of majors 0-5 and 7 the argument width/type, reserved '
                  'additional-information values, event kind, UTF-8 validation and the simple/float table equal RFC 8949', floor=224)
    facts = F.load(['cbor'], tier); chk.units.append('cbor')
    sp = spec('cbor.json')
    chk.require(sp['argument'].get('28-30', '').startswith('reserved'), 'cbor spec: reserved argument row missing')
    fns = U.functions(facts, cls='basic_cbor_parser', name='read_item')
    chk.require(fns, 'basic_cbor_parser::read_item not found')
    # tagged composite readers are separate constructs (their own items are dispatched through read_item again)
    follow = same_class_follow('basic_cbor_parser', exclude=('read_decimal_fraction', 'read_bigfloat', 'read_mdarray_header', 'read_extents'))
    for fn in fns:
        chk.analysed(fn)
        inst = fn['q']
        for b in range(256):
            major, info = b >> 5, b & 0x1f
            if major == 6: continue      # tags are consumed by read_tags before dispatch (covered by R07.cbor.tags)
            pe = P.PEval(facts, fn, follow=follow, pure=cbor_pure, max_depth=5, max_effects=20000)
            pe.head = b
            try:
                pe.exec_body(fn, {})
            except P.Stop:
                chk.broken('R07.cbor: effect budget exhausted for byte 0x%02x' % b)
            o = Obs(pe.effects, skip_first_read=False)
            bad = compare_cbor(b, major, info, o)
            infoclass = 'info=%d' % info if info >= 20 else 'info<20'
            if major != 7:
                infoclass = 'info<24' if info < 24 else 'info=%d' % info
            facts_ = {'byte': '0x%02x' % b, 'major': major, 'info': info, 'observed': o.summary(), 'instantiation': inst}
            if bad:
                chk.fail(rid, U.site(fn, 'major=%d %s' % (major, infoclass)) + ' ' + bad[0], fn['file'], bad[2] or fn['l'],
                         'initial byte 0x%02x (major %d, info %d): %s' % (b, major, info, bad[1]), facts_, inst)
            else:
                chk.ok(rid, U.site(fn, 'byte=0x%02x' % b), facts_ if b in (0x05, 0x19, 0x3b, 0x65, 0x9f, 0xf9, 0xfb) else None)

PRINCIPAL = {0: 'uint64_value', 1: 'int64_value', 2: 'byte_string_value', 3: 'string_value', 4: 'begin_array', 5: 'begin_object'}

def compare_cbor(b, major, info, o):
    evnames = [e[0] for e in o.events]
    line = first_line(o)
    data_reads = [r for r in o.reads if not r[1]]
    if major == 7:
        want = {20: ('bool_value', 0), 21: ('bool_value', 1), 22: ('null_value', 'none'), 23: ('null_value', 'undefined')}
        if info in want:
            ev = o.main_events()
            if len(ev) != 1 or ev[0][0] != want[info][0]:
                return ('event', 'expected %s, found %s' % (want[info][0], evnames or 'none'), line)
            n, args, g, l = ev[0]
            if n == 'bool_value' and args[0] != want[info][1]: return ('value', 'bool value %s' % args[0], l)
            if n == 'null_value' and tag_of(args) != want[info][1]: return ('tag', 'null tag %s, expected %s' % (tag_of(args), want[info][1]), l)
            return None
        if info in (25, 26, 27):
            name = 'half_value' if info == 25 else 'double_value'
            ev = o.main_events()
            if len(ev) != 1 or ev[0][0] != name: return ('event', 'expected %s, found %s' % (name, evnames or 'none'), line)
            w = {25: 2, 26: 4, 27: 8}[info]
            payload = [r for r in data_reads if r[0] != 1 or w == 1]
            # the initial byte is consumed by a 1-byte read; the payload read follows
            if not any(r[0] == w for r in data_reads): return ('payload', 'float payload of %d bytes not read (reads: %s)' % (w, [r[0] for r in data_reads]), ev[0][3])
            ct = {25: 'unsigned short', 26: 'float', 27: 'double'}[info]
            conv = [c for c in o.conv if not c[3]]
            if not conv or conv[-1][0] != 'big_to_native' or conv[-1][1] != ct:
                return ('type', 'float payload converted as %s, expected big_to_native<%s>' % (['%s<%s>' % (c[0], c[1]) for c in conv], ct), ev[0][3])
            return None
        # simple values 0..19, 24, reserved 28..30 and break (31) in item position: no value may be produced
        if o.events: return ('event', 'major 7 info %d produces %s, expected an error' % (info, evnames), o.events[0][3])
        if not o.main_errors(): return ('error', 'major 7 info %d stores no error' % info, line)
        return None
    # majors 0..5
    reserved = info in (28, 29, 30) or (info == 31 and major in (0, 1))
    if reserved:
        # for arrays, the tag-4/5 composite readers (not inlined) are followed by their own string events: only the
        # array's own event counts there
        evs = [e for e in o.events if major != 4 or e[0] == PRINCIPAL[4]]
        if evs:
            return ('reserved', 'reserved additional information %d is decoded (events %s) instead of being rejected as not well-formed' % (info, sorted(set(e[0] for e in evs))), evs[0][3])
        if not o.errors:
            return ('reserved', 'reserved additional information %d stores no error' % info, line)
        return None
    name = PRINCIPAL[major]
    if name not in evnames:
        return ('event', 'expected a %s event, found %s' % (name, sorted(set(evnames)) or 'none'), line)
    allowed = {name}
    if major in (0, 2, 3): allowed |= {'string_value', 'byte_string_value', 'begin_array', 'end_array', 'uint64_value', 'int64_value', 'double_value', 'half_value', 'typed_array', 'begin_multi_dim', 'end_multi_dim'}
    if major == 4: allowed |= {'string_value', 'byte_string_value', 'begin_array', 'end_array', 'uint64_value', 'int64_value', 'double_value', 'half_value', 'begin_multi_dim', 'end_multi_dim', 'typed_array'}
    extra = [n for n in evnames if n not in allowed]
    if extra: return ('event', 'unexpected events %s for major %d' % (sorted(set(extra)), major), line)
    if info == 31:
        return None    # indefinite length: chunk loop is covered by R07.cbor.chunks
    # argument width
    if info < 24:
        big = [r for r in data_reads if r[0] != 1]
        if big: return ('width', 'reads %s payload bytes for an immediate argument' % [r[0] for r in big], big[0][3])
        if major in (0,):
            ev = [e for e in o.main_events() if e[0] == name]
            if ev and ev[0][1] and ev[0][1][0] != info: return ('value', 'event carries %s, expected %d' % (ev[0][1][0], info), ev[0][3])
        if major in (4, 5):
            ev = [e for e in o.events if e[0] == name and e[1] and isinstance(e[1][0], int)]
            if ev and ev[0][1][0] != info: return ('length', 'container length %s, expected %d' % (ev[0][1][0], info), ev[0][3])
        return None
    t, w = ARGW[info]
    # the argument may be read on each of several tag-dependent paths: accept a read of the right width on any path
    if not any(r[0] == w for r in o.reads):
        return ('width', 'argument of %d bytes not read (reads: %s)' % (w, sorted(set(str(r[0]) for r in o.reads))), line)
    wrong = [r for r in data_reads if r[0] not in (1, w)]
    if wrong: return ('width', 'reads %s bytes, expected %d' % ([r[0] for r in wrong], w), wrong[0][3])
    if w > 1:
        conv = [c for c in o.conv if c[2] == w] or [c for c in o.conv if not c[3]]
        if not conv: return ('type', 'argument not converted from big-endian', line)
        if conv[0][0] != 'big_to_native': return ('order', 'argument converted with %s' % conv[0][0], conv[0][4])
        if conv[0][1] != CTYPE[t]: return ('type', 'argument converted as %s, expected %s' % (conv[0][1], t), conv[0][4])
    if major == 3 and not o.validates:
        return ('utf8', 'text string not UTF-8 validated', line)
    return None

# ------------------------------------------------------------------------------------------------
def typed_number_row(o, rt, event, conv_fn, line):
    """Shared check of a fixed-width number row: one payload read of WIDTH[rt], conversion <CTYPE[rt]> with conv_fn, one event."""
    ev = [e for e in o.main_events()]
    if len(ev) != 1 or ev[0][0] != event:
        return ('event', 'expected exactly one %s event, found %s' % (event, [e[0] for e in o.events] or 'none'), line)
    reads = [r for r in o.reads if not r[1]]
    if len(reads) != 1 or reads[0][0] != WIDTH[rt]:
        return ('payload', 'reads %s payload bytes, specification says %d' % ([r[0] for r in reads], WIDTH[rt]), ev[0][3])
    conv = [c for c in o.conv if not c[3]]
    if conv:
        if conv[0][0] != conv_fn: return ('order', 'payload converted with %s, specification byte order needs %s' % (conv[0][0], conv_fn), conv[0][4])
        if conv[0][1] != CTYPE[rt]: return ('type', 'payload converted as %s, specification says %s' % (conv[0][1], rt), conv[0][4])
    elif WIDTH[rt] != 1 or rt == 'int8':
        return ('type', 'payload of type %s is not converted' % rt, ev[0][3])
    return None

def check_ubjson(chk, tier):
    rid = 'R07.ubjson'
    chk.rule(rid, 'basic_ubjson_parser::read_value and get_length: for every marker byte 0..255 the payload width/type, UTF-8 '
                  'validation, event/tag, negative-length rejection or error equal the UBJSON draft-12 marker table', floor=512)
    facts = F.load(['ubjson'], tier); chk.units.append('ubjson')
    sp = spec('ubjson.json')
    markers = {ord(k): v for k, v in sp['markers'].items()}
    follow = same_class_follow('basic_ubjson_parser')
    fns = U.functions(facts, cls='basic_ubjson_parser', name='read_value')
    chk.require(fns, 'basic_ubjson_parser::read_value not found')
    for fn in fns:
        chk.analysed(fn)
        for b in range(256):
            o = Obs(run_byte(facts, fn, {'type': b}, follow), skip_first_read=False)
            row = markers.get(b)
            bad = compare_ubjson_value(b, row, o)
            fam = ('marker=%s' % chr(b)) if row else 'marker=other'
            facts_ = {'byte': '0x%02x' % b, 'spec': row, 'observed': o.summary(), 'instantiation': fn['q']}
            if bad: chk.fail(rid, U.site(fn, fam) + ' ' + bad[0], fn['file'], bad[2] or fn['l'], 'marker 0x%02x %r: %s' % (b, chr(b) if 32 <= b < 127 else '', bad[1]), facts_, fn['q'])
            else: chk.ok(rid, U.site(fn, 'byte=0x%02x' % b), facts_ if chr(b) in 'ZiUSH[x' else None)
    gl = U.functions(facts, cls='basic_ubjson_parser', name='get_length')
    chk.require(gl, 'basic_ubjson_parser::get_length not found')
    ltypes = {ord(c): markers[ord(c)]['read_type'] for c in sp['length_types']}
    for fn in gl:
        chk.analysed(fn)
        for b in range(256):
            o = Obs(run_byte(facts, fn, {'type': b}, follow), skip_first_read=True)
            bad = None
            line = first_line(o) or fn['l']
            if b in ltypes:
                rt = ltypes[b]
                reads = [r for r in o.reads if not r[1]]
                if len(reads) != 1 or reads[0][0] != WIDTH[rt]:
                    bad = ('width', 'length of type %s read as %s bytes' % (rt, [r[0] for r in reads]), line)
                else:
                    conv = [c for c in o.conv if not c[3]]
                    if conv and (conv[0][0] != 'big_to_native' or conv[0][1] != CTYPE[rt]):
                        bad = ('type', 'length converted with %s<%s>, specification says big-endian %s' % (conv[0][0], conv[0][1], rt), conv[0][4])
                    elif not conv and rt != 'uint8':
                        bad = ('type', 'length of type %s not converted' % rt, line)
                    elif rt.startswith('int') and not any(e[0].endswith('length_is_negative') for e in o.errors):
                        bad = ('negative', 'signed length type %s has no length_is_negative rejection' % rt, line)
                    elif o.main_errors():
                        bad = ('error', 'stores %s unconditionally' % o.main_errors()[0][0], o.main_errors()[0][2])
            else:
                if not o.main_errors():
                    bad = ('error', 'byte is not a length type but no error is stored', line)
            fam = 'length_marker=%s' % (chr(b) if b in ltypes else 'other')
            facts_ = {'byte': '0x%02x' % b, 'observed': o.summary(), 'instantiation': fn['q']}
            if bad: chk.fail(rid, U.site(fn, fam) + ' ' + bad[0], fn['file'], bad[2], 'length marker 0x%02x: %s' % (b, bad[1]), facts_, fn['q'])
            else: chk.ok(rid, U.site(fn, 'byte=0x%02x' % b), facts_ if b in ltypes else None)

def compare_ubjson_value(b, row, o):
    line = first_line(o)
    evn = [e[0] for e in o.events]
    if row is None or chr(b) in ']}':
        if o.events: return ('event', 'non-value marker produces %s' % evn, o.events[0][3])
        if not o.main_errors(): return ('error', 'non-value marker stores no error', line)
        return None
    c = chr(b)
    if o.main_errors(): return ('error', 'stores error %s unconditionally' % o.main_errors()[0][0], o.main_errors()[0][2])
    if c == 'N':
        if o.events: return ('event', 'no-op produces %s' % evn, o.events[0][3])
        return None
    if c == 'Z':
        return None if [e[0] for e in o.main_events()] == ['null_value'] else ('event', 'expected null_value, found %s' % evn, line)
    if c in 'TF':
        ev = o.main_events()
        if [e[0] for e in ev] != ['bool_value']: return ('event', 'expected bool_value, found %s' % evn, line)
        if ev[0][1][0] != (1 if c == 'T' else 0): return ('value', 'bool value %s' % ev[0][1][0], ev[0][3])
        return None
    if 'read_type' in row:
        bad = typed_number_row(o, row['read_type'], row['event'] + '_value', 'big_to_native', line)
        if bad: return bad
        if tag_of(o.main_events()[0][1]) != 'none': return ('tag', 'tag %s on a plain number' % tag_of(o.main_events()[0][1]), line)
        return None
    if c == 'C':
        ev = o.main_events()
        if [e[0] for e in ev] != ['string_value']: return ('event', 'expected string_value, found %s' % evn, line)
        reads = [r for r in o.reads if not r[1]]
        if [r[0] for r in reads] != [1]: return ('payload', 'char reads %s bytes' % [r[0] for r in reads], line)
        if not o.validates: return ('utf8', 'char is not UTF-8 validated', line)
        return None
    if c in 'SH':
        names = set(evn)
        if names != {'string_value'}: return ('event', 'expected string_value, found %s' % evn, line)
        if not any(not s[1] for s in o.spans): return ('payload', 'payload not read with read_span', line)
        # length comes from get_length (inlined): its marker read + payload are guarded by the unknown marker
        if c == 'S':
            if not o.validates: return ('utf8', 'string is not UTF-8 validated', line)
            if tag_of(o.main_events()[0][1]) != 'none': return ('tag', 'tag %s on a string' % tag_of(o.main_events()[0][1]), line)
        else:
            tags = sorted(set(tag_of(e[1]) for e in o.events))
            if tags != ['bigdec', 'bigint']: return ('tag', 'high-precision number tags %s, expected bigint/bigdec' % tags, line)
        return None
    if c == '[':
        return None if 'begin_array' in evn and 'begin_object' not in evn else ('event', 'expected begin_array, found %s' % evn, line)
    if c == '{':
        return None if 'begin_object' in evn and 'begin_array' not in evn else ('event', 'expected begin_object, found %s' % evn, line)
    return ('spec', 'unhandled marker', line)

# ------------------------------------------------------------------------------------------------
def check_bson(chk, tier):
    rid = 'R07.bson'
    chk.rule(rid, 'basic_bson_parser::read_value: for every element type byte 0..255 the payload width/type (little-endian), '
                  'event/tag or error equal the BSON 1.1 element table', floor=256)
    facts = F.load(['bson'], tier); chk.units.append('bson')
    sp = spec('bson.json')
    types = {int(k, 16): v for k, v in sp['types'].items()}
    follow = same_class_follow('basic_bson_parser')
    fns = U.functions(facts, cls='basic_bson_parser', name='read_value')
    chk.require(fns, 'basic_bson_parser::read_value not found')
    for fn in fns:
        chk.analysed(fn)
        for b in range(256):
            o = Obs(run_byte(facts, fn, {'type': b}, follow), skip_first_read=False)
            row = types.get(b)
            bad = compare_bson(b, row, o)
            fam = 'type=0x%02x(%s)' % (b, row['name']) if row else 'type=other'
            facts_ = {'byte': '0x%02x' % b, 'spec': row, 'observed': o.summary(), 'instantiation': fn['q']}
            if bad: chk.fail(rid, U.site(fn, fam) + ' ' + bad[0], fn['file'], bad[2] or fn['l'], 'element type 0x%02x (%s): %s' % (b, row['name'] if row else 'undefined', bad[1]), facts_, fn['q'])
            else: chk.ok(rid, U.site(fn, 'byte=0x%02x' % b), facts_ if b in (1, 2, 5, 8, 0x10, 0x12, 0x20) else None)

BSON_EVENT = {0x01: 'double_value', 0x09: 'int64_value', 0x10: 'int64_value', 0x11: 'uint64_value', 0x12: 'int64_value'}

def compare_bson(b, row, o):
    line = first_line(o)
    evn = [e[0] for e in o.events]
    if row is None:
        if o.events: return ('event', 'undefined element type produces %s' % evn, o.events[0][3])
        if not o.main_errors(): return ('error', 'undefined element type stores no error', line)
        return None
    if b in BSON_EVENT:
        return typed_number_row(o, row['read_type'], BSON_EVENT[b], 'little_to_native', line)
    if b in (0x06, 0x0a):
        ev = o.main_events()
        if [e[0] for e in ev] != ['null_value']: return ('event', 'expected null_value, found %s' % evn, line)
        if o.reads or o.spans: return ('payload', 'reads payload for a type without one', line)
        if b == 0x06 and tag_of(ev[0][1]) != 'undefined': return ('tag', 'undefined mapped with tag %s' % tag_of(ev[0][1]), ev[0][3])
        return None
    if b == 0x08:
        reads = [r for r in o.reads if not r[1]]
        if [r[0] for r in reads] != [1]: return ('payload', 'boolean reads %s bytes' % [r[0] for r in reads], line)
        if set(evn) != {'bool_value'}: return ('event', 'expected bool_value, found %s' % evn, line)
        return None
    if b in (0x03, 0x04):
        want = 'begin_object' if b == 3 else 'begin_array'
        if want not in evn: return ('event', 'expected %s, found %s' % (want, evn), line)
        return None
    if b in (0xff, 0x7f):
        # specification: no payload
        if o.reads or o.spans:
            return ('payload', 'min/max key has no payload in the specification but %s payload bytes are read as a string' % [r[0] for r in o.reads], line)
        return None
    if b in (0x02, 0x0d, 0x0e):
        if 'string_value' not in evn: return ('event', 'expected string_value, found %s' % evn, line)
        reads = [r for r in o.reads if not r[1]]
        if not reads or reads[0][0] != 4: return ('length', 'string length read as %s bytes, specification says int32' % [r[0] for r in reads], line)
        conv = [c for c in o.conv if not c[3]]
        if not conv or conv[0][0] != 'little_to_native' or conv[0][1] != 'int': return ('length', 'string length converted as %s' % (['%s<%s>' % (c[0], c[1]) for c in conv]), line)
        if not o.validates: return ('utf8', 'string not UTF-8 validated', line)
        return None
    if b == 0x05:
        if 'byte_string_value' not in evn: return ('event', 'expected byte_string_value, found %s' % evn, line)
        reads = [r for r in o.reads if not r[1]]
        if [r[0] for r in reads[:2]] != [4, 1]: return ('layout', 'binary header reads %s, specification says int32 length then subtype byte' % [r[0] for r in reads], line)
        return None
    if b == 0x07:
        reads = [r for r in o.reads if not r[1]]
        if [r[0] for r in reads] != [12]: return ('payload', 'ObjectId reads %s bytes, specification says 12' % [r[0] for r in reads], line)
        if 'string_value' not in evn: return ('event', 'expected string_value(id), found %s' % evn, line)
        return None
    if b == 0x13:
        reads = [r for r in o.reads if not r[1]]
        if [r[0] for r in reads] != [16]: return ('payload', 'decimal128 reads %s bytes, specification says 16' % [r[0] for r in reads], line)
        return None
    if b == 0x0b:
        if 'string_value' not in evn: return ('event', 'expected string_value(regex), found %s' % evn, line)
        return None
    if b in (0x0c, 0x0f):
        # deprecated types: an error or a faithful read are both acceptable; silently producing nothing is not
        if not o.events and not o.errors: return ('error', 'deprecated type neither decoded nor rejected', line)
        return None
    return ('spec', 'unhandled element type', line)

def check_bson_size(chk, tier):
    from .. import cfg as C, guards as G
    rid = 'R07.bson.size'
    chk.rule(rid, 'BSON end_document/end_array compare the bytes consumed with the declared size exactly (pos != length -> size_mismatch): '
                  'every closer (a function that reports end_object or end_array) must use that exact comparison', floor=1)
    facts = F.load(['bson'], tier)
    n = 0
    # the closers: the member functions that report end_object / end_array to the visitor (whatever they are called, one or two of them)
    closers = {}
    for fn in U.one_per_inst([f for f in U.functions(facts, cls='basic_bson_parser') if f.get('body') is not None]):
        evs = set(A.callee_name(c) for c in A.walk_no_lambda(fn['body']) if A.is_call(c) and A.callee_name(c) in ('end_object', 'end_array') and 'visitor' in (c.get('cq') or ''))
        if evs: closers[fn['q'] + ':%s' % fn['l']] = (fn, evs)
    covered = set(e for fn, evs in closers.values() for e in evs)
    chk.require({'end_object', 'end_array'} <= covered, 'basic_bson_parser: functions reporting end_object and end_array not found (%s)' % sorted(covered))
    for fn, evs in closers.values():
        name = fn['n']
        for _ in (0,):
            chk.analysed(fn)
            g = C.CFG(fn['body'])
            found = None
            for nd in g.rpo:
                if nd.kind != 'cond': continue
                cmp_ = G.comparison(nd.ast)
                if not cmp_: continue
                op, l, r = cmp_
                names = {A.member_name(l) or A.ref_name(l), A.member_name(r) or A.ref_name(r)}
                if names == {'pos', 'length'}:
                    found = (nd, op)
            n += 1
            site = U.site(fn, 'size check')
            if found is None:
                chk.fail(rid, site, fn['file'], fn['l'], '%s has no comparison of pos with length' % name, None, fn['q']); continue
            nd, op = found
            rej_label = True if op == '!=' else (False if op == '==' else None)
            ok = rej_label is not None
            if ok:
                rej = [e for e in nd.succ if e.kind == 'edge' and e.label is rej_label]
                ok = bool(rej) and any(x.kind == 'stmt' and G.assigns_enumerator(x.ast, {'ec'}, 'size_mismatch') for x in G.region_of_edge(g, rej[0]))
            if ok: chk.ok(rid, site, {'function': fn['q'], 'comparison': A.text(nd.ast)})
            else:
                chk.fail(rid, site, fn['file'], nd.line, '%s checks the declared size with `%s` instead of an exact pos != length -> size_mismatch' % (name, A.text(nd.ast)[:60]),
                         {'function': fn['q']}, fn['q'])
    chk.require(n >= 1, 'R07.bson.size: closers not found')

def check_decimal128_fields(chk, tier):
    """BSON decimal128: the text-to-bits and bits-to-text halves place the exponent field at the same bit positions."""
    rid = 'R07.bson.decimal128'
    chk.rule(rid, 'decimal128 exponent field: the set of bit positions at which decimal128_from_chars stores the biased exponent '
                  '(`(e & 0x3fff) << K` into the high 64-bit word: 49 for the ordinary form, 47 for the large-significand form) equals the '
                  'set at which decimal128_to_chars extracts it (`(high >> k) & exponent_mask` on the upper 32-bit half: k + 32)', floor=1)
    facts = F.load(['bson'], tier)
    if 'bson' not in chk.units: chk.units.append('bson')
    tc = [f for f in facts.functions if f['n'] == 'decimal128_to_chars' and f.get('body') is not None and not f.get('dep')]
    fc = [f for f in facts.functions if f['n'] == 'decimal128_from_chars' and f.get('body') is not None and not f.get('dep')]
    chk.require(tc and fc, 'decimal128_to_chars / decimal128_from_chars not found')
    tcf, fcf = tc[0], fc[0]
    chk.analysed(tcf); chk.analysed(fcf)
    # the half word the reader works on: a local initialised from (dec.high >> W)
    off = {}
    for x in A.walk_no_lambda(tcf['body']):
        if x.get('k') in ('BinaryOperator',) and x.get('op') == '=' or x.get('k') == 'VarDecl':
            rhs = x.get('rhs') if x.get('k') == 'BinaryOperator' else x.get('init')
            lhs = A.strip(x.get('lhs'), casts=True) if x.get('k') == 'BinaryOperator' else x
            if rhs is None or lhs is None: continue
            for y in A.walk(rhs):
                if y.get('k') == 'BinaryOperator' and y.get('op') == '>>' and A.const(y.get('rhs')) is not None and (A.strip(y.get('lhs'), casts=True) or {}).get('k') == 'MemberExpr':
                    off[lhs.get('id') if lhs.get('k') in ('DeclRefExpr', 'VarDecl') else None] = A.const(y['rhs'])
    reads = set(); mask = None
    for x in A.walk_no_lambda(tcf['body']):
        if x.get('k') == 'BinaryOperator' and x.get('op') == '&':
            m = A.strip(x.get('rhs'), casts=True)
            if m is not None and m.get('k') == 'DeclRefExpr' and 'exponent_mask' in m.get('n', ''):
                sh = A.strip(x.get('lhs'), casts=True)
                if sh is not None and sh.get('k') == 'BinaryOperator' and sh.get('op') == '>>' and A.const(sh.get('rhs')) is not None:
                    w = A.strip(sh.get('lhs'), casts=True)
                    base = off.get(w.get('id')) if w is not None and w.get('k') == 'DeclRefExpr' else None
                    chk.require(base is not None, '%s: the word the exponent is read from is not derived from dec.high by a shift' % rid)
                    reads.add(A.const(sh['rhs']) + base)
                    mask = A.const(m)
    writes = set()
    for x in A.walk_no_lambda(fcf['body']):
        if x.get('k') == 'BinaryOperator' and x.get('op') == '<<' and A.const(x.get('rhs')) is not None:
            l = A.strip(x.get('lhs'), casts=True)
            if l is not None and l.get('k') == 'BinaryOperator' and l.get('op') == '&' and A.const(l.get('rhs')) == (mask if mask is not None else 0x3fff) and \
               any(y.get('k') == 'DeclRefExpr' and 'exponent' in y.get('n', '') for y in A.walk(l.get('lhs'))):
                writes.add(A.const(x['rhs']))
    chk.require(len(reads) >= 1 and len(writes) >= 2, '%s: exponent field accesses not recognised (reads %s, writes %s)' % (rid, sorted(reads), sorted(writes)))
    site = 'include/jsoncons_ext/bson/bson_decimal128.hpp exponent field positions'
    if reads == writes: chk.ok(rid, site, {'positions': sorted(reads), 'mask': hex(mask or 0)})
    else:
        chk.fail(rid, site, tcf['file'], tcf['l'], 'decimal128_to_chars reads the biased exponent at bit positions %s of the high word, decimal128_from_chars stores it at %s: '
                 'one of the two encodings (ordinary / large significand) is decoded with the exponent of the other' % (sorted(reads), sorted(writes)), None, tcf['q'])

def check_cbor_tag_flags(chk, tier):
    """A CBOR tag applies to the one data item that follows it."""
    from .. import cfg as C, guards as G
    rid = 'R07.cbor.tags'
    chk.rule(rid, 'CBOR tag flags are consumed: wherever the parser acts on a pending tag (`if (other_tags_[T])`), every path from the true '
                  'outcome to a normal return clears that flag (error returns excepted); a flag left set makes the next, untagged item of '
                  'the same major type be decoded with the previous item\'s tag', floor=8)
    facts = F.load(['cbor'], tier)
    if 'cbor' not in chk.units: chk.units.append('cbor')
    def tagref(e):
        for y in A.walk(e):
            if y.get('k') == 'CXXOperatorCallExpr' and y.get('oop') == '[]' and y.get('args'):
                o = A.strip(y['args'][0], casts=True)
                if o is not None and o.get('k') == 'MemberExpr' and o.get('n', '').endswith('tags_'):
                    return U.enum_const_name(y['args'][1]) or A.text(y['args'][1])
        return None
    n = 0
    for fn in U.one_per_inst([f for f in U.functions(facts, cls='basic_cbor_parser') if f.get('body') is not None]):
        g = None
        for x in A.walk_no_lambda(fn['body']):
            if x.get('k') == 'IfStmt' and tagref(x.get('cond')) is not None: g = C.CFG(fn['body']); break
        if g is None: continue
        chk.analysed(fn)
        errs = [x for x in g.rpo if x.kind == 'stmt' and isinstance(x.ast, dict) and (U.assigned_member(x.ast) or (None,))[0] == 'ec']
        # `if (ec) return;` after a call that reports through ec: the true outcome is an error path
        errs += [x for x in g.rpo if x.kind == 'edge' and x.label is True and isinstance(x.ast, dict) and G.comparison(x.ast) is None and
                 any(y.get('k') == 'DeclRefExpr' and y.get('n') == 'ec' for y in A.walk(x.ast))]
        k = 0
        for nd in g.rpo:
            if nd.kind != 'cond' or not isinstance(nd.ast, dict): continue
            t = tagref(nd.ast)
            if t is None: continue
            k += 1; n += 1
            clears = [x for x in g.rpo if x.kind == 'stmt' and isinstance(x.ast, dict) and tagref(x.ast) == t and
                      any(y.get('k') == 'CXXOperatorCallExpr' and y.get('oop') == '=' and A.const((y.get('args') or [None, None])[1]) == 0 for y in A.walk(x.ast))]
            te = [e for e in nd.succ if e.label is True]
            site = U.site(fn, 'pending %s test #%d' % (t, k))
            if te and not g.can_reach(te[0], [g.exit_return], avoid=clears + errs): chk.ok(rid, site, {'function': fn['q'], 'line': nd.line})
            else:
                chk.fail(rid, site, fn['file'], nd.line, '%s acts on the pending tag flag %s (line %s) and can return normally without clearing it: the next item without a tag '
                         'is decoded as if it carried this one' % (fn['n'], t, nd.line), None, fn['q'])
        # the item dispatcher (the function that tests one flag for several major types) consumes the tag of every item: whatever the
        # major type, tested or not, no normal return leaves the flag set
        tests = {}
        for nd in g.rpo:
            if nd.kind == 'cond' and isinstance(nd.ast, dict) and tagref(nd.ast) is not None: tests[tagref(nd.ast)] = tests.get(tagref(nd.ast), 0) + 1
        for t, cnt in sorted(tests.items()):
            if cnt < 3: continue
            n += 1
            clears = [x for x in g.rpo if x.kind == 'stmt' and isinstance(x.ast, dict) and tagref(x.ast) == t and
                      any(y.get('k') == 'CXXOperatorCallExpr' and y.get('oop') == '=' and A.const((y.get('args') or [None, None])[1]) == 0 for y in A.walk(x.ast))]
            seen_ = g.reachable_from(g.entry, avoid=clears + errs)
            leaks = [p_ for p_ in g.exit_return.pred if p_.id in seen_]
            site = U.site(fn, 'dispatcher consumes %s' % t)
            if not leaks: chk.ok(rid, site, {'function': fn['q'], 'tests': cnt, 'clears': len(clears)})
            else:
                chk.fail(rid, site, fn['file'], leaks[0].line or fn['l'], '%s dispatches on the pending tag flag %s in %d places but can return normally (line %s) without clearing it: '
                         'an item of a major type that does not look at the tag leaves it for the next item' % (fn['n'], t, cnt, leaks[0].line), None, fn['q'])
    chk.require(n >= 8, '%s: only %d pending-tag tests found in basic_cbor_parser' % (rid, n))
    # a parser that is reused forgets the pending tags of the input it was given before: reset() clears the flag member
    flag_members = set()
    allf = [f for f in U.functions(facts, cls='basic_cbor_parser') if f.get('body') is not None]
    for fn in allf:
        for y in A.walk_no_lambda(fn['body']):
            if y.get('k') == 'CXXOperatorCallExpr' and y.get('oop') == '[]' and y.get('args'):
                o = A.strip(y['args'][0], casts=True)
                if o is not None and o.get('k') == 'MemberExpr' and o.get('n', '').endswith('tags_'): flag_members.add(o['n'])
    from .. import inline as I
    resets = U.one_per_inst([f for f in allf if f['n'] == 'reset'])
    chk.require(resets and flag_members, '%s: basic_cbor_parser::reset or the pending-tag member not found' % rid)
    for fn in resets:
        for m in sorted(flag_members):
            cleared = False
            for b in I.closure_bodies(facts, fn, depth=2):
                for y in A.walk_no_lambda(b):
                    # other_tags_.reset() / other_tags_ = {} / other_tags_.reset(i) for every flag is not attempted: the whole set
                    if A.is_call(y) and y.get('k') == 'CXXMemberCallExpr' and A.callee_name(y) == 'reset' and not (y.get('args') or []) and (A.strip(y.get('obj'), casts=True) or {}).get('n') == m: cleared = True
                    am = U.assigned_member(y) if y.get('k') in ('BinaryOperator', 'CXXOperatorCallExpr') else None
                    if am and am[0] == m: cleared = True
            site = U.site(fn, 'reset clears %s' % m)
            chk.analysed(fn)
            if cleared: chk.ok(rid, site, {'function': fn['q'], 'member': m})
            else:
                chk.fail(rid, site, fn['file'], fn['l'], 'basic_cbor_parser::reset leaves the pending tag flags `%s` as they are: after an input that ended (or failed) between a tag and its item, '
                         'the first item of the next input is decoded as if it carried that tag' % m, None, fn['q'])

def check_adaptor_levels(chk, tier, rid='R07.adaptor'):
    """The visitor adaptors that sit between a binary parser and its consumer (non-string map keys are turned into text) count every item."""
    from .. import cfg as C
    chk.rule(rid, 'item bookkeeping of the visitor adaptors (generic_visitor.hpp): a visit_* that advances the current level '
                  '(`level_stack_.back().advance()`) does so on every path to its normal return; an item that is handed on without being '
                  'counted leaves the key/value parity of the enclosing map one off, and everything after it is decoded under the wrong role', floor=15)
    facts = F.load(['core'], tier)
    if 'core' not in chk.units: chk.units.append('core')
    n = 0
    # the adaptors are class templates that the drivers do not instantiate by themselves: the template bodies are analysed (the statements and
    # the control flow are those of every instantiation)
    cand = sorted([f for f in facts.functions if f.get('body') is not None and f['file'].endswith('generic_visitor.hpp') and f['n'].startswith('visit_')], key=lambda f: bool(f.get('dep')))
    for fn in U.one_per_inst(cand):
        adv = [c for c in A.calls_in(fn['body'], no_lambda=True) if A.callee_name(c) == 'advance' and 'level_stack_' in A.text(c)]
        if not adv: continue
        n += 1
        chk.analysed(fn)
        g = C.CFG(fn['body'])
        nodes = [nd for nd in g.rpo if nd.kind in ('stmt', 'cond', 'return') and isinstance(nd.ast, dict) and any(any(y is c for y in A.walk(nd.ast)) for c in adv)]
        leak = g.can_reach(g.entry, [g.exit_return], avoid=nodes)
        site = U.site(fn, 'advance on every path')
        if not leak: chk.ok(rid, site, {'function': fn['q'], 'advance_calls': len(adv)} if n % 5 == 1 else None)
        else:
            chk.fail(rid, site, fn['file'], fn['l'], '%s::%s can return without level_stack_.back().advance(), which its other paths perform: the item is delivered but not counted' % (
                A.strip_targs(fn.get('cls') or '').split('::')[-1], fn['n']), None, fn['q'])
    chk.require(n >= 15, '%s: only %d advancing visit functions found in generic_visitor.hpp' % (rid, n))

def run(chk, tier, only_rule=None):
    chk.explanation = EXPLANATION
    chk.not_decided = NOT_DECIDED
    check_msgpack(chk, tier)
    check_cbor(chk, tier)
    check_ubjson(chk, tier)
    check_bson(chk, tier)
    check_bson_size(chk, tier)
    check_cbor_tag_flags(chk, tier)
    check_adaptor_levels(chk, tier)
    from . import c03
    c03.r03_11(chk, F.load(['core'], tier))   # every kind of source hands a long value out of a scratch buffer that holds that value only
    check_decimal128_fields(chk, tier)
    from . import c15
    for u_ in ('cbor', 'msgpack', 'ubjson', 'bson'):
        c15.r15_8(chk, F.load([u_], tier), rid='R07.errc', floor=1)
    from . import c10
    c10.r10_7(chk, tier)     # a closer that does not give the depth back makes a flat, valid document hit the nesting limit
    from . import c02
    core = F.load(['core'], tier); chk.units.append('core')
    c02.r02_7(chk, core, rid='R07.utf8')
