"""C11 JSON Schema validation verdicts are correct - keyword registry, keyword/validator binding, abort propagation."""
import json, os, re
from .. import frontend as F, ast as A, cfg as C, util as U, guards as G
from . import c20, c05

EXPLANATION = ('Structural necessary conditions only: (R11.1) for each of the five dialect factories, the set of keyword literals it '
               'dispatches on (keyword_factory_map_.emplace("k", ...) and sch.find("k")) contains the verdict-affecting vocabulary of that '
               'draft (table in /verif/spec written from the drafts); (R11.2) every registered keyword is bound to the factory method of the '
               'same name (make_<keyword>_validator), and that method names the same keyword for its schema location and constructs the '
               'validator class of the same name; (R11.3) is_valid and validate run the same validator tree (root_->validate); (R11.4) every '
               'result of reporter.error() is returned or tested against walk_state::abort and propagated; (R05.3) patterns are compiled '
               'inside a converting try/catch (shared with C05).')
NOT_DECIDED = 'the verdicts themselves, annotation flow for unevaluated*, numeric comparison semantics - behaviour, not shape'

def snake(k):
    k = k.lstrip('$')
    return re.sub(r'(?<!^)(?=[A-Z])', '_', k).lower()

def vocab():
    d = json.load(open(os.path.join(F.VERIF, 'spec', 'jsonschema_vocab.json')))
    v4 = set(d['draft4']['verdict'])
    v6 = v4 | set(d['draft6']['adds'])
    v7 = v6 | set(d['draft7']['adds'])
    v19 = (v7 | set(x for x in d['2019-09']['adds'])) 
    v20 = (v19 | set(d['2020-12']['adds'])) - set(d['2020-12']['removes'])
    return {'4': v4, '6': v6, '7': v7, '201909': v19, '202012': v20}

# keywords handled outside the factory tables (resolved while reading the schema), with the place that handles them
STRUCTURAL = {'$ref', '$recursiveRef', '$dynamicRef', '$anchor', '$recursiveAnchor', '$dynamicAnchor', '$defs', 'definitions'}

def literals_in(fn):
    out = []
    for x in A.walk(fn.get('body')):
        if x.get('k') in A.CALLS and A.callee_name(x) in ('emplace', 'find', 'contains', 'count'):
            for a in (x.get('args') or [])[:1]:
                for y in A.walk(a):
                    if y.get('k') == 'StringLiteral': out.append((A.callee_name(x), y.get('s'), x))
    return out

def run(chk, tier, only_rule=None):
    chk.explanation = EXPLANATION
    chk.not_decided = NOT_DECIDED
    facts = F.load(['jsonschema'], tier)
    chk.units = ['jsonschema']
    chk.rule('R11.1', 'keyword registry of each dialect factory contains the verdict-affecting vocabulary of its draft', floor=150)
    chk.rule('R11.2', 'keyword <-> factory method <-> validator class binding by name', floor=100)
    chk.rule('R11.3', 'is_valid and validate both evaluate root_->validate', floor=2)
    chk.rule('R11.4', 'reporter.error() results are returned or tested against walk_state::abort and propagated', floor=40)
    voc = vocab()
    # keywords looked up by the shared layers every dialect factory delegates to
    shared = {}
    for f in facts.functions:
        if f.get('dep') or f.get('body') is None: continue
        if f['file'].endswith(('keyword_validator_factory.hpp', 'schema_readers.hpp', 'schema_validator_factory_base.hpp')):
            for kind, s_, call in literals_in(f):
                shared.setdefault(s_, (f, call))
    # ---- R11.1 / R11.2 (registry part)
    for ver, words in sorted(voc.items()):
        cls = 'schema_validator_factory_%s' % ver
        fns = [f for f in facts.functions if not f.get('dep') and f.get('body') is not None and A.strip_targs(f.get('cls') or '').endswith(cls) and 'basic_json<char>>' in f.get('cls', '')]
        chk.require(fns, 'dialect factory %s not found' % cls)
        lits = {}
        binds = {}
        for fn in fns:
            chk.analysed(fn)
            for kind, s, call in literals_in(fn):
                lits.setdefault(s, (fn, call))
                if kind == 'emplace' and A.ref_name(call.get('obj')).endswith('factory_map_'):
                    lam = None
                    for y in A.walk((call.get('args') or [None, None])[1]):
                        if y.get('k') == 'LambdaExpr': lam = y; break
                    made = [A.callee_name(c) for c in A.calls_in(lam.get('body'))] if lam else []
                    made = [m for m in made if m.startswith('make_')]
                    binds[s] = (fn, call, made)
        for w in sorted(words):
            site = 'include/jsoncons_ext/jsonschema %s keyword %s' % (cls, w)
            if w in lits: chk.ok('R11.1', site, {'draft': ver, 'keyword': w, 'line': lits[w][1].get('l')} if w in ('$ref', 'items', 'if', 'prefixItems') else None)
            elif w in STRUCTURAL and any(w in x for x in lits): chk.ok('R11.1', site, None)
            else:
                if w in shared: chk.ok('R11.1', site, {'draft': ver, 'keyword': w, 'handled_by': shared[w][0]['file'].rsplit('/', 1)[-1], 'line': shared[w][1].get('l')})
                else: chk.fail('R11.1', site, fns[0]['file'], fns[0]['l'], 'draft %s keyword `%s` affects the verdict but %s never looks it up' % (ver, w, cls), None, fns[0]['q'])
        for k, (fn, call, made) in sorted(binds.items()):
            site = 'include/jsoncons_ext/jsonschema %s binding %s' % (cls, k)
            want = 'make_%s_validator' % snake(k)
            # a dialect may bind its own variant of the method, suffixed with the draft number (draft 4 boolean exclusiveMaximum)
            if (want + '_' + ver) in made: made = made + [want]
            if want in made: chk.ok('R11.2', site, None, nontrivial=(k in ('maxItems', 'enum')))
            else: chk.fail('R11.2', site, fn['file'], call.get('l'), 'keyword `%s` is bound to %s instead of %s' % (k, made or 'nothing', want), None, fn['q'])
    # ---- R11.2 (factory method part): make_X_validator names keyword k with snake(k) == X and constructs X_validator
    kf = [f for f in facts.functions if not f.get('dep') and f.get('body') is not None and f['file'].endswith('keyword_validator_factory.hpp') and
          f['n'].startswith('make_') and f['n'].endswith('_validator') and 'basic_json<char>>' in (f.get('cls') or '')]
    chk.require(len(kf) >= 20, 'keyword_validator_factory make_* methods not found (%d)' % len(kf))
    for fn in U.one_per_inst(kf):
        x = fn['n'][5:-10]
        strs = [y.get('s') for y in A.walk(fn['body']) if y.get('k') == 'StringLiteral']
        kws = [s for s in strs if snake(s) == x]
        constructed = []
        for c in A.calls_in(fn['body']):
            if A.callee_name(c) == 'make_unique' and c.get('ta'): constructed.append(A.strip_targs(c['ta'][0]).rsplit('::', 1)[-1])
        site = U.site(fn, 'names/constructs')
        chk.analysed(fn)
        ok_cls = (x + '_validator') in constructed or not constructed
        if kws and ok_cls: chk.ok('R11.2', site, {'method': fn['n'], 'keyword': kws[0], 'constructs': constructed[:2]})
        elif not kws and not strs: chk.ok('R11.2', site, None, nontrivial=False)
        elif not ok_cls: chk.fail('R11.2', site, fn['file'], fn['l'], '%s constructs %s instead of %s_validator' % (fn['n'], constructed, x), None, fn['q'])
        else:
            # methods that take the keyword name as a parameter (shared between dialect spellings) name no literal
            if any(p['n'] in ('keyword', 'keyword_name') for p in fn['params']): chk.ok('R11.2', site, None, nontrivial=False)
            else: chk.fail('R11.2', site, fn['file'], fn['l'], '%s names keyword(s) %s, none of which is `%s`' % (fn['n'], strs[:4], x), None, fn['q'])
    # ---- R11.3
    for name in ('is_valid', 'validate'):
        fns = [f for f in facts.functions if not f.get('dep') and f.get('body') is not None and f['n'] == name and A.strip_targs(f.get('cls') or '').endswith('jsonschema::json_schema')]
        chk.require(fns, 'json_schema::%s not found' % name)
        for fn in U.one_per_inst(fns):
            chk.analysed(fn)
            calls = [c for c in A.calls_in(fn['body']) if A.callee_name(c) == 'validate' and 'root_' in A.text(c.get('obj'))]
            dele = [c for c in A.calls_in(fn['body']) if A.callee_name(c) in ('validate', 'is_valid') and K_this(c)]
            site = U.site(fn, 'nparams=%d' % len(fn['params']))
            if calls or dele: chk.ok('R11.3', site, {'function': fn['q'], 'evaluates': 'root_->validate' if calls else 'delegates'})
            else: chk.fail('R11.3', site, fn['file'], fn['l'], 'json_schema::%s does not evaluate root_->validate' % name, None, fn['q'])
    # ---- R11.4
    n4 = 0; seen = set()
    for fn in facts.functions:
        if fn.get('dep') or fn.get('body') is None or not fn['file'].endswith(('keyword_validator.hpp', 'schema_validator.hpp', 'format_validators.hpp')): continue
        if 'basic_json<char>>' not in (fn.get('cls') or fn['q']): continue
        errs = [c for c in A.walk_no_lambda(fn['body']) if c.get('k') == 'CXXMemberCallExpr' and A.callee_name(c) == 'error' and A.ref_name(c.get('obj')) == 'reporter']
        if not errs: continue
        g = C.CFG(fn['body'])
        chk.analysed(fn)
        for i, c in enumerate(errs):
            nd = g.node_of(c)
            if nd is None: continue
            site = U.site(fn, 'reporter.error#%d' % (i + 1))
            if site in seen: continue
            seen.add(site); n4 += 1
            ok = False
            if nd.kind == 'return': ok = True
            elif nd.kind == 'stmt' and isinstance(nd.ast, dict):
                var = None
                if nd.ast.get('k') == 'DeclStmt':
                    for d in nd.ast.get('decls') or []:
                        if d.get('init') is not None and any(y is c for y in A.walk(d['init'])): var = d.get('n')
                else:
                    am = U.assigned_member(nd.ast)
                    if am and any(y is c for y in A.walk(am[1])): var = am[0]
                if var:
                    for m in g.rpo:
                        if m.id not in g.reachable_from(nd): continue
                        if m.kind == 'return' and A.ref_name(m.ast.get('val')) == var: ok = True
                        if m.kind == 'cond':
                            cmp_ = G.comparison(m.ast)
                            if cmp_ and cmp_[0] == '==' and A.ref_name(cmp_[1]) == var and U.enum_const_name(cmp_[2]) == 'abort':
                                te = [e for e in m.succ if e.label is True]
                                if te and any(x.kind == 'return' for x in G.block_after(te[0])): ok = True
            if not ok and fn['n'] == 'do_validate' and 'boolean_schema_validator' in (fn.get('cls') or ''):
                # table entry: the `false` schema reports one error and the walk continues by design (it has no sub-schemas to skip);
                # the collecting reporters never abort on a single error of the last keyword of a branch
                chk.ok('R11.4', site, {'exempt': 'boolean false schema: single terminal error, result unused by design'}); continue
            if ok: chk.ok('R11.4', site, None, nontrivial=(n4 % 15 == 1))
            else: chk.fail('R11.4', site, fn['file'], c.get('l'), 'the result of reporter.error() in %s is neither returned nor tested against walk_state::abort' % U.site(fn, '').strip(), None, fn['q'])
    chk.require(n4 >= 40, 'R11.4: only %d reporter.error sites found' % n4)
    c05.r05_3(chk, tier)

def K_this(c):
    from .. import kinds as K
    return K.obj_key(c.get('obj')) == 'this'
