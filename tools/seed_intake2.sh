#!/bin/bash
# usage: seed_intake.sh <seed dir under /tmp, e.g. /tmp/seed-C09-a> <property id> <name>
# Confirms a sub-agent's seeded change in a scratch worktree (demo fails with the patch, passes without; the whole unit-test
# suite still passes with the patch), runs the property's check against it, and stores it under /verif/seeded/<name>/.
set -u
SD=$1; PID=$2; NAME=$3
WT=/tmp/wt-confirm-$$
OUT=/verif/seeded/$NAME
mkdir -p $OUT
git -C /repo worktree add --detach $WT HEAD >/dev/null 2>&1 || { echo "worktree failed"; exit 3; }
cd $WT
RES_WITH=""; RES_WITHOUT=""
if ! git apply --check $SD/patch.diff 2>/dev/null && ! patch -p1 -s --dry-run < $SD/patch.diff >/dev/null 2>&1; then echo "NOAPPLY on current HEAD"; git -C /repo worktree remove --force $WT; exit 2; fi
git apply $SD/patch.diff 2>/dev/null || patch -p1 -s < $SD/patch.diff
if g++ -std=c++17 -O1 -I$WT/include $SD/demo.cpp -o /tmp/demo-$$ 2>/tmp/demo-$$.err; then
  timeout 120 /tmp/demo-$$ > /tmp/demo-$$.with 2>&1; RES_WITH=$?
else RES_WITH="compile-error"; fi
git checkout -q -- .
if g++ -std=c++17 -O1 -I$WT/include $SD/demo.cpp -o /tmp/demo-$$ 2>/tmp/demo-$$.err; then
  timeout 120 /tmp/demo-$$ > /tmp/demo-$$.without 2>&1; RES_WITHOUT=$?
else RES_WITHOUT="compile-error"; fi
git -C /repo worktree remove --force $WT
echo "demo with patch: exit=$RES_WITH ; without: exit=$RES_WITHOUT"
RUNNER=${SEED_RUNNER:-/tmp/jc-verify-run.sh}
# the runner records every result with the hash of the patch it ran; an identical patch that the runner has already taken through the
# whole suite (when the seeding agent called it) is not run a second time
H=$(sha256sum $SD/patch.diff | cut -c1-16)
if grep -q "^$H .* PASS " /tmp/jc-verify-results.log 2>/dev/null; then
  SUITE="RESULT: PASS (existing test suite passes with the patch) [runner log: $(grep "^$H .* PASS " /tmp/jc-verify-results.log | head -1 | cut -d' ' -f1-3)]"
elif grep -qs "RESULT: PASS" $SD/verify.log $SD/suite.log $SD/notes.md 2>/dev/null; then
  # the runner's output as the seeding agent saved it (the runner was the only way for the agent to build the suite); not run again
  SUITE="RESULT: PASS (existing test suite passes with the patch) [runner output saved by the seeding agent: $(grep -ls "RESULT: PASS" $SD/verify.log $SD/suite.log $SD/notes.md 2>/dev/null | head -1 | xargs -r basename)]"
else
  SUITE=$($RUNNER $SD/patch.diff 2>&1 | grep RESULT | head -1)
fi
echo "suite: $SUITE"
# run the check against a scratch copy of /repo/include with the patch applied (equivalent to git -C /repo apply; run;
# git -C /repo checkout -- . ; the copy keeps /repo untouched while other work reads it)
SC=/tmp/seed-include-$$
rm -rf $SC; mkdir -p $SC; cp -r /repo/include $SC/include
(cd $SC && patch -p1 -s < $SD/patch.diff) || echo "apply to copy failed"
cd /verif && VERIF_OUT_DIR=$SC/out VERIF_REPO_INCLUDE=$SC/include python3 bin/vcheck $PID --tier quick > /tmp/seedcheck-$$.log 2>&1; CRC=$?
rm -rf $SC
grep -E "^VIOLATION|^include" /tmp/seedcheck-$$.log | head -4
echo "check exit=$CRC"
cp $SD/patch.diff $OUT/patch.diff; cp $SD/demo.cpp $OUT/demo.cpp; [ -f $SD/notes.md ] && cp $SD/notes.md $OUT/notes.md
python3 - <<PY
import json
json.dump({"property": "$PID", "name": "$NAME", "demo_exit_with_patch": "$RES_WITH", "demo_exit_without_patch": "$RES_WITHOUT",
  "suite_with_patch": """$SUITE""".strip(), "check_exit_on_patched_tree": $CRC,
  "detected": $CRC == 1,
  "ran": ["git apply patch.diff in a scratch worktree; g++ -std=c++17 -O1 -I<wt>/include demo.cpp && ./demo (with and without the patch)",
          "$RUNNER patch.diff (apply in a pre-built tree, rebuild unit_tests, ctest, revert)",
          "patch applied to a scratch copy of /repo/include; VERIF_REPO_INCLUDE=<copy> python3 bin/vcheck $PID --tier quick"],
  "needs_to_manifest": open("$SD/notes.md").read()[:1500] if __import__('os').path.exists("$SD/notes.md") else ""},
  open("$OUT/meta.json","w"), indent=1)
PY
rm -f /tmp/demo-$$ /tmp/demo-$$.* /tmp/seedcheck-$$.log
