"""E7: taint from lengths declared by the input to allocation-sizing calls (flow-insensitive within a function,
one level of parameter passing)."""
from . import ast as A

SOURCE_CALLS = {'read_size', 'get_size', 'get_length', 'get_uint64_value', 'read_uint64'}
SINKS = {'reserve', 'resize'}
CAP_CALLS = {'min', 'clamp'}

def is_source_call(x):
    if x.get('k') not in A.CALLS: return False
    n = A.callee_name(x)
    if n in SOURCE_CALLS: return True
    # staj_event::size(): cursor.current().size()
    if n == 'size' and x.get('k') == 'CXXMemberCallExpr':
        o = A.strip(x.get('obj'), casts=True)
        if o is not None and o.get('k') == 'CXXMemberCallExpr' and A.callee_name(o) == 'current': return True
    return False

def bounded(e, tainted):
    """Expression e is bounded independently of tainted values: constants, chunk_size(), sizes of existing containers, untainted variables."""
    return not mentions_taint(e, tainted)

def mentions_taint(e, tainted):
    """Does expression e depend on a tainted value that is not capped?"""
    if e is None: return False
    s = A.strip(e, casts=True)
    if s is None: return False
    k = s.get('k')
    if k in A.CALLS:
        n = A.callee_name(s)
        if n in CAP_CALLS:
            args = s.get('args') or []
            # min(a, b): bounded as soon as one operand is bounded
            if n == 'min' and any(not mentions_taint(a, tainted) for a in args): return False
        if is_source_call(s): return True
        return any(mentions_taint(a, tainted) for a in (s.get('args') or [])) or \
               (k == 'CXXMemberCallExpr' and mentions_taint(s.get('obj'), tainted) and A.callee_name(s) not in ('size', 'length', 'chunk_size', 'capacity'))
    if k == 'ConditionalOperator':
        # the value is one of the two arms; the condition only selects (no size flows from it)
        return mentions_taint(s.get('then'), tainted) or mentions_taint(s.get('else'), tainted)
    if k == 'BinaryOperator' and s.get('op') in ('<', '>', '<=', '>=', '==', '!=', '&&', '||'):
        return False        # a truth value does not carry a length
    if k == 'DeclRefExpr':
        return s.get('id') in tainted
    if k == 'MemberExpr':
        return ('m', s.get('n')) in tainted
    return any(mentions_taint(c, tainted) for c in A.children(s))

def analyse(fn, tainted_params=()):
    """Returns (tainted set, list of (sink call, arg) violations, list of (callee call, arg index) tainted arguments passed on)."""
    tainted = set()
    for p in fn['params']:
        if p['n'] in tainted_params: tainted.add(p['id'])
    changed = True
    body = fn.get('body')
    iters = 0
    while changed and iters < 10:
        changed = False; iters += 1
        for x in A.walk_no_lambda(body):
            k = x.get('k')
            if k == 'VarDecl' and x.get('init') is not None and x.get('id') not in tainted:
                if mentions_taint(x['init'], tainted): tainted.add(x['id']); changed = True
            elif k in ('BinaryOperator', 'CompoundAssignOperator') and x.get('op', '').endswith('=') and x.get('op') not in ('==', '!=', '<=', '>='):
                l = A.strip(x.get('lhs'))
                if l is None: continue
                key = l.get('id') if l.get('k') == 'DeclRefExpr' else (('m', l.get('n')) if l.get('k') == 'MemberExpr' else None)
                if key is not None and key not in tainted and mentions_taint(x.get('rhs'), tainted):
                    # `unread -= actual` style decrements of an already tainted value keep it tainted; new taint only through '=' / '+='
                    tainted.add(key); changed = True
    sinks = []; passed = []
    for x in A.walk_no_lambda(body):
        k = x.get('k')
        if k == 'CXXMemberCallExpr' and A.callee_name(x) in SINKS:
            for a in x.get('args') or []:
                if mentions_taint(a, tainted): sinks.append((x, a))
        elif k in A.CALLS and x.get('cid') is not None:
            for i, a in enumerate(x.get('args') or []):
                if mentions_taint(a, tainted): passed.append((x, i))
        elif k in ('CXXConstructExpr', 'CXXTemporaryObjectExpr'):
            t = fn['_types'][x['t'] - 1] if x.get('t') else ''
            if ('std::vector<' in t or 'std::basic_string<' in t) and len(x.get('args') or []) in (1, 2):
                a0 = x['args'][0]
                at = fn['_types'][a0['t'] - 1] if a0.get('t') else ''
                if at in ('unsigned long', 'unsigned int', 'long', 'int') and mentions_taint(a0, tainted): sinks.append((x, a0))
    return tainted, sinks, passed
