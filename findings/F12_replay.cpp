#include <jsoncons/json.hpp>
#include <jsoncons_ext/jsonpath/jsonpath.hpp>
#include <jsoncons_ext/jmespath/jmespath.hpp>
#include <iostream>
using namespace jsoncons;
int main(){
    json doc = json::parse("[0,1,2,3,4]");
    const char* qs[] = {"$[1:4:9223372036854775807]","$[1:4:2]","$[::-9223372036854775807]","$[4:0:-2]","$[::-1]","$[3::-9223372036854775808]","$[0:5:5]","$[0:5:4]","$[1:4:3]"};
    for (auto q: qs) std::cout << q << " -> " << jsonpath::json_query(doc,q) << "\n";
    const char* js[] = {"[1:4:9223372036854775807]","[1:4:2]","[::-9223372036854775807]","[4:0:-2]","[::-1]","[0:5:4]"};
    for (auto q: js) std::cout << q << " -> " << jmespath::search(doc,q) << "\n";
}
