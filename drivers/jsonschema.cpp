// instantiation driver: jsonschema
#include <jsoncons/json.hpp>
#include <jsoncons_ext/jsonschema/jsonschema.hpp>
namespace jsoncons { namespace jsonschema {
template class json_schema<json>;
}}
void jcsa_use_jsonschema(const jsoncons::json& sch, const jsoncons::json& inst, const jsoncons::ojson& osch)
{
    using namespace jsoncons;
    auto s = jsonschema::make_json_schema(sch);
    bool ok = s.is_valid(inst);
    s.validate(inst);
    s.validate(inst, [](const jsonschema::validation_message&){ return jsonschema::walk_result::advance; });
    json patch;
    s.validate(inst, patch);
    json_decoder<json> d;
    s.validate(inst, d);
    auto s2 = jsonschema::make_json_schema(sch, jsonschema::evaluation_options{}.default_version(jsonschema::schema_version::draft7()));
    auto s3 = jsonschema::make_json_schema(osch);
    ojson oi;
    (void)s3.is_valid(oi);
    (void)ok;
}
