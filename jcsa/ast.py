"""Helpers over the compact statement trees written by the plugin."""
SLOTS = ('init', 'var', 'cond', 'then', 'else', 'inc', 'call', 'body', 'sub', 'lhs', 'rhs', 'base', 'obj',
         'callee', 'val', 'range')
LISTS = ('c', 'args', 'decls', 'handlers')

TRANSPARENT = ('ImplicitCastExpr', 'ParenExpr')
EXPLICIT_CASTS = ('CStyleCastExpr', 'CXXStaticCastExpr', 'CXXFunctionalCastExpr', 'CXXConstCastExpr',
                  'CXXReinterpretCastExpr')
CALLS = ('CallExpr', 'CXXMemberCallExpr', 'CXXOperatorCallExpr')

def children(n):
    """Direct child nodes (dicts) of n in source order (approximately)."""
    out = []
    if n.get('k') in CALLS:
        # callee contains obj; avoid visiting obj twice
        c = n.get('callee')
        if c is not None: out.append(c)
        for a in n.get('args') or []:
            if a is not None: out.append(a)
        return out
    for s in SLOTS:
        v = n.get(s)
        if isinstance(v, dict): out.append(v)
    for s in LISTS:
        v = n.get(s)
        if v:
            for x in v:
                if isinstance(x, dict): out.append(x)
    return out

def walk(n):
    """Pre-order over all nodes under n (including n)."""
    if n is None: return
    stack = [n]
    while stack:
        x = stack.pop()
        yield x
        ch = children(x)
        for c in reversed(ch):
            stack.append(c)

def walk_no_lambda(n):
    if n is None: return
    stack = [n]
    while stack:
        x = stack.pop()
        yield x
        if x.get('k') == 'LambdaExpr': continue
        for c in reversed(children(x)):
            stack.append(c)

def strip(e, casts=False):
    """Peel implicit casts and parentheses (and explicit casts if casts=True)."""
    while e is not None:
        k = e.get('k')
        if k in TRANSPARENT or (casts and k in EXPLICIT_CASTS):
            e = e.get('sub')
        elif k in ('CXXDefaultArgExpr',):
            e = e.get('sub')
        else:
            break
    return e

def const(e):
    """Folded integer value of expression e, or None."""
    if e is None: return None
    if 'ev' in e: return e['ev']
    if 'v' in e and e.get('k') in ('IntegerLiteral', 'CharacterLiteral', 'CXXBoolLiteralExpr'): return e['v']
    s = strip(e, casts=True)
    if s is not e and s is not None:
        if 'ev' in s: return s['ev']
        if 'v' in s and s.get('k') in ('IntegerLiteral', 'CharacterLiteral', 'CXXBoolLiteralExpr'): return s['v']
    return None

def is_call(e):
    return e is not None and e.get('k') in CALLS

def callee_q(e):
    """Qualified name of direct callee (with class template args), '' if unresolved."""
    return e.get('cq', '') if e else ''

def strip_targs(q):
    """Remove template argument lists from a qualified name."""
    out = []; depth = 0
    i = 0
    while i < len(q):
        ch = q[i]
        if ch == '<':
            # operator< / operator<< / operator<=
            if depth == 0 and (q[:i] == 'operator' or q[:i].endswith('::operator') or q[:i].endswith(' operator')):
                out.append(ch)
            else:
                depth += 1
        elif ch == '>':
            if depth > 0: depth -= 1
            else: out.append(ch)
        elif depth == 0:
            out.append(ch)
        i += 1
    return ''.join(out)

def callee_name(e):
    """Unqualified callee name: resolved callee, else name in the callee expression (dependent code)."""
    if e is None: return ''
    q = e.get('cq')
    if q:
        return strip_targs(q).rsplit('::', 1)[-1]
    c = strip(e.get('callee'))
    if c is not None:
        return c.get('n', '')
    return ''

def member_name(e):
    e = strip(e)
    if e is not None and e.get('k') in ('MemberExpr', 'CXXDependentScopeMemberExpr', 'UnresolvedMemberExpr'):
        return e.get('n', '')
    return ''

def ref_name(e):
    """Name of the variable/field/enumerator an expression denotes (through casts), else ''."""
    e = strip(e, casts=True)
    if e is None: return ''
    if e.get('k') in ('DeclRefExpr', 'MemberExpr', 'CXXDependentScopeMemberExpr', 'UnresolvedMemberExpr',
                      'UnresolvedLookupExpr', 'DependentScopeDeclRefExpr'):
        return e.get('n', '')
    return ''

def calls_in(n, no_lambda=False):
    w = walk_no_lambda if no_lambda else walk
    for x in w(n):
        if x.get('k') in CALLS or x.get('k') in ('CXXConstructExpr', 'CXXTemporaryObjectExpr'):
            yield x

def text(e, depth=0):
    """Short readable rendering of an expression (for reports only, never matched)."""
    if e is None: return ''
    if depth > 12: return '...'
    k = e.get('k')
    d = depth + 1
    if k in TRANSPARENT or k == 'CXXDefaultArgExpr':
        if k == 'ParenExpr': return '(' + text(e.get('sub'), d) + ')'
        return text(e.get('sub'), d)
    if k in EXPLICIT_CASTS: return 'cast(' + text(e.get('sub'), d) + ')'
    if k in ('IntegerLiteral', 'CXXBoolLiteralExpr'): return str(e.get('v'))
    if k == 'CharacterLiteral':
        v = e.get('v', 0)
        return repr(chr(v)) if 32 <= v < 127 else "'\\x%02x'" % v
    if k == 'StringLiteral': return '"%s"' % e.get('s', '')
    if k == 'DeclRefExpr': return e.get('n', '?')
    if k == 'CXXThisExpr': return 'this'
    if k in ('MemberExpr', 'CXXDependentScopeMemberExpr', 'UnresolvedMemberExpr'):
        b = e.get('base')
        if b is None or strip(b).get('k') == 'CXXThisExpr': return e.get('n', '?')
        return text(b, d) + ('->' if e.get('arrow') else '.') + e.get('n', '?')
    if k in ('BinaryOperator', 'CompoundAssignOperator'):
        return '%s %s %s' % (text(e.get('lhs'), d), e.get('op'), text(e.get('rhs'), d))
    if k == 'UnaryOperator':
        if e.get('postfix'): return text(e.get('sub'), d) + e.get('op', '')
        return e.get('op', '') + text(e.get('sub'), d)
    if k == 'ConditionalOperator':
        return '%s ? %s : %s' % (text(e.get('cond'), d), text(e.get('then'), d), text(e.get('else'), d))
    if k in CALLS:
        args = e.get('args') or []
        if k == 'CXXOperatorCallExpr':
            op = e.get('oop', '')
            if len(args) == 2 and op not in ('()', '[]'):
                return '%s %s %s' % (text(args[0], d), op, text(args[1], d))
            if op == '[]' and len(args) == 2:
                return '%s[%s]' % (text(args[0], d), text(args[1], d))
            if len(args) == 1: return op + text(args[0], d)
        c = strip(e.get('callee'))
        cn = text(c, d) if c is not None else callee_name(e)
        ta = e.get('ta')
        if ta and c is not None and c.get('k') in ('MemberExpr', 'DeclRefExpr'):
            cn += '<' + ','.join(t.rsplit('::', 1)[-1] for t in ta) + '>'
        return '%s(%s)' % (cn, ', '.join(text(a, d) for a in args))
    if k in ('CXXConstructExpr', 'CXXTemporaryObjectExpr'):
        args = e.get('args') or []
        if len(args) == 1: return text(args[0], d)
        return 'T(%s)' % ', '.join(text(a, d) for a in args)
    if k == 'CXXThrowExpr': return 'throw ' + text(e.get('sub'), d)
    if k == 'UnresolvedLookupExpr' or k == 'DependentScopeDeclRefExpr': return e.get('n', '?')
    if k == 'ArraySubscriptExpr':
        c = e.get('c') or [None, None]
        return '%s[%s]' % (text(c[0], d), text(c[1], d))
    if k == 'LambdaExpr': return '[lambda]'
    return k or '?'


# ---- canonical rendering for sibling comparisons ------------------------------------------------------------------
NEG = {'<': '>=', '>': '<=', '<=': '>', '>=': '<', '==': '!=', '!=': '=='}
SWAP = {'<': '>', '>': '<', '<=': '>=', '>=': '<=', '==': '==', '!=': '!='}

def mutated_ids(body):
    """ids of locals/params that are assigned, incremented, compound-assigned or have their address taken anywhere in body."""
    out = set()
    for x in walk(body):
        k = x.get('k')
        t = None
        if k in ('BinaryOperator', 'CompoundAssignOperator') and x.get('op', '').endswith('=') and x.get('op') not in ('==', '!=', '<=', '>='):
            t = strip(x.get('lhs'), casts=True)
        elif k == 'UnaryOperator' and x.get('op') in ('++', '--', '&'):
            t = strip(x.get('sub'), casts=True)
        elif k == 'CXXOperatorCallExpr' and x.get('oop') in ('=', '+=', '-=', '++', '--') and x.get('args'):
            t = strip(x['args'][0], casts=True)
        if t is not None and t.get('k') == 'DeclRefExpr': out.add(t.get('id'))
    return out

def _walk_unfolded(n):
    # constant-folded sub-expressions ('ev') are pure whatever they contain
    stack = [n]
    while stack:
        z = stack.pop()
        if 'ev' in z: continue
        yield z
        stack.extend(reversed(children(z)))

_PURE_NAMES = ('operator bool', 'operator==', 'operator!=', 'operator<', 'operator>', 'operator<=', 'operator>=', 'size', 'length', 'empty', '__builtin_expect',
               # non-modifying sequence algorithms and the iterators they are given (their predicate is walked like any other sub-expression)
               'all_of', 'any_of', 'none_of', 'find', 'find_if', 'find_if_not', 'count', 'count_if', 'equal', 'begin', 'end', 'cbegin', 'cend', 'min', 'max')
_SEQ_CLASSES = ('basic_string', 'vector', 'array', 'basic_string_view', 'span')

def pure_expr(e, allow_const_calls=False, mut=()):
    """True if evaluating e has no side effect and reads none of the variables in `mut`."""
    for y in _walk_unfolded(e):
        k = y.get('k')
        if k in CALLS:
            if allow_const_calls and (y.get('cconst') or callee_name(y) in _PURE_NAMES): continue
            # element access of a sequence container has no effect (unlike map::operator[])
            if allow_const_calls and callee_name(y) == 'operator[]' and any(c in (y.get('cq') or '') for c in _SEQ_CLASSES): continue
            if callee_name(y) not in ('size', 'length') or y.get('args'): return False
        elif k == 'LambdaExpr' and allow_const_calls: continue          # creating a closure has no effect; its body is walked
        elif k == 'CXXConstructExpr' and allow_const_calls and len(y.get('args') or []) == 1 and any(z.get('k') == 'LambdaExpr' for z in walk(y['args'][0])) and \
             sum(1 for z in walk(y['args'][0])) < 400: continue      # copy of a closure object
        elif k in ('CXXConstructExpr', 'CXXTemporaryObjectExpr', 'LambdaExpr', 'CXXNewExpr', 'InitListExpr'): return False
        elif k == 'DeclRefExpr' and y.get('dk') in ('Var', 'ParmVar') and y.get('id') in mut: return False
        elif k == 'UnaryOperator' and y.get('op') in ('++', '--', '*', '&'): return False
        elif k in ('BinaryOperator', 'CompoundAssignOperator') and y.get('op', '').endswith('=') and y.get('op') not in ('==', '!=', '<=', '>='): return False
    return True

def pure_aliases(body, allow_const_calls=False):
    """{id: init expr} for locals that are declared once with a side-effect-free initialiser over never-modified variables and are never
    modified themselves: replacing a use by the initialiser does not change the meaning of the function."""
    mut = mutated_ids(body)
    out = {}
    for x in walk_no_lambda(body):
        if x.get('k') != 'VarDecl' or x.get('init') is None or x.get('id') in mut: continue
        if pure_expr(x['init'], allow_const_calls, mut): out[x['id']] = x['init']
    return out

def adjacent_aliases(body):
    """{id(IfStmt node): {var id: init}} for named conditions declared in the run of declarations immediately before an `if`:
        const bool a = E1; const bool b = E2; if (a || b) ...
    Every initialiser in the run and the condition itself are side-effect free, so nothing is modified between the evaluation of Ei and
    the test: the condition means the same with Ei in place of the name, even when the variables Ei reads are modified elsewhere."""
    mut = mutated_ids(body)
    out = {}
    for cs in walk_no_lambda(body):
        if cs.get('k') != 'CompoundStmt': continue
        kids = cs.get('c') or []
        for i, st in enumerate(kids):
            if st.get('k') != 'IfStmt' or st.get('init') is not None or st.get('var') is not None or st.get('cond') is None: continue
            if not pure_expr(st['cond'], True): continue
            run = {}
            j = i - 1
            while j >= 0 and kids[j].get('k') == 'DeclStmt':
                ds = [d for d in children(kids[j]) if d.get('k') == 'VarDecl']
                if not ds or len(ds) != len(children(kids[j])): break
                if not all(d.get('init') is not None and pure_expr(d['init'], True) for d in ds): break
                for d in ds:
                    if d.get('id') not in mut: run[d['id']] = d['init']
                j -= 1
            if run: out[id(st)] = run
    return out

def canon(e, aliases=None, neg=False, depth=0):
    """Canonical text of an expression: pure local aliases replaced by their initialisers, parentheses and implicit casts dropped,
    binary sub-expressions fully parenthesised, `>`/`>=` rewritten as `<`/`<=`, operands of ==/!= ordered, `!` pushed into comparisons.
    Used only to compare two pieces of the code under analysis with each other (sibling agreement), never against a frozen text."""
    aliases = aliases or {}
    if e is None: return ''
    if depth > 14: return '...'
    d = depth + 1
    k = e.get('k')
    def wrapn(t): return ('!(%s)' % t) if neg else t
    if k in TRANSPARENT or k in ('CXXDefaultArgExpr', 'ExprWithCleanups', 'MaterializeTemporaryExpr', 'CXXBindTemporaryExpr'):
        return canon(e.get('sub'), aliases, neg, d)
    if k == 'DeclRefExpr' and e.get('id') in aliases:
        if isinstance(aliases[e['id']], str): return wrapn(aliases[e['id']])      # a value already in canonical form (path summaries)
        return canon(aliases[e['id']], aliases, neg, d)
    if k == 'UnaryOperator' and e.get('op') == '!':
        return canon(e.get('sub'), aliases, not neg, d)
    if k == 'BinaryOperator' and e.get('op') in NEG:
        op = e['op']
        if neg: op = NEG[op]
        a, b = canon(e.get('lhs'), aliases, False, d), canon(e.get('rhs'), aliases, False, d)
        if op in ('>', '>='): op, a, b = SWAP[op], b, a
        if op in ('==', '!=') and b < a: a, b = b, a
        return '(%s %s %s)' % (a, op, b)
    if k == 'CXXOperatorCallExpr' and e.get('oop') in NEG and len(e.get('args') or []) == 2:
        op = e['oop']
        if neg: op = NEG[op]
        a, b = canon(e['args'][0], aliases, False, d), canon(e['args'][1], aliases, False, d)
        if op in ('>', '>='): op, a, b = SWAP[op], b, a
        if op in ('==', '!=') and b < a: a, b = b, a
        return '(%s %s %s)' % (a, op, b)
    if k == 'BinaryOperator' and e.get('op') in ('&&', '||') and neg:
        op = '||' if e['op'] == '&&' else '&&'
        return '(%s %s %s)' % (canon(e.get('lhs'), aliases, True, d), op, canon(e.get('rhs'), aliases, True, d))
    if k in ('BinaryOperator', 'CompoundAssignOperator'):
        return wrapn('(%s %s %s)' % (canon(e.get('lhs'), aliases, False, d), e.get('op'), canon(e.get('rhs'), aliases, False, d)))
    if k == 'UnaryOperator':
        if e.get('op') in ('++', '--'):
            return wrapn('(%s %s= 1)' % (canon(e.get('sub'), aliases, False, d), e['op'][0]))
        return wrapn(e.get('op', '') + canon(e.get('sub'), aliases, False, d))
    if k in EXPLICIT_CASTS: return wrapn('cast(' + canon(e.get('sub'), aliases, False, d) + ')')
    if k == 'ConditionalOperator':
        c = e.get('cond')
        return wrapn('(%s ? %s : %s)' % (canon(c, aliases, False, d), canon(e.get('then'), aliases, False, d), canon(e.get('else'), aliases, False, d)))
    if k in ('MemberExpr', 'CXXDependentScopeMemberExpr', 'UnresolvedMemberExpr'):
        b = e.get('base')
        if b is None or strip(b).get('k') == 'CXXThisExpr': return wrapn(e.get('n', '?'))
        return wrapn(canon(b, aliases, False, d) + '.' + e.get('n', '?'))
    if k in CALLS:
        args = e.get('args') or []
        if k == 'CXXOperatorCallExpr':
            op = e.get('oop', '')
            if len(args) == 2 and op not in ('()', '[]'):
                return wrapn('(%s %s %s)' % (canon(args[0], aliases, False, d), op, canon(args[1], aliases, False, d)))
            if op == '[]' and len(args) == 2:
                return wrapn('%s[%s]' % (canon(args[0], aliases, False, d), canon(args[1], aliases, False, d)))
            if len(args) == 1: return wrapn(op + canon(args[0], aliases, False, d))
        c = strip(e.get('callee'))
        cn = canon(c, aliases, False, d) if c is not None else callee_name(e)
        return wrapn('%s(%s)' % (cn, ', '.join(canon(a, aliases, False, d) for a in args)))
    if k in ('CXXConstructExpr', 'CXXTemporaryObjectExpr'):
        args = e.get('args') or []
        if len(args) == 1: return wrapn(canon(args[0], aliases, False, d))
        return wrapn('T(%s)' % ', '.join(canon(a, aliases, False, d) for a in args))
    if k == 'ArraySubscriptExpr':
        c = e.get('c') or [None, None]
        return wrapn('%s[%s]' % (canon(c[0], aliases, False, d), canon(c[1], aliases, False, d)))
    return wrapn(text(e, depth))

def is_alias_decl(stmt, aliases):
    """A DeclStmt that only declares pure aliases (it disappears in the canonical form)."""
    if stmt.get('k') != 'DeclStmt': return False
    ds = [d for d in stmt.get('decls') or [] if d.get('k') == 'VarDecl']
    return bool(ds) and all(d.get('id') in aliases for d in ds)


def path_summaries(cfg, body, max_paths=512):
    """Symbolic summaries of a small loop-free function: the set of (path conditions, observable effects in order, returned value),
    one per path, with locals replaced by the value they hold on that path and conditional expressions split into paths.
    `if (c) x = a; else x = b; return x;`, `auto x = c ? a : b; return x;` and `return c ? a : b;` all give the same set.
    Returns None when the function is outside the fragment (loops, too many paths)."""
    base = pure_aliases(body)
    out = set()
    count = [0]
    def cases(e, env):
        """[(extra conditions, canonical value)] for expression e: conditional expressions at the top are split"""
        s_ = strip(e, casts=False)
        while s_ is not None and s_.get('k') in ('ExprWithCleanups', 'MaterializeTemporaryExpr', 'CXXBindTemporaryExpr', 'ParenExpr', 'ImplicitCastExpr'):
            s_ = s_.get('sub')
        if s_ is not None and s_.get('k') == 'DeclRefExpr' and s_.get('id') in base and not isinstance(env.get(s_['id']), str):
            return cases(base[s_['id']], env)
        if s_ is not None and s_.get('k') == 'ConditionalOperator':
            res = []
            c = s_.get('cond')
            for cc, v in cases(s_.get('then'), env): res.append(((canon(c, env, neg=False),) + cc, v))
            for cc, v in cases(s_.get('else'), env): res.append(((canon(c, env, neg=True),) + cc, v))
            return res
        return [((), canon(e, env))]
    def walk_(nd, env, conds, effects, onpath):
        count[0] += 1
        if count[0] > 20000 or len(out) > max_paths: raise OverflowError()
        if nd.id in onpath: raise OverflowError()       # a loop
        onpath = onpath | {nd.id}
        k = nd.kind
        if k == 'exit' or k == 'throw' or k == 'unreach':
            out.add((tuple(sorted(set(conds))), tuple(effects), k))
            return
        if k == 'return':
            val = nd.ast.get('val') if isinstance(nd.ast, dict) else None
            if val is None: out.add((tuple(sorted(set(conds))), tuple(effects), 'return')); return
            for cc, v in cases(val, env):
                out.add((tuple(sorted(set(conds) | set(cc))), tuple(effects), 'return ' + v))
            return
        if k == 'cond' and isinstance(nd.ast, dict):
            for e in nd.succ:
                lab = getattr(e, 'label', None)
                if getattr(e, 'kind', None) == 'edge' and lab in (True, False):
                    walk_(e, env, conds + [canon(nd.ast, env, neg=not lab)], effects, onpath)
            return
        if k == 'stmt' and getattr(nd, 'label', None) == 'inlined-call':
            # the marker of an expanded helper call: its statements follow
            for s2 in nd.succ: walk_(s2, env, conds, effects, onpath)
            return
        if k == 'stmt' and isinstance(nd.ast, dict):
            a = nd.ast
            targets = []
            if a.get('k') == 'DeclStmt':
                for d in a.get('decls') or []:
                    if d.get('k') == 'VarDecl' and d.get('init') is not None and d.get('id') not in base: targets.append((d.get('id'), d['init']))
            else:
                x = strip(a, casts=True)
                if x is not None and x.get('k') == 'BinaryOperator' and x.get('op') == '=' and (strip(x.get('lhs'), casts=True) or {}).get('k') == 'DeclRefExpr' and (strip(x.get('lhs'), casts=True) or {}).get('dk') == 'Var':
                    targets.append((strip(x['lhs'], casts=True).get('id'), x.get('rhs')))
                elif a.get('k') != 'DeclStmt':
                    effects = effects + [canon(a, env)]
            if targets:
                # split on conditional values
                def assign(i, env2, conds2):
                    if i == len(targets):
                        for s2 in nd.succ: walk_(s2, env2, conds2, effects, onpath)
                        return
                    vid, rhs = targets[i]
                    for cc, v in cases(rhs, env2):
                        e3 = dict(env2); e3[vid] = v
                        assign(i + 1, e3, conds2 + list(cc))
                assign(0, env, conds)
                return
        for s2 in nd.succ:
            walk_(s2, env, conds, effects, onpath)
    try:
        walk_(cfg.entry, dict(base), [], [], frozenset())
    except (OverflowError, RecursionError):
        return None
    return out
