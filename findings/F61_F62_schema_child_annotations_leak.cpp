#include <jsoncons/json.hpp>
#include <jsoncons_ext/jsonschema/jsonschema.hpp>
#include <iostream>
using namespace jsoncons;
template <class J> bool valid(const char* schema, const char* inst) {
    auto s = jsonschema::make_json_schema(J::parse(schema));
    return s.is_valid(J::parse(inst));
}
int main() {
    int bad = 0;
    // 1. contains: indexes evaluated inside an element are credited to the outer array
    bool v1 = valid<json>(R"({"contains":{"type":"array","prefixItems":[true,true]},"unevaluatedItems":false})", R"([[1,2],"x"])");
    std::cout << "contains leak: valid=" << v1 << " (specification: invalid)\n"; bad += v1;
    // 2. unevaluatedProperties in schema form: names evaluated inside a member value hide outer members
    bool v2a = valid<ojson>(R"({"unevaluatedProperties":{"type":"object","properties":{"b":{}}}})", R"({"a":{"b":1},"b":"x"})");
    bool v2b = valid<ojson>(R"({"unevaluatedProperties":{"type":"object","properties":{"b":{}}}})", R"({"b":"x","a":{"b":1}})");
    std::cout << "unevaluatedProperties leak: a-first valid=" << v2a << ", b-first valid=" << v2b << " (specification: invalid for both)\n"; bad += v2a + v2b;
    // 3. items (schema form, 2019-09): names inside an element credited to ... (array items evaluate elements; element objects' properties leak to?) 
    bool v3 = valid<json>(R"({"$schema":"https://json-schema.org/draft/2019-09/schema","items":{"type":"array","items":[true,true]},"unevaluatedItems":false})", R"([[1,2],[3,4],[5,6]])");
    std::cout << "items control: valid=" << v3 << " (specification: valid)\n";
    return bad ? 1 : 0;
}
